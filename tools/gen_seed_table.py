#!/usr/bin/env python3
"""Annotate seeded/*/meta.json with the first-run outcome and print the DESIGN.md table."""
import glob, json, os, re
ROOT = os.path.dirname(os.path.dirname(os.path.abspath(__file__)))
MISSED_FIRST = {
 "C01-2": "String option grid (each length bound alone with a regex)",
 "C05-1": "the list itself as the argument (aliasing)",
 "C05-2": "sort keys with ties under reverse=True",
 "C08-1": "list ops changing an item's multiplicity inside one event",
 "C08-2": "traits whose constant default is an observable object",
 "C10-2": "Tuple/Union traits with legacy copy-kind members",
 "C13-2": "state after a successful remove_trait judged strictly",
 "C14-1": "deferred traits declared before the Instance trait holding their delegate",
 "C18-2": "refcount experiments: one compound per case of validate_trait_complex",
 "C19-1": "cached depends_on property stratum with listeners; tightened follow-up rule",
 "C19-2": "adapt='default' flavours holding a non-default value",
 "C01-3": "Instance given by class NAME, nested, lattice judged again after lazy resolution",
 "C02-3": "shared-object dynamic defaults; first assignment before any read",
 "C02-4": "quiet sets (trait_setq) incl. rejected ones, followed by ordinary assignments",
 "C03-3": "nested compounds whose inner compound has a slow (List/Dict/Set/Array) member",
 "C05-3": "deterministic non-idempotent validator flavour",
 "C06-3": "notifier-free containers and copies continued as the main object",
 "C08-4": "named dynamic traits: remove_trait / re-add_trait ops",
 "C09-3": "multi-item events changing multiplicity, duplicates histories",
 "C09-4": "stale-owner stratum: dropped targets, burst of fresh targets at reused addresses",
 "C10-3": "metadata-filtered queries / copies after add_trait; class-level comparison",
 "C11-3": "pickle / deepcopy / clone round trips inside histories",
 "C11-4": "classes inheriting __prefix__ and the deferring traits from a base",
 "C12-3": "inherited observed properties whose getter (cached or not) comes from a subclass",
 "C13-3": "trait_added listeners re-entrantly adding the name being resolved",
 "C14-4": "minimal one-feature class family (one liveness feature per class)",
 "C16-3": "ops on stale (replaced) containers",
 "C17-3": "per-object conditional factories; several objects per type on one manager; late ABC registration",
 "C18-3": "dynamic defaults raising AttributeError with warnings ignored / shown / turned into errors",
 "C19-3": "quiet multi-name sets with fault points",
 "C19-4": "sync_trait stratum with fault-pointed partner validators",
}
DESC = {
 "C01-1": "setattr_trait skips validation when the assigned object is identical to the stored one (unvalidated defaults: read, then assign the default back)",
 "C01-2": "String._init picks validate_regex when a regex comes with exactly one length bound (length never checked)",
 "C01-3": "resolve_class of a NESTED Instance('Name') installs its fast validator on the outer Tuple/Dict/Union trait after the first valid assignment",
 "C01-4": "in_float_range rewritten with positive comparisons: NaN passes every bound",
 "C02-1": "_change_accepted fast path for equal builtin numbers ignores comparison_mode none/identity (static and on_trait_change handlers only)",
 "C02-2": "ctrait_prevent_event: bool(old == new) moved outside the try: an array-valued == makes the assignment raise and skips later notifiers",
 "C02-3": "setattr_trait: first assignment over an on-demand default always counts as changed (default method returning a shared object, no prior read)",
 "C02-4": "trait_set quiet path loses its try/finally: a rejected trait_setq leaves notifications switched off",
 "C03-1": "validate_trait_complex: allow-None test hoisted for 3-entry descriptors only, This() in a compound stops accepting None",
 "C03-2": "in_float_range negated comparisons: C accepts NaN, Python rejects",
 "C03-3": "TraitCompound.set_validate merges a nested compound's slow members to the end: later outer fast alternative wins in C, not in Python",
 "C03-4": "validate_trait_tuple_check skips the Int member validator for PyLong_Check (not Exact): bool / int subclasses stored unconverted",
 "C04-1": "TraitList slice assignment skips validation of items EQUAL to the replaced ones (2.0 == 2, True == 1, plain list == inner trait list)",
 "C04-2": "slice-length helper over-counts crossed slices (x[3:1] = ...): maxlen exceeded by a pure insertion",
 "C04-3": "TraitListObject.__init__ trusts any TraitListObject built for the same trait (detached deepcopy / clone lists keep invalid items, inner lists stay unvalidated)",
 "C04-4": "TraitDict.__ior__ hands non-mapping operands (iterables of pairs) to dict.__ior__ unvalidated",
 "C05-1": "validation helper returns the argument list uncopied for validator-less lists: x.extend(x) reports post-operation contents as added",
 "C05-2": "sort(reverse=True) implemented as ascending sort + reverse: stability lost on ties",
 "C05-3": "reverse() rewritten as self[:] = self[::-1]: every stored item re-validated",
 "C05-4": "TraitListObject.__delitem__ forwards a slice rebuilt from slice.indices(): negative-step deletions down to index 0 delete nothing",
 "C06-1": "update/|= classify a repeated new key only at its first occurrence: added[k] keeps the first value, dict holds the last",
 "C06-2": "pop(key, default) uses the default as absent-sentinel: removing a value identical to the default sends no event",
 "C06-3": "update takes a lazy-validation fast path when no notifier is attached: a rejected later item leaves earlier ones stored",
 "C06-4": "setdefault re-reads the result under the RAW key: with key and value coercion the unvalidated raw value is returned",
 "C07-1": "intersection_update narrows one argument at a time and stops when empty: a later invalid argument is never examined",
 "C07-2": "symmetric_difference_update no longer filters validated items that are already members",
 "C07-3": "TraitSetObject stops validating when its owner weakref is dead (deepcopy of the set object, collected owner)",
 "C07-4": "update validates and inserts one iterable at a time: a bad later iterable leaves earlier items inserted, never notified",
 "C08-1": "list item maintainer skips items whose id is in both removed and added (multiplicity lost)",
 "C08-2": "getattr_trait skips the default-read notification for CONSTANT defaults: an observable constant default is never hooked",
 "C08-3": "dict_event_factory omits re-set keys whose new value == old: an equal container stored under an existing key is not re-hooked",
 "C08-4": "non-optional named-trait observers stop following trait_added: remove_trait + add_trait of an existing dynamic trait is not re-hooked",
 "C09-1": "undo log records only the last child graph's maintainer per observable: failing registration under a branching node leaves a maintainer behind",
 "C09-2": "TraitEventNotifier.add_to prunes dead notifiers from the list it iterates: the equivalent notifier is skipped and a duplicate appended",
 "C09-3": "list item maintainer id-set skip (multiplicity), seen through registration counts",
 "C09-4": "ObserverChangeNotifier compares id(target): a collected target's address reused by a fresh one makes removal hit the stale maintainer",
 "C10-1": "add_trait clones the supplied CTrait only when it has notifiers: handlers land on a shared (cached _items / passed-in) CTrait",
 "C10-2": "Tuple/Union derive a CONSTANT default from legacy list_copy/dict_copy members: nested default shared by all instances",
 "C10-3": "traits(**metadata) updates the class's __base_traits__ in place with instance traits",
 "C10-4": "ctrait_prevent_event lets the default-materialisation event through for comparison_mode none (observe handlers)",
 "C11-1": "setattr_delegate computes later hops from the assigned name instead of the resolved name (renaming chains write a stray attribute)",
 "C11-2": "_remove_trait_delegate_listener passes the unresolved '*' pattern: PrototypedFrom('*') listener never removed, duplicated on del",
 "C11-3": "__setstate__ installs delegate listeners after trait_set: unlinked PrototypedFrom attributes notify after unpickling",
 "C11-4": "delegate_attr_name_class_name reads __prefix__ from tp_dict: an INHERITED __prefix__ is ignored",
 "C12-1": "list item maintainer id-set skip (multiplicity): stale cached property",
 "C12-2": "_init_trait_observers moved after trait_set/copy_traits in __setstate__/clone_traits: a handler reading the property mid-restore caches a half-restored value",
 "C12-3": "observer state of an inherited, un-redeclared Property reused from the base: subclass @cached_property never invalidated",
 "C12-4": "bulk hook-up deduplicates container items by id: an item present twice loses its hook when one occurrence is removed",
 "C13-1": "prefix list sorted before base prefixes are merged: longest-prefix rule broken for inherited wildcards",
 "C13-2": "remove_trait resets through the class-level definition: leftover value stays readable under Constant/Event/ReadOnly/Disallow",
 "C13-3": "get_prefix_trait drops the second lookup after trait_added: a listener-added instance trait does not govern the first access",
 "C13-4": "__prefix_trait__ off-by-one: a name exactly equal to a wildcard prefix falls to a shorter rule",
 "C14-1": "copy_traits takes base_trait(name).type: delegates copied in declaration order, early PrototypedFrom override lost in clones",
 "C14-2": "_trait_setstate range check off by one for validate_handlers: Complex definitions cannot be restored",
 "C14-3": "List.validate re-binds an ownerless TraitListObject instead of rebuilding: inner containers of deep copies stay ownerless (unvalidated)",
 "C14-4": "__setstate__: _post_init_trait_observers slipped inside 'if has_listeners': post_init observers dead after unpickling when no legacy listener exists",
 "C15-1": "regex fast path in parse(): whitespace next to 'items' makes it a plain trait name",
 "C15-2": "compile_str cache keyed by whitespace-stripped text: 'na me' accepted once 'name' was compiled",
 "C15-3": "ObserverGraph.__eq__ subset test: a strict sub-pattern compares equal in one direction (removal by text hits the wider registration)",
 "C15-4": "trait() factory rejects Python keywords: 'a.in', 'class' rejected with ValueError",
 "C16-1": "handle_dict_items ignores 'added' when the event also has 'changed' (update mixing existing and new keys)",
 "C16-2": "handle_list registers before unregistering: reverse()/sort() tear the listeners down",
 "C16-3": "container notifier guard rewritten: a replaced (stale) container still fires _items on its former owner",
 "C16-4": "handle_list_items shortcut for whole-list events: same-length slice replacement never re-registers",
 "C17-1": "'followed' set: an intermediate offer consumed by a path that later fails is unavailable to every other path",
 "C17-2": "specificity comparator replaced by an MRO-length key: wrong for ABC.register / @provides",
 "C17-3": "adaptation paths remembered per (type, protocol): a later object of the same type gets a longer / less specific chain",
 "C17-4": "offers whose to_protocol is already provided are pruned: re-wrapping needed by a later conditional factory is lost",
 "C18-1": "setattr_trait delete branch: Py_INCREF(old_value) after PyDict_DelItem (use after free when the dict held the last reference)",
 "C18-2": "validate_trait_complex case 4: Py_DECREF(result) lost on the out-of-range arm (one reference leaked per rejection)",
 "C18-3": "_warn_on_attribute_error: extra Py_DECREF of the exception when the warning is turned into an error",
 "C18-4": "trait_property_changed: NULL check after the getter dropped (segfault when a listened-to property's getter raises)",
 "C19-1": "cached depends_on property: ':old' marker popped after trait_property_changed; a raising getter leaves it, next change not invalidated",
 "C19-2": "validate_trait_adapt swallows TraitError from adapt(): with adapt='default' the factory's failure silently substitutes the default",
 "C19-3": "quiet trait_set via a contextmanager without try/finally: a raising validator leaves notifications off",
 "C19-4": "sync forwarders catch TraitError only: another exception from the partner's validator leaves the sync lock set",
 "C20-1": "remove branch unhooks the items listener as soon as ANY list link is removed",
 "C20-2": "echo-suppression lock tested per object instead of per attribute",
 "C20-3": "mutual request nested inside 'if key not in dic': upgrading a one-way link to mutual is ignored",
 "C20-4": "items forwarder looks the partner's list up under the SOURCE name: aliased list links not replayed",
}
rows = []
for d in sorted(glob.glob(os.path.join(ROOT, "seeded", "*", ""))):
    mp = os.path.join(d, "meta.json")
    m = json.load(open(mp))
    sid = m["id"]
    patch = open(os.path.join(d, "patch.diff")).read()
    files = sorted(set(re.findall(r"^\+\+\+ b/(\S+)", patch, re.M)))
    funcs = []
    for h in re.findall(r"^@@ [^@]*@@ ?(.*)$", patch, re.M):
        h = h.strip()
        mm = re.search(r"(def|class)\s+(\w+)", h) or re.match(r"(\w+)\(", h)
        if mm:
            funcs.append(mm.group(2) if mm.lastindex and mm.lastindex >= 2 else mm.group(1))
    m["first_run"] = "missed" if sid in MISSED_FIRST else "caught"
    if sid in MISSED_FIRST:
        m["widening_that_caught_it"] = MISSED_FIRST[sid]
    json.dump(m, open(mp, "w"), indent=1)
    det = m.get("detection", {}).get("%s/quick" % m["property"], {})
    keys = det.get("violation_keys", [])
    m["mechanism"] = DESC.get(sid, "")
    json.dump(m, open(mp, "w"), indent=1)
    rows.append((sid, ", ".join(f.replace("traits/", "") for f in files), DESC.get(sid, ""),
                 "yes" if det.get("rc") == 1 else "NO", (keys[0] if keys else "-")[:70],
                 MISSED_FIRST.get(sid, "")))
print("| seed | file(s) | seeded defect | caught by own check (quick) | first key | missed at first; caught after adding |")
print("|---|---|---|---|---|---|")
for r in rows:
    print("| %s | %s | %s | %s | `%s` | %s |" % r)
print()
print("%d seeded changes, %d caught by the quick tier of their own property's check (%d of them only after a widening)."
      % (len(rows), sum(1 for r in rows if r[3] == "yes"), sum(1 for r in rows if r[3] == "yes" and r[5])))
