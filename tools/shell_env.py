#!/usr/bin/env python3
"""Build a flavour of /repo (or --repo DIR) and run a command in its environment.
usage: /venv/bin/python tools/shell_env.py [--repo DIR] [--flavour P|S] -- cmd args...
"""
import sys, os, subprocess
sys.path.insert(0, os.path.dirname(os.path.dirname(os.path.abspath(__file__))))
from vf.build import Build
from vf.run import _child_limits
args = sys.argv[1:]
repo, fl = "/repo", "P"
while args and args[0] != "--":
    if args[0] == "--repo": repo = args[1]; args = args[2:]
    elif args[0] == "--flavour": fl = args[1]; args = args[2:]
    else: break
if args and args[0] == "--": args = args[1:]
b = Build(repo)
try:
    env = b.env(fl)
    r = subprocess.run(args, env=env, preexec_fn=_child_limits)
    sys.exit(r.returncode)
finally:
    b.cleanup()
