#!/usr/bin/env python3
"""Validate MANIFEST.json and evidence/*.json against the schemas (run with python3-vt)."""
import json, sys, glob, os
import jsonschema
R = os.path.dirname(os.path.dirname(os.path.abspath(__file__)))
ok = True
def v(path, schema):
    global ok
    try:
        jsonschema.validate(json.load(open(path)), json.load(open(schema)))
        print("ok  ", path)
    except Exception as e:
        ok = False
        print("FAIL", path, str(e)[:300])
v(R + "/MANIFEST.json", "/root/.vp/MANIFEST.schema.json")
for p in sorted(glob.glob(R + "/evidence/*.json")):
    v(p, "/root/.vp/EVIDENCE.schema.json")
sys.exit(0 if ok else 1)
