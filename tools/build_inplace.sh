#!/bin/sh
# Compile ctraits.c in place inside a scratch worktree/copy (never /repo): build_inplace.sh DIR
set -e
D="$1"
[ "$D" = "/repo" ] && { echo "refusing to build inside /repo"; exit 2; }
INC=$(/venv/bin/python -c "import sysconfig;print(sysconfig.get_paths()['include'])")
SUF=$(/venv/bin/python -c "import sysconfig;print(sysconfig.get_config_var('EXT_SUFFIX'))")
gcc -shared -fPIC -O2 -fno-strict-overflow -fwrapv -DNDEBUG -I"$INC" "$D/traits/ctraits.c" -o "$D/traits/ctraits$SUF"
echo "built $D/traits/ctraits$SUF"
