#!/usr/bin/env python3
"""Like mut.py, but several (file, old, new) edits given as a JSON list: tools/mutmulti.py '<json>' C09 [C10 ...] [--tier T]"""
import json, os, shutil, subprocess, sys, tempfile
edits = json.loads(sys.argv[1]); checks = [a for a in sys.argv[2:] if not a.startswith("--")]
tier = "quick"
if "--tier" in sys.argv: tier = sys.argv[sys.argv.index("--tier") + 1]; checks.remove(tier)
d = tempfile.mkdtemp(prefix="mut-")
try:
    subprocess.run(["rsync", "-a", "--exclude", "*.so", "--exclude", "__pycache__", "/repo/traits", d + "/"], check=True)
    for f, old, new in edits:
        p = os.path.join(d, f); s = open(p).read()
        if s.count(old) != 1: sys.exit("MUTATION DOES NOT APPLY: %s %r x%d" % (f, old[:40], s.count(old)))
        open(p, "w").write(s.replace(old, new))
    for c in checks:
        r = subprocess.run(["./check", c, "--tier", tier, "--repo", d, "--no-evidence", "--no-replays"],
                           cwd=os.path.dirname(os.path.dirname(os.path.abspath(__file__))), capture_output=True, text=True)
        lines = [l for l in r.stdout.splitlines() if l.startswith(("VIOLATION", "INCONCLUSIVE", "ERROR", "INFRA"))]
        print("== %s rc=%d: %d report lines" % (c, r.returncode, len(lines)))
        for l in lines[:6]: print("   " + l[:260])
        print("   " + (r.stdout.strip().splitlines()[-1][:200] if r.stdout.strip() else r.stderr[-500:]))
finally:
    shutil.rmtree(d, ignore_errors=True)
