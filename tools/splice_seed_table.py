#!/usr/bin/env python3
"""Replace the seed table of DESIGN.md section 8 by the output of gen_seed_table.py."""
import os, subprocess, sys
ROOT = os.path.dirname(os.path.dirname(os.path.abspath(__file__)))
out = subprocess.run([sys.executable, os.path.join(ROOT, "tools/gen_seed_table.py")], capture_output=True, text=True).stdout
table = [l for l in out.splitlines() if l.startswith("|")]
p = os.path.join(ROOT, "DESIGN.md")
lines = open(p).read().split("\n")
i = next(k for k, l in enumerate(lines) if l.startswith("| seed | file(s)"))
j = i
while j < len(lines) and lines[j].startswith("|"):
    j += 1
lines[i:j] = table
open(p, "w").write("\n".join(lines))
print("spliced %d rows (was %d)" % (len(table), j - i))
