#!/usr/bin/env python3
"""Regenerate MANIFEST.json from the table below (keeps it valid at all times)."""
import json
import os

ROOT = os.path.dirname(os.path.dirname(os.path.abspath(__file__)))

BASELINE = ("cd /repo && /venv/bin/python -m pytest -ra -q -p no:cacheprovider --timeout=900 "
            "--continue-on-collection-errors")

# id -> (category, technique, text, note, design_ref)
CHECKS = {}


def add(pid, category, technique, text, note, ref):
    CHECKS[pid] = dict(category=category, technique=technique, text=text, note=note, ref=ref)


add("C05", "exploration",
    "reference-model monitor (built-in list) + event replay law, exhaustive small scope + random histories",
    "Every single list operation on lists of length 0..5 (thorough 0..7) over the full index/slice/"
    "replacement grid, on four list flavours, plus random 25-op histories, is executed on the real "
    "TraitList/TraitListObject and on a built-in list; contents, return value, exception class and the "
    "replay of every emitted (index, removed, added) event are compared after every operation. Held on "
    "the executions observed; exhaustive only inside the stated small scope.",
    "Trusted: CPython's list as specification, the 60-line replay function, identity comparison of "
    "items. Lengths above the bound and validators with side effects are sampled/not covered.",
    "DESIGN.md section 4 C05")

add("C02", "exploration",
    "reference change-criterion monitor over recorded handler logs (all three notification mechanisms), random histories",
    "Random assignment/read histories on one attribute over 19 trait kinds x 3 comparison modes x handler mixes "
    "(static arities 0-4, _anytrait_changed, on_trait_change function/bound method, two observers) x raising "
    "handler x exception type; after every operation each mechanism's call log is compared with the reference "
    "criterion computed from the values readable before/after (count, order, identity of old/new), and the "
    "exception channels are inspected. Held on the histories observed.",
    "Trusted: the 10-line reference criterion (mode none/identity/equality, events), identity comparison, "
    "value pools without ==/!= inconsistency; del and dispatch='ui'/'new' are not in this check's alphabet.",
    "DESIGN.md section 4 C02")

NOT_YET = {}


def main():
    props = [json.loads(l)["id"] for l in open(os.path.join(ROOT, "properties.jsonl"))]
    checks = []
    for pid in props:
        if pid not in CHECKS:
            continue
        c = CHECKS[pid]
        checks.append({
            "property_id": pid,
            "quick_cmd": "./check %s --tier quick" % pid,
            "thorough_cmd": "./check %s --tier thorough" % pid,
            "evidence_file": "evidence/%s.json" % pid,
            "replay_cmd_template": "./check %s --replay {path}" % pid,
            "engine": "vf",
            "level_claimed": {"category": c["category"], "text": c["text"], "design_ref": c["ref"]},
            "level_note": c["note"],
            "technique": c["technique"],
        })
    na = [{"property_id": pid, "reason": NOT_YET.get(pid, "monitor not built yet in this session "
           "(runtime-monitoring design exists in DESIGN.md; not claimed until the check is committed)")}
          for pid in props if pid not in CHECKS]
    man = {
        "version": 1,
        "setup_cmd": "./setup.sh",
        "hooks": {
            "guard": "TRAITS_VERIF",
            "enable": "none needed: checks snapshot /repo/traits into a scratch dir, compile ctraits.c "
                      "there (gcc -O2, or clang-14 ASan+UBSan) and run /venv/bin/python with PYTHONPATH "
                      "set to the snapshot; all monitors sit at the public API boundary or are "
                      "monkeypatched from the harness. TRAITS_VERIF=1 is exported to children only "
                      "for symmetry; the repository never reads it.",
            "baseline_off_cmd": BASELINE,
            "source_commits": [],
            "add_only": True,
        },
        "engines": [{"name": "vf", "path": "vf/", "serves_properties": [c["property_id"] for c in checks],
                     "kind_free_text": "runtime monitors (reference models, differential oracles, "
                                       "fault injection) and compiler sanitizers over generated workloads"}],
        "checks": checks,
        "not_applicable": na,
        "notes": "All checks: ./check <ID> --tier quick|thorough [--seed N]; VERIF_SEED/VERIF_TIER honoured; "
                 "exit 0 held, 1 VIOLATION, 2 INCONCLUSIVE/infrastructure. known_findings.txt lists "
                 "recorded genuine defects by mechanism key.",
    }
    with open(os.path.join(ROOT, "MANIFEST.json"), "w") as f:
        json.dump(man, f, indent=1)
    print("MANIFEST.json: %d checks, %d not claimed" % (len(checks), len(na)))


if __name__ == "__main__":
    main()
