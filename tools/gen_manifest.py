#!/usr/bin/env python3
"""Regenerate MANIFEST.json from the table below (keeps it valid at all times)."""
import json
import os

ROOT = os.path.dirname(os.path.dirname(os.path.abspath(__file__)))

BASELINE = ("cd /repo && /venv/bin/python -m pytest -ra -q -p no:cacheprovider --timeout=900 "
            "--continue-on-collection-errors")

# id -> (category, technique, text, note, design_ref)
CHECKS = {}


def add(pid, category, technique, text, note, ref):
    CHECKS[pid] = dict(category=category, technique=technique, text=text, note=note, ref=ref)


add("C05", "exploration",
    "reference-model monitor (built-in list) + event replay law, exhaustive small scope + random histories",
    "Every single list operation on lists of length 0..5 (thorough 0..7) over the full index/slice/"
    "replacement grid, on four list flavours, plus random 25-op histories, is executed on the real "
    "TraitList/TraitListObject and on a built-in list; contents, return value, exception class and the "
    "replay of every emitted (index, removed, added) event are compared after every operation. Held on "
    "the executions observed; exhaustive only inside the stated small scope.",
    "Trusted: CPython's list as specification, the 60-line replay function, identity comparison of "
    "items. Lengths above the bound and validators with side effects are sampled/not covered.",
    "DESIGN.md section 4 C05")

add("C02", "exploration",
    "reference change-criterion monitor over recorded handler logs (all three notification mechanisms), random histories",
    "Random assignment/read histories on one attribute over 19 trait kinds x 3 comparison modes x handler mixes "
    "(static arities 0-4, _anytrait_changed, on_trait_change function/bound method, two observers) x raising "
    "handler x exception type; after every operation each mechanism's call log is compared with the reference "
    "criterion computed from the values readable before/after (count, order, identity of old/new), and the "
    "exception channels are inspected. Held on the histories observed.",
    "Trusted: the 10-line reference criterion (mode none/identity/equality, events), identity comparison, "
    "value pools without ==/!= inconsistency; del and dispatch='ui'/'new' are not in this check's alphabet.",
    "DESIGN.md section 4 C02")


add("C01", "exploration",
    "reference-predicate monitor (independent per-type domain predicates) over a value lattice x option grid x three assignment routes",
    "Every atomic trait type of traits.api with its option grid (about 130 specs) plus seeded nestings "
    "(Tuple/Union/Either/List/Dict/Set, depth <= 2 quick / 3 thorough) is assigned every value of a ~300-value "
    "hostile lattice through attribute assignment, constructor keyword and trait_set; the outcome (stored value, "
    "TraitError naming the attribute, passed-through protocol exception, no effect on any attribute) is judged "
    "against outcome sets computed by reference predicates written from the documentation. Held on the "
    "(spec, value, route) triples observed.",
    "Trusted: vf/reference.py (about 350 lines) and vf/lattice.py; for compounds any accepting member's "
    "conversion is acceptable (member order is C03's question); File/Directory(exists), UUID, WeakRef excluded.",
    "DESIGN.md section 4 C01")

add("C03", "exploration",
    "differential monitor: C fast path vs the handler's Python validate, and compound vs each alternative alone",
    "For every fast-descriptor spec (112 catalogue specs + compounds) x a 354-value lattice the outcome of "
    "CTrait.validate (run asserts a fast descriptor tuple is installed) is compared with the handler's Python "
    "validate (accept/TraitError, exact type, value), and every compound is compared with its alternatives "
    "validated alone through fresh CTraits (first accepting alternative in evaluation order), which also pits "
    "the stand-alone C validators against the switch inside validate_trait_complex.",
    "Trusted: the lattice, same(); 'Python raises non-TraitError while C raises TraitError' is allowed and only "
    "counted. Known findings F4, F25-F27 (legacy TraitCoerceType, adapt default in compounds) are listed.",
    "DESIGN.md section 4 C03")

add("C04", "exploration",
    "invariant walk + failure-atomicity + silence monitors after every operation of random container histories",
    "62 List/Dict/Set configurations (inner traits x length bounds, nested List(List), Dict(Str, List)) driven by "
    "random 20-op histories over every mutator with valid/convertible/invalid items at every position; after "
    "every op the contents are walked against independent domain predicates and the inner trait's own validate "
    "(fixed point), length bounds are checked, a raising op must leave contents identical and deliver zero "
    "notifications on six recorded mechanisms, and an op that would store an invalid item or leave the bounds "
    "must raise TraitError.",
    "Trusted: the in_domain predicates (Int stores exact int etc.), built-in containers as the model of what "
    "an op would store. Stale containers after reassignment are only required not to corrupt the current value.",
    "DESIGN.md section 4 C04")

add("C06", "exploration",
    "reference-model monitor (built-in dict) + event reconstruction law, exhaustive single ops on small dicts + random histories",
    "TraitDict / TraitDictObject under no/rejecting/coercing validators: exhaustive single operations on dicts "
    "of size 0-3 over an 8-key universe plus random 20-op histories; contents (incl. insertion order), return "
    "values, exception classes compared with dict; every (removed, added, changed) event must reconstruct the "
    "previous contents; the DictChangeEvent seen by observers and the raw notifier arguments are checked for "
    "every position of the raw notifier relative to observers.",
    "Trusted: dict as specification, identity comparison of values. Known findings F13 (setdefault through a "
    "converting key validator, pinned by the repository's own test) and F28 (keys-only mappings) are listed.",
    "DESIGN.md section 4 C06")

add("C07", "exploration",
    "reference-model monitor (built-in set) + delta law + copy law, exhaustive single ops + random histories",
    "TraitSet / TraitSetObject under no/rejecting/coercing/time-varying validators: exhaustive single operations "
    "on small sets plus random 20-op histories over all mutators incl. multi-iterable and non-set operands; "
    "contents and exception classes compared with set, every event must satisfy removed <= before, added "
    "disjoint, (before - removed) | added == after, no-change ops silent; copy/deepcopy/pickle(0-5) at random "
    "points must give an equal, independent, still-validating set.",
    "Trusted: set as specification. Pickled/copy.copy'd TraitSetObject copies are documented as detached and "
    "only checked for equality/independence.",
    "DESIGN.md section 4 C07")

add("C08", "exploration",
    "reachability-model monitor with a probe phase after every primitive mutation step",
    "A pool of interlinked Node objects (Instance, List, Dict, Set links, lazy defaults, tagged traits, optional "
    "all-nodes-equal __eq__) observed through catalogue and generated expressions (text and expression objects); "
    "after every mutation every probe-able trait of every pool object is changed once and the events each handler "
    "received are compared with an independent denotation-over-live-graph model: exactly one TraitChangeEvent "
    "with the right object/name iff matched, container events with faithful payloads on notifying links, silence "
    "on ':' links and detached objects, and no exception escaping a legal mutation. Four strata (acyclic, cyclic, "
    "enumerated cycle-through-root, equal twins).",
    "Trusted: the monitor's own mini-language parser and reachability walk (behaviour only; no private "
    "counters inspected). Known findings F15/F16 (multi-level observables) and F34 (set discard of an equal "
    "twin) are listed under their own keys.",
    "DESIGN.md section 4 C08")

add("C09", "exploration",
    "registration-count model + notifier-census monitor; enumerated failure positions; weakref/gc and thread stress strata",
    "Histories interleaving observe add/remove for several handlers, expressions and dispatch modes (same, ui "
    "with a queued harness UI handler) with graph mutations; model = multiset count per (handler, canonical "
    "graph, dispatch); after each step a probe phase and a census of every notifier list; failing add/remove "
    "enumerated over every node index of walks up to depth 4 x fan-out 3 and over parallel graphs; weakness of "
    "targets and bound-method owners under gc (some runs with gc threshold (1,1,1)); 4-thread stress with a "
    "final-census oracle only.",
    "Trusted: the census accessors (read-only), the canonical graph model. Preemptive thread interleavings are "
    "only stressed, not explored. Known findings F7a-c (rollback across siblings / parallel graphs) are listed.",
    "DESIGN.md section 4 C09")

add("C10", "exploration",
    "multi-instance isolation monitor: every step on one instance is followed by inspection of all siblings, a fresh instance and the class",
    "Classes covering every default kind (constant, list/dict copies, List/Dict/Set objects, callable-and-args, "
    "factory, _x_default with call counters, Tuple/Union dynamic defaults, subclass overrides, comparison-mode "
    "variants); histories over 3-5 instances created at different times (read, mutate own default container, "
    "assign, del, handler registration of all three mechanisms, add_trait/remove_trait); after each step: first "
    "reads return the declared default silently, later reads the identical object, default methods ran at most "
    "once per epoch, mutable defaults are pairwise distinct and distinct from the class trait's stored object, "
    "and nothing observable on other instances, a fresh instance or the class has changed.",
    "Trusted: declared defaults as literals in the harness. Wildcard-name resolution is avoided (C13). Class-body "
    "overrides of Any([..])/factory defaults in subclasses are documented to become shared constants "
    "(TraitType.clone, enthought/traits#1630) and are outside the alphabet.",
    "DESIGN.md section 4 C10")

add("C11", "exploration",
    "interpreter-model monitor for deferred traits over random histories, with recorders on the deferring attribute",
    "DelegatesTo / PrototypedFrom x four prefix styles x listenable x chains of two deferrals x two candidate "
    "delegates, random 15-op histories (assign via deferring object valid/invalid, assign on candidates, swap "
    "delegate, del local value, reads); a 30-line interpreter predicts reads, where writes land, accept/reject, "
    "and which changes must / must not notify on_trait_change and observe recorders of the deferring attribute.",
    "Trusted: the interpreter (DelegatesTo write = setattr on the current delegate, recursively). Swapping the "
    "delegate itself and paths through listenable=False levels are not judged for notification. Known findings "
    "F29/F30 (chain writes) are listed.",
    "DESIGN.md section 4 C11")

add("C12", "exploration",
    "recompute-and-compare monitor for observed properties over random histories incl. pickle/deepcopy/clone switches",
    "Classes with cached and uncached Property(observe=...) over scalar, nested, list/dict/set item dependencies "
    "with shared and repeated elements; random 20-step histories of relevant/irrelevant mutations and reads, "
    "switching at random to a pickle / deepcopy / clone_traits copy; every read is compared with the harness's own "
    "recomputation, cached getters may run at most once per relevant-change window, and every value-changing "
    "dependency change must notify static, on_trait_change and observe recorders with the new value readable.",
    "Trusted: getters are pure functions recomputed by the harness. Reads made inside a static handler of the "
    "dependency itself (before the invalidating observer runs) are counted, not judged. Legacy depends_on is "
    "outside the statement and not run.",
    "DESIGN.md section 4 C12")

add("C13", "exploration",
    "resolution-model monitor over generated class hierarchies with a fingerprint of get/set/del outcomes",
    "Generated hierarchies (HasTraits/HasStrictTraits/HasPrivateTraits bases, explicit traits of 9 kinds, "
    "wildcard rules of several lengths split between base and subclass) and names matching 0/1/several "
    "prefixes; random histories of get/set/del with a fingerprint quadruple, add_trait/remove_trait, on several "
    "instances of base and subclass in random order; a resolution function written from the manual predicts "
    "the governing trait and therefore the outcome class and value of every access, incl. ReadOnly/Constant/"
    "Event/Disallow policies and restoration after remove_trait.",
    "Trusted: the resolution model; __dunder__ names executed but not judged; leftover values after a change of "
    "governing trait are unspecified and adopted. Known findings F22/F23 (late subclass / late add_class_trait "
    "after a name was resolved and cached) are listed.",
    "DESIGN.md section 4 C13")

add("C14", "exploration",
    "state-comparison + liveness-battery monitor over copies of reachable object states; differential round trip of trait definitions (also under ASan+UBSan)",
    "Sub-check A: random histories on module-level classes (nested containers, Instance graphs, transient traits, a "
    "written ReadOnly, decorated observers, items handlers, an observed cached Property, per-trait copy metadata), "
    "then pickle protocols 0-5, copy.deepcopy and clone_traits(copy=None/'shallow'/'deep'): same class, equal "
    "non-transient values, transients back at defaults, no shared mutable container (except where copy metadata "
    "or the clone_traits docstring says so), and a liveness battery on the copy (every nested container rejects "
    "invalid / converts convertible items, mutations notify the copy's handlers exactly once and nothing on the "
    "original, observed properties not stale, ReadOnly stays written). Sub-check B: about 200 trait-definition "
    "kinds through pickle(0,2,5)/deepcopy/copy: same validate outcome on the lattice, default, metadata, flags, "
    "install-and-use behaviour; each kind under a write-ahead record, also run under the sanitized build.",
    "Trusted: the harness's expectation table (self-checked on never-copied objects at start-up). Detached "
    "container copies are documented not to validate. Known findings F18, F35-F37 are listed.",
    "DESIGN.md section 4 C14")

add("C15", "exploration",
    "independent recogniser + denotation (path sets) compared with parse/compile_str; exhaustive short token strings, derivation shapes, random strings; cache and live round-trip monitors",
    "A hand-written tokenizer, recursive-descent recogniser and path-set denotation (observer kind, name, notify, "
    "optional) written from the .lark rules and the manual are compared with the implementation on every token "
    "string over a 10-symbol alphabet up to length 6 (thorough 8; 1.1 M / 111 M strings, acceptance, ValueError on "
    "rejection and meaning all checked), all derivation shapes to depth 3 with whitespace/bracket respellings "
    "(equal compiled graphs), random character-level strings incl. unicode and odd whitespace, parse/compile "
    "equality and hash across lru-cache eviction, near-miss pairs with different meaning (must not compile equal), "
    "and live observe(h, s1) / observe(h, s2, remove=True) round trips restoring the notifier census.",
    "Trusted: the reference recogniser/denotation (about 300 lines). The formal rules, not the manual's prose "
    "example '[a.*, b.c]', are the contract. Strings stay below about 80 elements.",
    "DESIGN.md section 4 C15")

add("C16", "exploration",
    "differential monitor: legacy on_trait_change extended names vs observe vs a reachability model, with a probe phase",
    "Tree-shaped graphs only; 102 (thorough 163) name pairs expressible in both systems (., :, list/dict/set "
    "links, depth-3 mixes, groups); one recorder per API on the same root; random histories of link "
    "reassignment, container mutation, detachment and re-insertion of detached subtrees, then removal of both "
    "registrations; after every step the final attribute is changed on every attached and recently detached "
    "node and the legacy 4-argument and 0-argument calls are compared class by class with the observe events "
    "and the model.",
    "Trusted: the small reachability model; only non-empty matched comparisons are gated. Item-level mutation of "
    "'.' links is compared through the legacy 0-argument signature only (4-argument silence there is by design).",
    "DESIGN.md section 4 C16")

add("C17", "exploration",
    "brute-force reference monitor: enumeration of all offer sequences vs AdaptationManager.adapt and the adapting traits",
    "Per case a fresh AdaptationManager, up to 6 uniquely named classes (single/multiple inheritance, ABC "
    "registration), up to 7 offers incl. duplicates, cycles, provides-offers and deterministic conditional "
    "factories; for every source x target the result of adapt (with and without default) and of Supports / "
    "AdaptsTo / Instance(adapt=...) assignment is compared with brute-force enumeration: existence, minimum "
    "number of offers, specificity among single-step choices, identity when already provided; a step counter "
    "bounds non-termination.",
    "Trusted: the brute-force enumerator; 'minimum number of adapters' is read as number of offers (manual). "
    "Specificity is judged only where issubclass is transitive. Known finding F31 (incomparable applicable "
    "sources under multiple inheritance) is listed.",
    "DESIGN.md section 4 C17")

add("C18", "other",
    "compiler sanitizers (ASan+UBSan+live asserts) over hostile/chaos/fault-injected API programs; refcount and allocated-block drift monitors",
    "Phase san: 20 hostile scenario families, thousands of generated API programs whose user callbacks perform "
    "hostile actions during the C call (remove the trait being processed, replace __dict__, mutate notifier "
    "lists, gc, re-enter, raise), k-th-callback fault injection, and the other properties' workloads at a "
    "fraction of their budget, against an ASan+UBSan build of ctraits.c with asserts enabled and "
    "PYTHONMALLOC=malloc; any sanitizer report, abort or signal is attributed to its case by a write-ahead log. "
    "Phase ref: 217 operation x sentinel experiments, refcount steady from iteration 10 of 200 and block drift "
    "< 0.25/iteration. Thorough adds the repository's own test modules under the sanitized build.",
    "A clean run is not memory safety (red zones, uninstrumented CPython, no MSan). Only documented entry "
    "points are driven (no crafted __setstate__, no malformed set_validate descriptors).",
    "DESIGN.md section 4 C18")

add("C19", "fault_enumeration",
    "k-th-callback fault injection enumerated per history, judged by commit-point roles against a fault-free twin",
    "Generated histories (about 10 ops over validator functions, TraitType subclasses, compound alternatives, "
    "container item/key/value validators with multi-item arguments, default methods/factories, property "
    "getters/setters incl. cached observed properties, adapter factories, change handlers of three mechanisms); "
    "for every op j, every user-callback tick k learnt from a fault-free twin and every E in {TraitError, "
    "ValueError, AttributeError, RuntimeError} the prefix is replayed, the fault injected, and the run judged: "
    "pre-commit faults must leave values, contents, notifier census and caches as before with E or TraitError "
    "reaching the caller (or equal the TraitError twin for compound alternatives); post-commit faults must "
    "complete the operation, run all other handlers and surface only on the exception channel; the remaining "
    "history must then behave exactly as on the never-faulted twin.",
    "Fault positions are enumerated completely per generated history; histories are sampled. Notifications whose "
    "subject is a property whose getter was faulted are exempt (a value that could not be computed cannot be "
    "reported). Raw TraitList.notifiers callables, Events, sync_trait and del are outside the alphabet.",
    "DESIGN.md section 4 C19")

add("C20", "exploration",
    "link-graph model monitor (union-find + one-way edges) over random two/three-object histories with recorders and exception channels",
    "2-3 objects with Int/Str/List(Int) traits; histories of sync_trait (mutual, one-way, aliases, several "
    "partners), assignments, every list mutator on either side, remove=True at any point, dropping a partner + "
    "gc.collect(), re-linking; after every op mutual classes must be equal, one-way targets follow real source "
    "changes only, recorders get at most one call per real change, nothing propagates / raises / reaches the "
    "exception channels after unlink or partner collection, and a step budget bounds runaway propagation.",
    "Trusted: the link model; re-entrancy rather than threads is the schedule dimension. Known finding F32 "
    "(lists linked along redundant paths) is listed in its own stratum and keys.",
    "DESIGN.md section 4 C20")


# strata added after the first build (seeded-change campaign, DESIGN.md section 8); appended to
# the text of each check so that the claim names what the check now drives
ADDED = {
 "C01": "String option grid, Instance given by class name (judged again after lazy resolution), ValidatedTuple over converting members, validated Property traits in declaring class and subclasses, variants derived by cloning (allow_none), and families of differently configured traits of one type judged interleaved in one process; third session: assignment through deferring traits judged by the trait governing the stored attribute, and the ndarray value family (byte order, views, zero-size, subclasses, structured dtypes) over the Array option grid; converting members two or more trait levels deep with values that need an equal-valued conversion at the inner level",
 "C02": "shared-object dynamic defaults, first assignment before any read, quiet sets, handlers supplied by mixins / subclasses, a second trait with its own comparison mode, listeners leaving / joining the notifier list during delivery, trait definition objects reused across attributes and classes; third session: several wildcard-resolved names per prefix on base / subclass / late-subclass instances, run-time re-definition (add_trait) under attached handlers of every mechanism, private names with inherited magic-named handlers; handler populations that change during the history (registrations / removals of every mechanism between assignments)",
 "C03": "global-manager swaps, live Map mappings, nested compounds with slow members, and the whole sweep repeated on pickled / copied / cloned / re-added CTraits; third session: value-held histories (the sweep on an attribute that holds a value; objects whose isinstance verdict is individual) and enumerations whose items equal values of another exact type; class names resolved lazily along nine routes, with the sweep on every trait object made from the definition (stratum forward-ref)",
 "C04": "owners with a false truth value, raw items equal to stored ones, and item traits that are value-dependent refinements of the Base scalar traits (user subclasses, File(exists=True)); third session: declared defaults of every legality class materialised through six routes on sibling owners, some of them collected; inner classes given by name in every inner position, judged before / at / after the first resolution on early and late owners",
 "C05": "the list itself as the argument, NaN-like items, equal-but-distinct twins of stored items, a non-idempotent validator, unwatched lists and copies continued as the main object, and listeners that change the list they are told about (a mirror registered first rebuilds the contents from events); third session: odd-typed position / count / multiplier arguments (None, floats, rationals, index-protocol objects, numpy scalars, huge ints) at every index and slice component",
 "C06": "notifier-free dicts and copies, raw keys equal to stored keys, a copy-isolation census, and re-entrant listeners (mirror first, reactor second, recorder last); third session: listeners added later through the caller's own notifier list, and duck-typed / registered mapping classes as update and |= arguments",
 "C07": "hostile argument containers, unwatched sets and copies, and re-entrant listeners with the built-in model applying nested operations at the same points",
 "C08": "named dynamic traits, add_trait over observed names, pickle snapshots mid-history, the list form of expressions, containers nested in containers, and in-place routes on container objects held in variables; third session: root replacement at a reused address over shared sub-objects, metadata of every truthiness class, del / reset_traits of observed links and containers; mutator arguments that alias stored objects (the stored object as pop default, the container itself or its own slices)",
 "C09": "a stale-owner stratum with address reuse, the installed UI handler as part of the history, multi-item events, and re-definition of observed names (add_trait / remove_trait) between registration and removal; third session: gcpoints (a collection enumerated before every statement of one operation, victims: handler owner / observed root), reference cycles through a registration, containers nested in containers with equal-but-new replacements",
 "C10": "metadata-filtered queries, nested-container defaults, sibling transfers and in-place routes taking a sibling's container as argument, value-equality classes, del / reset_traits of stored values; third session: wildcard-resolved names under the isolation and default laws, hooks that fail while a default is materialised; default computations with side effects on their own object",
 "C11": "round trips inside histories, inherited __prefix__, delegate references cleared and set again, re-entrant handlers changing the same target during delivery; third session: delegates with __eq__ swapped for equal-but-distinct candidates, deferring traits re-declared in subclasses / mixins with decoy assignments; computed delegate references (Property, a reference that is itself deferred, dynamic default)",
 "C12": "inherited getters, containers on child items, default nested objects, transient lists, construction-time touches, dependencies that are instance traits, shared objects under owner churn with address reuse; third session: dependencies declared with each comparison mode (identical / equal-but-distinct / unequal assignments) and observe paths through another Property; properties declaring several overlapping observe paths over shared holders",
 "C13": "re-entrant trait_added listeners, ReadOnly defined by declaration, one definition object bound to several names / classes, copy round trips of objects carrying instance traits, bookkeeping instance traits; third session: indirect first access to wildcard / default-governed names (delegation in every prefix style, trait_set / constructor, sync_trait, registrations and look-ups)",
 "C14": "a minimal one-feature class family, awkward legal trait names x listener flavours, a lazy-default family (defaults depending on transient state, unread before the copy) and a graph family (trees of nested objects, every clone mode); third session: length-bounded containers in every placement ('silently back at the default' as an outcome) and identity-hashed mutable set members / dict keys compared as labelled object graphs; the copy-mode matrix (per-trait metadata x requested mode) judged by identity one and two levels down",
 "C15": "what '+name' and '*' select on live classes carrying metadata of every truthiness class, dunder metadata names; the list forms of observe / @observe / Property(observe=...) exercised between two evaluations of each text's denotation",
 "C16": "stale containers, equal-but-distinct replacements, doubly registered containers, several owners' bound methods under one name with owners collected mid-history; third session: deferred=True and decorator registrations made before the links are assigned, 1-3 argument legacy signatures, first links set to None with the detached subtree probed; node classes whose truth value changes between hooking and detaching",
 "C17": "per-object conditional factories, late ABC registration, manager swaps, the same object re-assigned after the adaptation answer changed, re-entrant factories; third session: trait-route assignments repeated on holders that carry instance-level traits (listeners, removed listeners, add_trait, class-level decorators, subclasses, copies)",
 "C18": "further scenarios (anytrait handlers removing each other, default AttributeError under warning filters, delegates dropped or handed out as temporaries during a delegated access) and chaos actions that drop attribute-held objects; third session: scenarios written from the coverage report (plain Python properties and __class__, instances without __dict__, <name>_items and Python / private names through the raw slot wrappers, documented CTrait setters), finalizers that collect or re-enter the API while the extension tears an object down, and a second refcount table (property getters / setters / validators of every arity incl. failing ones, adapt modes, delegation failures, failing post_setattr, propagating handler exceptions, values whose comparison raises); delegate-name cycles, callable defaults of original-value traits (Expression, AdaptsTo), and six gcpoints scenarios per shard of C09 / C20 replayed under the sanitizer",
 "C19": "quiet multi-name sets, sync_trait with partner validators, PrototypedFrom forwarding after rejections, and a lifetime stratum comparing what is reclaimed with the failure-free twin; third session: the library's default exception handling in force (nothing pushed) and a catalogue of 100 exception shapes and subclasses",
 "C20": "List traits with default methods / explicit defaults / comparison modes, partner replacement, heterogeneous partners whose narrower traits reject some changes; third session: gcpoints (the partner collected before every statement of an operation, 11 link shapes x 16 operations incl. link and unlink) and run-time re-definition of synchronised attributes",
}

NOT_YET = {}


def main():
    props = [json.loads(l)["id"] for l in open(os.path.join(ROOT, "properties.jsonl"))]
    checks = []
    for pid in props:
        if pid not in CHECKS:
            continue
        c = CHECKS[pid]
        checks.append({
            "property_id": pid,
            "quick_cmd": "./check %s --tier quick" % pid,
            "thorough_cmd": "./check %s --tier thorough" % pid,
            "evidence_file": "evidence/%s.json" % pid,
            "replay_cmd_template": "./check %s --replay {path}" % pid,
            "engine": "vf",
            "level_claimed": {"category": c["category"],
                              "text": c["text"] + (" Added since the first build (each with its own "
                                                   "counters and observation gates): " + ADDED[pid] + "."
                                                   if pid in ADDED else ""),
                              "design_ref": c["ref"] + "; section 8"},
            "level_note": c["note"],
            "technique": c["technique"],
        })
    na = [{"property_id": pid, "reason": NOT_YET.get(pid, "monitor not built yet in this session "
           "(runtime-monitoring design exists in DESIGN.md; not claimed until the check is committed)")}
          for pid in props if pid not in CHECKS]
    man = {
        "version": 1,
        "setup_cmd": "./setup.sh",
        "hooks": {
            "guard": "TRAITS_VERIF",
            "enable": "none needed: checks snapshot /repo/traits into a scratch dir, compile ctraits.c "
                      "there (gcc -O2, or clang-14 ASan+UBSan) and run /venv/bin/python with PYTHONPATH "
                      "set to the snapshot; all monitors sit at the public API boundary or are "
                      "monkeypatched from the harness. TRAITS_VERIF=1 is exported to children only "
                      "for symmetry; the repository never reads it.",
            "baseline_off_cmd": BASELINE,
            "source_commits": [],
            "add_only": True,
        },
        "engines": [{"name": "vf", "path": "vf/", "serves_properties": [c["property_id"] for c in checks],
                     "kind_free_text": "runtime monitors (reference models, differential oracles, "
                                       "fault injection) and compiler sanitizers over generated workloads"}],
        "checks": checks,
        "not_applicable": na,
        "notes": "All checks: ./check <ID> --tier quick|thorough [--seed N]; VERIF_SEED/VERIF_TIER honoured; "
                 "exit 0 held, 1 VIOLATION, 2 INCONCLUSIVE/infrastructure. known_findings.txt lists "
                 "recorded genuine defects by mechanism key.",
    }
    with open(os.path.join(ROOT, "MANIFEST.json"), "w") as f:
        json.dump(man, f, indent=1)
    print("MANIFEST.json: %d checks, %d not claimed" % (len(checks), len(na)))


if __name__ == "__main__":
    main()
