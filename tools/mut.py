#!/usr/bin/env python3
"""Apply one textual mutation to a scratch copy of /repo/traits and run checks against it.
usage: tools/mut.py --file traits/x.py --old 'text' --new 'text' [--count N] --check C02 [C05 ...] [--tier quick] [--base DIR]
"""
import argparse, os, shutil, subprocess, sys, tempfile
ap = argparse.ArgumentParser()
ap.add_argument("--file", required=True); ap.add_argument("--old", required=True); ap.add_argument("--new", required=True)
ap.add_argument("--count", type=int, default=1); ap.add_argument("--check", nargs="+", required=True)
ap.add_argument("--tier", default="quick"); ap.add_argument("--base", default="/repo"); ap.add_argument("--jobs", default="8")
ap.add_argument("--seed", default="0")
a = ap.parse_args()
d = tempfile.mkdtemp(prefix="mut-")
try:
    subprocess.run(["rsync", "-a", "--exclude", "*.so", "--exclude", "__pycache__", a.base + "/traits", d + "/"], check=True)
    p = os.path.join(d, a.file)
    s = open(p).read()
    n = s.count(a.old)
    if n != a.count:
        print("MUTATION DOES NOT APPLY: %d occurrences (expected %d)" % (n, a.count)); sys.exit(3)
    open(p, "w").write(s.replace(a.old, a.new))
    for c in a.check:
        r = subprocess.run(["./check", c, "--tier", a.tier, "--repo", d, "--no-evidence", "--no-replays", "--jobs", a.jobs, "--seed", a.seed],
                           cwd=os.path.dirname(os.path.dirname(os.path.abspath(__file__))), capture_output=True, text=True)
        lines = [l for l in r.stdout.splitlines() if l.startswith(("VIOLATION", "INCONCLUSIVE", "KNOWN", "ERROR", "INFRA"))]
        print("== %s rc=%d: %d report lines" % (c, r.returncode, len(lines)))
        for l in lines[:6]: print("   " + l[:260])
        print("   " + r.stdout.strip().splitlines()[-1][:200] if r.stdout.strip() else r.stderr[-500:])
finally:
    shutil.rmtree(d, ignore_errors=True)
