#!/usr/bin/env python3
"""Validate and run seeded property-breaking changes.

usage:
  tools/seeded.py import <src-dir> <ID>     confirm a candidate (patch.diff + demo.py [+ notes.md]) in a
                                            scratch worktree and keep it as seeded/<ID>/
  tools/seeded.py run [<ID> ...] [--tier quick|thorough] [--all-checks]
                                            run the property's check (or every check) against each kept change
Scratch worktree: /tmp/seedval (git worktree of /repo HEAD, created on demand, removed by `clean`).
Nothing is ever applied to /repo itself by this tool.
"""
import json
import os
import shutil
import subprocess
import sys
import time

ROOT = os.path.dirname(os.path.dirname(os.path.abspath(__file__)))
WT = os.environ.get("SEEDVAL_WT", "/tmp/seedval")
PY = "/venv/bin/python"


def sh(cmd, **kw):
    return subprocess.run(cmd, shell=isinstance(cmd, str), capture_output=True, text=True, **kw)


def ensure_wt():
    if not os.path.isdir(WT):
        r = sh(["git", "-C", "/repo", "worktree", "add", "--detach", WT, "HEAD"])
        if r.returncode:
            sys.exit("cannot create worktree: " + r.stderr)
    sh(["git", "-C", WT, "checkout", "--", "."])
    sh(["git", "-C", WT, "clean", "-fdq", "-e", "*.so"])
    head = sh(["git", "-C", "/repo", "rev-parse", "HEAD"]).stdout.strip()
    sh(["git", "-C", WT, "checkout", "-q", "--detach", head])


def build():
    r = sh([os.path.join(ROOT, "tools/build_inplace.sh"), WT])
    return r.returncode == 0, r.stdout + r.stderr


def run_demo(demo):
    env = dict(os.environ, PYTHONPATH=WT, PYTHONDONTWRITEBYTECODE="1")
    try:
        r = subprocess.run([PY, demo], cwd=WT, env=env, capture_output=True, text=True, timeout=600)
        return r.returncode, (r.stdout + r.stderr)[-1500:]
    except subprocess.TimeoutExpired:
        return 124, "timeout"


def run_suite():
    env = dict(os.environ, PYTHONPATH=WT, PYTHONDONTWRITEBYTECODE="1")
    r = subprocess.run([PY, "-m", "pytest", "-q", "-p", "no:cacheprovider", "--timeout=900", "traits"],
                       cwd=WT, env=env, capture_output=True, text=True)
    tail = [l for l in r.stdout.strip().splitlines() if "passed" in l or "failed" in l or "error" in l]
    return r.returncode, (tail[-1] if tail else r.stdout[-300:])


def cmd_import(src, sid):
    prop = sid.split("-")[0]
    patch = os.path.join(src, "patch.diff")
    demo = os.path.join(src, "demo.py")
    assert os.path.exists(patch) and os.path.exists(demo), "need patch.diff and demo.py"
    ensure_wt()
    ok, out = build()
    assert ok, out
    rc0, out0 = run_demo(demo)
    r = sh(["git", "-C", WT, "apply", "--check", patch])
    if r.returncode:
        print("REJECT %s: patch does not apply: %s" % (sid, r.stderr[:300]))
        return 1
    sh(["git", "-C", WT, "apply", patch])
    ok, out = build()
    if not ok:
        print("REJECT %s: does not compile\n%s" % (sid, out[-500:]))
        ensure_wt()
        return 1
    rc1, out1 = run_demo(demo)
    src_rc, suite = run_suite()
    ensure_wt()
    build()
    verdict = (rc0 == 0 and rc1 != 0 and src_rc == 0)
    print("%s %s: demo without=%d with=%d; suite rc=%d %s" % ("KEEP" if verdict else "REJECT", sid, rc0, rc1, src_rc, suite))
    if not verdict:
        return 1
    dest = os.path.join(ROOT, "seeded", sid)
    os.makedirs(dest, exist_ok=True)
    shutil.copy(patch, os.path.join(dest, "patch.diff"))
    shutil.copy(demo, os.path.join(dest, "demo.py"))
    notes = os.path.join(src, "notes.md")
    needs = ""
    if os.path.exists(notes):
        shutil.copy(notes, os.path.join(dest, "notes.md"))
        needs = open(notes).read()[:1500]
    meta = {
        "id": sid, "property": prop,
        "needs_to_manifest": needs,
        "confirmed": {
            "patch_applies_to_repo_head": sh(["git", "-C", "/repo", "rev-parse", "HEAD"]).stdout.strip(),
            "demo_exit_without_change": rc0, "demo_exit_with_change": rc1,
            "demo_output_with_change_tail": out1[-600:],
            "repo_suite_with_change": suite,
            "commands": ["git apply patch.diff (scratch worktree /tmp/seedval)", "tools/build_inplace.sh",
                         "PYTHONPATH=<wt> /venv/bin/python demo.py",
                         "PYTHONPATH=<wt> /venv/bin/python -m pytest -q -p no:cacheprovider --timeout=900 traits"],
        },
        "detection": {},
    }
    json.dump(meta, open(os.path.join(dest, "meta.json"), "w"), indent=1)
    return 0


def cmd_run(ids, tier, all_checks):
    sdir = os.path.join(ROOT, "seeded")
    ids = ids or sorted(os.listdir(sdir), key=lambda x: (x.split('-')[0], int(x.split('-')[1])))
    man = json.load(open(os.path.join(ROOT, "MANIFEST.json")))
    claimed = [c["property_id"] for c in man["checks"]]
    for sid in ids:
        d = os.path.join(sdir, sid)
        meta = json.load(open(os.path.join(d, "meta.json")))
        ensure_wt()
        r = sh(["git", "-C", WT, "apply", os.path.join(d, "patch.diff")])
        if r.returncode:
            print("%s: patch no longer applies" % sid)
            continue
        checks = claimed if all_checks else [meta["property"]]
        for c in checks:
            if c not in claimed:
                print("%s: %s not claimed" % (sid, c))
                continue
            t0 = time.time()
            rr = sh(["./check", c, "--tier", tier, "--repo", WT, "--no-evidence", "--no-replays"], cwd=ROOT)
            keys = [l.split("key=")[1].split(" ")[0] for l in rr.stdout.splitlines()
                    if l.startswith("VIOLATION") and "key=" in l]
            res = {"rc": rr.returncode, "violation_keys": keys[:8], "n_keys": len(keys),
                   "wall_s": round(time.time() - t0, 1),
                   "inconclusive": [l for l in rr.stdout.splitlines() if l.startswith("INCONCLUSIVE")][:1]}
            meta["detection"]["%s/%s" % (c, tier)] = res
            print("%s  %s/%s  rc=%d  %d keys %s" % (sid, c, tier, rr.returncode, len(keys), keys[:2]))
        if os.environ.get("SEEDED_MATRIX_OUT"):
            with open(os.environ["SEEDED_MATRIX_OUT"], "a") as f:
                f.write(json.dumps({"id": sid, "detection": meta["detection"]}) + "\n")
        else:
            json.dump(meta, open(os.path.join(d, "meta.json"), "w"), indent=1)
    ensure_wt()


def main():
    a = sys.argv[1:]
    if not a:
        sys.exit(__doc__)
    if a[0] == "import":
        sys.exit(cmd_import(a[1], a[2]))
    if a[0] == "run":
        tier = "quick"
        all_checks = False
        ids = []
        i = 1
        while i < len(a):
            if a[i] == "--tier":
                tier = a[i + 1]
                i += 2
            elif a[i] == "--all-checks":
                all_checks = True
                i += 1
            else:
                ids.append(a[i])
                i += 1
        cmd_run(ids, tier, all_checks)
        return
    if a[0] == "clean":
        sh(["git", "-C", "/repo", "worktree", "remove", "--force", WT])
        return
    sys.exit(__doc__)


if __name__ == "__main__":
    main()
