"""Parent driver: build snapshot, shard children, collect logs, verdict, evidence.

usage: python -m vf.run <ID> [--tier quick|thorough] [--seed N] [--repo DIR]
                             [--replay FILE] [--jobs N]
Exit 0 held / 1 violation / 2 inconclusive or infrastructure error.
"""
import argparse
import hashlib
import json
import os
import re
import signal
import subprocess
import sys
import tempfile
import shutil
import time

from vf.build import Build, BuildError, PY

ROOT = os.path.dirname(os.path.dirname(os.path.abspath(__file__)))
MAX_RESTARTS = 40


# ---------------------------------------------------------------------------
def load_known(prop):
    """known_findings.txt -> {key: description} for `finding:` lines of prop."""
    out = {}
    path = os.path.join(ROOT, "known_findings.txt")
    if not os.path.exists(path):
        return out
    for line in open(path):
        line = line.strip()
        if not line.startswith("finding:"):
            continue
        m = re.match(r"finding:\s+property=(\S+)\s+key=(\S+)\s*(.*)", line)
        if m and m.group(1) == prop:
            out[m.group(2)] = m.group(3)
    return out


def read_jsonl(path):
    recs = []
    if not os.path.exists(path):
        return recs
    with open(path, errors="replace") as f:
        for line in f:
            line = line.strip()
            if not line:
                continue
            try:
                recs.append(json.loads(line))
            except ValueError:
                pass  # torn final line of a crashed child
    return recs


_SAN_RE = re.compile(r"(ERROR: AddressSanitizer: ([\w-]+))|(runtime error: ([^\n]+))|"
                     r"(Assertion `[^']*' failed)|(Fatal Python error: ([^\n]+))")
_FRAME_RE = re.compile(r"#\d+ 0x[0-9a-f]+ in (\w+) [^\n]*ctraits\.c:(\d+)")
_UB_LOC_RE = re.compile(r"ctraits\.c:(\d+):\d+: runtime error: ([^\n]+)")
_UB_ANY_RE = re.compile(r"[\w./-]+:(\d+):\d+: runtime error: ([^\n]+)")


def crash_key(stderr_text, rc):
    """Mechanism key of an abnormal child exit: sanitizer kind + innermost
    ctraits.c function (line numbers are kept out of the key)."""
    kind = None
    m = re.search(r"ERROR: AddressSanitizer: ([\w-]+)", stderr_text)
    if m:
        kind = "asan:" + m.group(1)
    if kind is None:
        m = _UB_LOC_RE.search(stderr_text) or _UB_ANY_RE.search(stderr_text)
        if m:
            what = re.sub(r"0x[0-9a-f]+", "PTR", m.group(2))
            what = re.sub(r"-?\d+", "N", what)
            what = re.split(r" of type | for type |'", what)[0][:60].strip().replace(" ", "_")
            kind = "ubsan:" + what
    if kind is None:
        m = re.search(r"Assertion `([^']*)' failed", stderr_text)
        if m:
            kind = "assert"
    if kind is None:
        m = re.search(r"Fatal Python error: ([^\n:]+)", stderr_text)
        if m:
            kind = "fatal:" + m.group(1).strip().replace(" ", "_")
    if kind is None:
        if rc < 0:
            try:
                kind = "signal:" + signal.Signals(-rc).name
            except ValueError:
                kind = "signal:%d" % -rc
        else:
            kind = "exit:%d" % rc
    fm = _FRAME_RE.search(stderr_text)
    func = fm.group(1) if fm else None
    if func is None:
        # faulthandler python-level stack: innermost python function
        m = re.search(r'File "[^"]*", line \d+ in (\w+)', stderr_text)
        func = ("py:" + m.group(1)) if m else "?"
    return "crash/%s/%s" % (kind, func)


def _child_limits():
    """Generous C stack for children (ASan frames are large; a legitimate Python
    RecursionError must not be pre-empted by a C stack overflow)."""
    import resource
    soft, hard = resource.getrlimit(resource.RLIMIT_STACK)
    want = 512 * 1024 * 1024
    if hard != resource.RLIM_INFINITY:
        want = min(want, hard)
    try:
        resource.setrlimit(resource.RLIMIT_STACK, (want, hard))
    except (ValueError, OSError):
        pass


# ---------------------------------------------------------------------------
class Shard:
    def __init__(self, phase, idx, n, workdir):
        self.phase, self.idx, self.n = phase, idx, n
        self.log = os.path.join(workdir, "%s-%d.jsonl" % (phase["name"], idx))
        self.err = os.path.join(workdir, "%s-%d.err" % (phase["name"], idx))
        self.proc = None
        self.restarts = 0
        self.resume_after = -1
        self.done = False
        self.crashes = []      # list of dict(key, case, desc, stderr_tail)
        self.started = None
        self.timed_out = False
        self.gave_up = False


def get_meta(prop, env):
    r = subprocess.run([PY, "-m", "vf.child", prop, "--meta"], env=env,
                       capture_output=True, text=True, cwd=ROOT, timeout=120)
    for line in r.stdout.splitlines():
        if line.startswith("VFMETA "):
            return json.loads(line[7:])
    raise RuntimeError("cannot read META of %s:\n%s\n%s" % (prop, r.stdout[-2000:], r.stderr[-4000:]))


def main(argv=None):
    ap = argparse.ArgumentParser()
    ap.add_argument("prop")
    ap.add_argument("--tier", default=os.environ.get("VERIF_TIER", "quick"),
                    choices=["quick", "thorough"])
    ap.add_argument("--seed", type=int, default=int(os.environ.get("VERIF_SEED", "0") or 0))
    ap.add_argument("--repo", default="/repo")
    ap.add_argument("--replay", default=None)
    ap.add_argument("--jobs", type=int, default=int(os.environ.get("VF_JOBS", "16")))
    ap.add_argument("--no-evidence", action="store_true",
                    help="do not rewrite evidence/<ID>.json (used for mutant runs)")
    ap.add_argument("--no-replays", action="store_true",
                    help="do not write witness files under replays/")
    ap.add_argument("--keep", action="store_true")
    args = ap.parse_args(argv)
    prop = args.prop.upper()
    t0 = time.time()

    replay = None
    if args.replay:
        replay = json.load(open(args.replay))
        args.tier = replay.get("tier", args.tier)
        args.seed = replay.get("seed", args.seed)

    build = Build(args.repo)
    workdir = tempfile.mkdtemp(prefix="vfrun-")
    try:
        try:
            env_p = build.env("P", hashseed=args.seed % 4294967295)
        except BuildError as e:
            print("ERROR build failed: %s" % e)
            return 2
        meta = get_meta(prop, env_p)
        phases = meta.get("phases") or [{"name": "main", "flavour": "P"}]
        phases = [p for p in phases if args.tier in p.get("tiers", ["quick", "thorough"])]
        for ph in phases:
            try:
                build.flavour(ph.get("flavour", "P"))
            except BuildError as e:
                print("ERROR build failed: %s" % e)
                return 2

        shards = []
        for ph in phases:
            n = ph.get("shards", {}).get(args.tier, 16) if isinstance(ph.get("shards"), dict) \
                else ph.get("shards", 16)
            if replay:
                if ph["name"] != replay.get("phase", "main"):
                    continue
                s = Shard(ph, replay["shard"], replay["nshards"], workdir)
                shards.append(s)
            else:
                for i in range(n):
                    shards.append(Shard(ph, i, n, workdir))

        watchdog = meta.get("watchdog", {}).get(args.tier, 900 if args.tier == "quick" else 7200)

        def start(s):
            cmd = [PY, "-m", "vf.child", prop, "--tier", args.tier, "--seed", str(args.seed),
                   "--shard", str(s.idx), "--nshards", str(s.n), "--phase", s.phase["name"],
                   "--out", s.log, "--resume-after", str(s.resume_after)]
            if replay:
                cmd += ["--only", str(replay["case"])]
            env = build.env(s.phase.get("flavour", "P"), hashseed=args.seed % 4294967295,
                            extra=s.phase.get("env"))
            s.errf = open(s.err, "ab")
            s.proc = subprocess.Popen(cmd, env=env, cwd=ROOT, stdout=s.errf if not replay else None,
                                      stderr=s.errf, preexec_fn=_child_limits)
            if s.started is None:
                s.started = time.time()

        pending = list(shards)
        running = []
        while pending or running:
            while pending and len(running) < args.jobs:
                s = pending.pop(0)
                start(s)
                running.append(s)
            time.sleep(0.05)
            for s in list(running):
                rc = s.proc.poll()
                if rc is None:
                    if time.time() - s.started > watchdog:
                        s.proc.kill()
                        s.proc.wait()
                        s.timed_out = True
                        s.errf.close()
                        running.remove(s)
                    continue
                s.errf.close()
                running.remove(s)
                if rc == 0:
                    s.done = True
                    continue
                # abnormal exit: attribute to the last write-ahead case
                recs = read_jsonl(s.log)
                last = None
                for r in recs:
                    if r.get("t") == "case":
                        last = r
                err_text = open(s.err, errors="replace").read()
                # only the tail belonging to this crash
                tail = err_text[-12000:]
                py_tb = (rc == 1 and "Traceback (most recent call last)" in tail
                         and "Sanitizer" not in tail and "runtime error:" not in tail)
                if rc == 3 or py_tb or last is None or last["ord"] <= s.resume_after:
                    # died before starting a new case: infrastructure problem
                    s.crashes.append({"key": "infra/" + crash_key(tail, rc), "case": None,
                                      "desc": None, "stderr": tail[-3000:], "ord": None})
                    s.gave_up = True
                    continue
                s.crashes.append({"key": crash_key(err_text, rc), "case": last["id"],
                                  "desc": last.get("desc"),
                                  "stderr": (err_text if len(err_text) < 8000 else
                                             err_text[:4000] + "\n[...]\n" + err_text[-3500:]),
                                  "ord": last["ord"]})
                s.resume_after = last["ord"]
                s.restarts += 1
                if replay or s.restarts > MAX_RESTARTS:
                    s.gave_up = not replay
                    continue
                # truncate stderr file so the next crash's key is its own
                open(s.err, "w").close()
                start(s)
                running.append(s)

        return conclude(prop, args, meta, shards, t0, replay)
    finally:
        build.cleanup()
        if not args.keep:
            shutil.rmtree(workdir, ignore_errors=True)
        else:
            print("kept workdir", workdir)


# ---------------------------------------------------------------------------
def conclude(prop, args, meta, shards, t0, replay):
    counters, sigs, samples, notes = {}, set(), [], {}
    viols = []           # dict(key,msg,case,witness,phase,shard,nshards)
    viol_counts = {}
    timeouts = 0
    infra = []
    for s in shards:
        for r in read_jsonl(s.log):
            t = r.get("t")
            if t == "stats":
                for k, v in r["counters"].items():
                    counters[k] = counters.get(k, 0) + v
                sigs.update(r["sigs"])
                for x in r["samples"]:
                    if len(samples) < 8:
                        samples.append(x)
                for k, v in r["viol_per_key"].items():
                    viol_counts[k] = viol_counts.get(k, 0) + v
                for k, v in r.get("notes", {}).items():
                    notes.setdefault(k, v)
            elif t == "viol":
                r = dict(r)
                r.update(phase=s.phase["name"], shard=s.idx, nshards=s.n)
                viols.append(r)
            elif t == "timeout":
                timeouts += 1
        for c in s.crashes:
            if c["key"].startswith("infra/"):
                infra.append(c)
                continue
            viol_counts[c["key"]] = viol_counts.get(c["key"], 0) + 1
            viols.append({"key": c["key"], "msg": "child crashed / sanitizer report",
                          "case": c["case"], "ord": c["ord"],
                          "witness": {"desc": c["desc"], "stderr": c["stderr"]},
                          "phase": s.phase["name"], "shard": s.idx, "nshards": s.n})
        if s.timed_out:
            timeouts += 1

    if replay:
        # only the witness's own mechanism counts (the replayed case may also contain
        # known findings or, on a mutant, other keys)
        bad = [v for v in viols if v["key"] == replay.get("key")] or \
              [v for v in viols if replay.get("key") is None]
        other = sorted({v["key"] for v in viols} - {replay.get("key")})
        if other:
            print("replay: other keys seen in the replayed case (not judged): %s" % ", ".join(other[:6]))
        for v in bad:
            print("VIOLATION property=%s replay=%s key=%s" % (prop, args.replay, v["key"]))
            print("  " + str(v.get("msg", ""))[:600])
        if not bad:
            print("replay: no violation reproduced")
        return 1 if bad else 0

    known = load_known(prop)
    # viol_counts from stats may include keys whose viol record exists; make sure
    # every key seen in a viol record is counted at least once (crashed shards
    # never write stats)
    for v in viols:
        viol_counts.setdefault(v["key"], 0)
        if viol_counts[v["key"]] == 0:
            viol_counts[v["key"]] = 1
    first = {}
    for v in viols:
        first.setdefault(v["key"], v)

    import fnmatch

    def known_pattern(k):
        """finding: keys may contain '*' (a glob over the value-class / position part of a
        mechanism key, never over the whole key)."""
        if k in known:
            return k
        for pat in known:
            if "*" in pat and fnmatch.fnmatchcase(k, pat):
                return pat
        return None
    new_keys = [k for k in first if known_pattern(k) is None]
    known_hit = [k for k in first if known_pattern(k) is not None]

    os.makedirs(os.path.join(ROOT, "replays"), exist_ok=True)
    lines = []
    for k in sorted(known_hit):
        lines.append("KNOWN-FINDING: property=%s key=%s %s (x%d)"
                     % (prop, k, known[known_pattern(k)], viol_counts.get(k, 1)))
    replay_paths = []
    for k in sorted(new_keys):
        v = first[k]
        wid = hashlib.blake2b(k.encode(), digest_size=5).hexdigest()
        path = os.path.join("replays", "%s-%s.json" % (prop, wid))
        if not args.no_replays:
            with open(os.path.join(ROOT, path), "w") as f:
                json.dump({"property": prop, "key": k, "tier": args.tier, "seed": args.seed,
                           "phase": v["phase"], "shard": v["shard"], "nshards": v["nshards"],
                           "case": v["case"], "message": v.get("msg"),
                           "witness": v.get("witness"), "count": viol_counts.get(k, 1)},
                          f, indent=1, default=repr)
        replay_paths.append(path)
        lines.append("VIOLATION property=%s replay=%s key=%s (x%d)" % (prop, path, k, viol_counts.get(k, 1)))
        lines.append("  " + str(v.get("msg", "")).replace("\n", "\n  ")[:1200])

    # gates: the monitors' own counters must show the oracle really ran
    gates = meta.get("gates", {}).get(args.tier, {})
    gate_fail = ["%s=%d<%d" % (g, counters.get(g, 0), m) for g, m in gates.items()
                 if counters.get(g, 0) < m]
    gave_up = [s for s in shards if s.gave_up]
    incomplete = [s for s in shards if not s.done and not s.crashes and not s.timed_out]

    wall = time.time() - t0
    level = meta.get("level", "exploration")
    cov = {
        "evaluations": counters.get("evaluations", 0),
        "distinct_nontrivial": len(sigs),
        "rule": meta.get("rule", ""),
        "samples": samples or ["<none>"],
        "counters": counters,
        "known_findings_hit": {k: viol_counts.get(k, 1) for k in known_hit},
        "new_violation_keys": sorted(new_keys),
        "shards": len(shards),
        "phases": [s for s in sorted({s.phase["name"] + ":" + s.phase.get("flavour", "P") for s in shards})],
        "crash_restarts": sum(s.restarts for s in shards),
        "case_timeouts": timeouts,
    }
    if meta.get("exhaustive_parts"):
        cov["exhaustive_parts"] = meta["exhaustive_parts"]
    if "explanation" in meta:
        cov["explanation"] = meta["explanation"]
    for k, v in notes.items():
        cov.setdefault(k, v)
    evidence = {
        "property_id": prop, "tier": args.tier, "seed": args.seed, "level": level,
        "coverage": cov, "assumptions": meta.get("assumptions", []),
        "wall_s": round(wall, 2), "violations": len(new_keys),
    }
    if not args.no_evidence:
        os.makedirs(os.path.join(ROOT, "evidence"), exist_ok=True)
        with open(os.path.join(ROOT, "evidence", prop + ".json"), "w") as f:
            json.dump(evidence, f, indent=1, default=repr)

    for ln in lines:
        print(ln)
    summary = ("%s tier=%s seed=%d: %d cases, %d oracle evaluations, %d distinct signatures, "
               "%d known-finding keys, %d new violation keys, %.1fs"
               % (prop, args.tier, args.seed, counters.get("cases", 0), cov["evaluations"],
                  len(sigs), len(known_hit), len(new_keys), wall))
    print(summary)
    if infra:
        print("INFRA: %d child(ren) died outside any case (%s); their shards are incomplete:"
              % (len(infra), infra[0]["key"]))
        print(infra[0]["stderr"][-1500:])
    if new_keys:
        return 1
    if infra:
        print("INCONCLUSIVE property=%s reason=child-infrastructure-failure %s" % (prop, infra[0]["key"]))
        print(infra[0]["stderr"][-1500:])
        return 2
    if timeouts:
        print("INCONCLUSIVE property=%s reason=watchdog (%d)" % (prop, timeouts))
        return 2
    if gave_up or incomplete:
        print("INCONCLUSIVE property=%s reason=shards-incomplete" % prop)
        return 2
    if gate_fail:
        print("INCONCLUSIVE property=%s reason=observation-gate %s" % (prop, ",".join(gate_fail)))
        return 2
    return 0


if __name__ == "__main__":
    sys.exit(main())
