"""Child-side context: write-ahead case log, counters, signatures, violations."""
import hashlib
import json
import os
import random
import signal
import sys
import time


class CaseTimeout(BaseException):
    """Raised by the per-case watchdog alarm (inconclusive, never a violation)."""


def _h64(obj):
    return hashlib.blake2b(repr(obj).encode("utf-8", "backslashreplace"),
                           digest_size=8).hexdigest()


def jsonable(x, depth=0):
    """Best-effort conversion of witness data to something json.dumps accepts."""
    if depth > 8:
        return repr(x)[:200]
    if x is None or isinstance(x, (bool, int, str)):
        if isinstance(x, int) and not isinstance(x, bool) and abs(x) > 2 ** 63:
            return repr(x)
        if type(x) in (bool, int, str, type(None)):
            return x
        return repr(x)
    if isinstance(x, float):
        if x != x or x in (float("inf"), float("-inf")):
            return repr(x)
        return x if type(x) is float else repr(x)
    if isinstance(x, dict):
        return {str(k) if isinstance(k, (str, int)) else repr(k)[:200]:
                jsonable(v, depth + 1) for k, v in list(x.items())[:200]}
    if isinstance(x, (list, tuple)):
        return [jsonable(v, depth + 1) for v in list(x)[:400]]
    if isinstance(x, (set, frozenset)):
        return {"__set__": sorted((repr(v)[:100] for v in x))[:100]}
    try:
        return repr(x)[:300]
    except BaseException as e:  # hostile __repr__
        return "<unreprable %s: %s>" % (type(x).__name__, type(e).__name__)


class Ctx:
    def __init__(self, prop, tier, seed, shard, nshards, out_path, phase="main",
                 only=None, resume_after=-1, case_timeout=300):
        self.prop = prop
        self.tier = tier
        self.seed = seed
        self.shard = shard
        self.nshards = nshards
        self.phase = phase
        self.only = only
        self.resume_after = resume_after
        self.case_timeout = case_timeout
        self.out = open(out_path, "a", buffering=1)
        self.counters = {}
        self.sigs = set()
        self.samples = []
        self.ordinal = -1
        self.cur_case = None
        self.nviol = 0
        self.viol_per_key = {}
        self.t0 = time.time()
        self.replay_mode = only is not None
        self.notes = {}
        self.factor = 1.0      # budget multiplier (C18 replays other monitors at a fraction)
        try:
            signal.signal(signal.SIGALRM, self._on_alarm)
        except (ValueError, OSError):
            pass

    # -- helpers -----------------------------------------------------------
    @property
    def quick(self):
        return self.tier == "quick"

    def scale(self, quick, thorough):
        v = quick if self.tier == "quick" else thorough
        if self.factor != 1.0 and isinstance(v, (int, float)) and not isinstance(v, bool) and v >= 100:
            return type(v)(max(1, v * self.factor))
        return v

    def mine(self, index):
        """Static sharding of an enumerated index."""
        return index % self.nshards == self.shard

    def rng(self, *keys):
        h = hashlib.blake2b(repr((self.seed, self.prop, keys)).encode(),
                            digest_size=8).digest()
        return random.Random(int.from_bytes(h, "big"))

    def _on_alarm(self, signum, frame):
        raise CaseTimeout()

    def _emit(self, rec):
        self.out.write(json.dumps(rec, default=lambda o: repr(o)[:200]) + "\n")

    # -- case protocol -----------------------------------------------------
    def begin(self, case_id, desc=None):
        """Write-ahead record.  Returns False when the case must be skipped
        (resuming after a crash, or replaying one specific case)."""
        self.ordinal += 1
        case_id = str(case_id)
        if self.only is not None:
            if case_id != self.only:
                return False
        elif self.ordinal <= self.resume_after:
            return False
        self.cur_case = case_id
        self._emit({"t": "case", "id": case_id, "ord": self.ordinal,
                    "desc": jsonable(desc)})
        self.count("cases")
        try:
            signal.alarm(self.case_timeout)
        except (ValueError, OSError):
            pass
        return True

    def end(self):
        try:
            signal.alarm(0)
        except (ValueError, OSError):
            pass
        self.cur_case = None

    def timed_out(self, desc=None):
        """Record that the current case hit the per-case watchdog."""
        self._emit({"t": "timeout", "id": self.cur_case, "desc": jsonable(desc)})
        self.count("case_timeouts")
        self.end()

    # -- observations ------------------------------------------------------
    def count(self, name, n=1):
        self.counters[name] = self.counters.get(name, 0) + n

    def ev(self, n=1):
        self.counters["evaluations"] = self.counters.get("evaluations", 0) + n

    def sig(self, *parts):
        """Register a distinct non-trivial case signature."""
        self.sigs.add(_h64(parts))

    def sample(self, obj, cap=4):
        if len(self.samples) < cap:
            self.samples.append(jsonable(obj))

    def note(self, name, value):
        self.notes[name] = jsonable(value)

    def violation(self, key, message, witness=None):
        """Record an oracle failure.  `key` is the mechanism key (structural,
        never containing seeds or random values)."""
        self.nviol += 1
        n = self.viol_per_key.get(key, 0)
        self.viol_per_key[key] = n + 1
        if n < 3:
            self._emit({"t": "viol", "key": key, "msg": str(message)[:2000],
                        "case": self.cur_case, "ord": self.ordinal,
                        "witness": jsonable(witness)})
        if self.replay_mode:
            print("REPLAY-VIOLATION key=%s %s" % (key, str(message)[:500]))

    def finish(self):
        self.end()
        self._emit({"t": "stats", "counters": self.counters,
                    "sigs": sorted(self.sigs), "samples": self.samples,
                    "viol_per_key": self.viol_per_key, "notes": self.notes,
                    "wall_s": round(time.time() - self.t0, 3)})
        self.out.close()
