"""Reference predicates for trait domains, written from the documentation
(docstrings + user manual), NOT by calling traits.

A reference is a function value -> R where R describes the set of outcomes the
property statement allows:
  R.accepts : list of acceptable stored values (any one of them, `same`-compared)
  R.rej     : TraitError is an allowed outcome
  R.passes  : set of exception types that may pass through unchanged (raised by the
              value's own conversion protocol)
"""
import array
import datetime
import operator
import re

import numpy as np

from vf.util import same


def plainify(x):
    """Trait containers -> plain containers so `same` compares by content."""
    if isinstance(x, list):
        return [plainify(e) for e in x]
    if isinstance(x, tuple) and type(x) is tuple:
        return tuple(plainify(e) for e in x)
    if isinstance(x, dict):
        return {k: plainify(v) for k, v in x.items()}
    if isinstance(x, set):
        return set(x)
    return x


class R:
    """Allowed outcomes.  Either an explicit list of acceptable stored values
    (`accepts`) or, for containers, a structural `matcher(stored) -> bool`."""
    __slots__ = ("accepts", "rej", "passes", "matcher")

    def __init__(self, accepts=(), rej=False, passes=(), matcher=None):
        self.accepts = list(accepts)
        self.rej = rej
        self.passes = set(passes)
        self.matcher = matcher

    def acceptable(self):
        return bool(self.accepts) or self.matcher is not None

    def matches(self, stored):
        if self.matcher is not None:
            try:
                return bool(self.matcher(stored))
            except Exception:
                return False
        ps = plainify(stored)
        for a in self.accepts:
            if same(ps, a):
                return True
        return False

    def __repr__(self):
        return "R(accepts=%s, rej=%r, passes=%r)" % (
            "<structural>" if self.matcher is not None else repr(self.accepts[:3]), self.rej,
            sorted(t.__name__ for t in self.passes))


def ACC(v):
    return R([v])


REJ = R([], True)


def PASS(t):
    # the statement allows the protocol's own exception to surface; a TraitError is
    # equally fine (the C* casts and compounds do that)
    return R([], True, [t])


# --- scalars -----------------------------------------------------------------
def ref_int(v):
    if type(v) is int:
        return ACC(v)
    if hasattr(type(v), "__index__"):
        try:
            return ACC(int(operator.index(v)))
        except TypeError:
            return REJ
        except Exception as e:
            return PASS(type(e))
    return REJ


def ref_float(v):
    if type(v) is float:
        return ACC(v)
    try:
        return ACC(array.array("d", [v])[0])    # CPython's own float-likeness
    except TypeError:
        return REJ
    except Exception as e:
        return PASS(type(e))


def ref_complex(v):
    if type(v) is complex:
        return ACC(v)
    if isinstance(v, complex):
        return ACC(complex(v))
    if hasattr(type(v), "__complex__"):
        try:
            return ACC(complex(v))
        except TypeError:
            return REJ
        except Exception as e:
            return PASS(type(e))
    r = ref_float(v)
    if r.accepts:
        return ACC(complex(r.accepts[0]))
    return r


def ref_isinstance(t):
    def f(v):
        return ACC(v) if isinstance(v, t) else REJ
    return f


def ref_bool(v):
    return ACC(bool(v)) if isinstance(v, (bool, np.bool_)) else REJ


def ref_none(v):
    return ACC(None) if v is None else REJ


def ref_any(v):
    return ACC(v)


def ref_cast(t, rejecting):
    """C* casting types: t(value); documented to reject on conversion failure."""
    def f(v):
        try:
            return ACC(t(v))
        except rejecting:
            return REJ
        except Exception as e:
            return PASS(type(e))
    return f


def ref_range_float(lo, hi, xl, xh):
    def f(v):
        r = ref_float(v)
        if not r.accepts:
            return r
        x = r.accepts[0]
        if lo is not None and not (x > lo if xl else x >= lo):
            return REJ
        if hi is not None and not (x < hi if xh else x <= hi):
            return REJ
        return ACC(x)
    return f


def ref_range_int(lo, hi, xl=False, xh=False):
    def f(v):
        r = ref_int(v)
        if not r.accepts:
            return r
        x = r.accepts[0]
        if lo is not None and not (x > lo if xl else x >= lo):
            return REJ
        if hi is not None and not (x < hi if xh else x <= hi):
            return REJ
        return ACC(x)
    return f


def ref_enum(values):
    def f(v):
        try:
            for x in values:
                if x is v:
                    return ACC(v)
                if x == v:
                    return ACC(v)
        except Exception:
            return REJ
        return REJ
    return f


def ref_string(minlen, maxlen, regex):
    def f(v):
        if isinstance(v, (str, int, float, complex)):
            try:
                s = str(v)
            except Exception:
                return REJ
        else:
            return REJ
        if not (minlen <= len(s) <= maxlen):
            return REJ
        if regex and re.match(regex, s) is None:
            return REJ
        return ACC(s)
    return f


def ref_prefixlist(values):
    def f(v):
        if not isinstance(v, str):
            return REJ
        if v in values:
            return ACC(str(v) if type(v) is not str else v)
        m = [k for k in values if k.startswith(v)]
        return ACC(m[0]) if len(m) == 1 else REJ
    return f


def ref_map(d):
    def f(v):
        try:
            return ACC(v) if v in d else REJ
        except Exception:
            return REJ
    return f


def ref_prefixmap(d):
    def f(v):
        if not isinstance(v, str):
            return REJ
        if v in d:
            return ACC(v)
        m = [k for k in d if k.startswith(v)]
        return ACC(m[0]) if len(m) == 1 else REJ
    return f


def ref_callable(allow_none):
    def f(v):
        if v is None:
            return ACC(None) if allow_none else REJ
        return ACC(v) if callable(v) else REJ
    return f


def ref_instance(cls, allow_none):
    def f(v):
        if v is None:
            return ACC(None) if allow_none else REJ
        return ACC(v) if isinstance(v, cls) else REJ
    return f


def ref_type(cls, allow_none):
    def f(v):
        if v is None:
            return ACC(None) if allow_none else REJ
        try:
            return ACC(v) if isinstance(v, type) and issubclass(v, cls) else REJ
        except TypeError:
            return REJ
    return f


def ref_date(allow_datetime, allow_none):
    def f(v):
        if v is None:
            return ACC(None) if allow_none else REJ
        if isinstance(v, datetime.datetime):
            return ACC(v) if allow_datetime else REJ
        return ACC(v) if isinstance(v, datetime.date) else REJ
    return f


def ref_simple_instance(cls, allow_none):
    def f(v):
        if v is None:
            return ACC(None) if allow_none else REJ
        return ACC(v) if isinstance(v, cls) else REJ
    return f


# --- composites ------------------------------------------------------------
def _union_passes(rs):
    out = set()
    for r in rs:
        out |= r.passes
    return out


def ref_tuple(*members):
    def f(v):
        if not isinstance(v, tuple) or len(v) != len(members):
            return REJ
        rs = [m(x) for m, x in zip(members, v)]
        passes = _union_passes(rs)
        if not all(r.acceptable() for r in rs):
            return R([], True, passes)

        def matcher(s):
            # the container may be the caller's tuple subclass left as is (domain = shape +
            # members); an exact tuple is equally fine
            if not (type(s) is tuple or s is v):
                return False
            return len(s) == len(rs) and all(r.matches(e) for r, e in zip(rs, s))
        return R([], any(r.rej for r in rs), passes, matcher)
    return f


def ref_union(*members):
    def f(v):
        rs = [m(v) for m in members]
        ok = [r for r in rs if r.acceptable()]
        if not ok:
            return R([], all(r.rej for r in rs), _union_passes(rs))
        return R([], False, _union_passes(rs), lambda s: any(r.matches(s) for r in ok))
    return f


def ref_list(member, minlen=0, maxlen=10 ** 9):
    def f(v):
        if not isinstance(v, list) or not (minlen <= len(v) <= maxlen):
            return REJ
        rs = [member(x) for x in v]
        passes = _union_passes(rs)
        if not all(r.acceptable() for r in rs):
            return R([], True, passes)

        def matcher(s):
            return isinstance(s, list) and len(s) == len(rs) and all(r.matches(e) for r, e in zip(rs, s))
        return R([], any(r.rej for r in rs), passes, matcher)
    return f


def ref_set(member):
    def f(v):
        if not isinstance(v, set):
            return REJ
        rs = [member(x) for x in list(v)]
        passes = _union_passes(rs)
        if not all(r.acceptable() for r in rs):
            return R([], True, passes)

        def matcher(s):
            if not isinstance(s, set):
                return False
            return (all(any(r.matches(e) for e in s) for r in rs)
                    and all(any(r.matches(e) for r in rs) for e in s))
        return R([], any(r.rej for r in rs), passes, matcher)
    return f


def ref_dict(kmember, vmember):
    def f(v):
        if not isinstance(v, dict):
            return REJ
        ks = list(v.keys())
        krs = [kmember(k) for k in ks]
        vrs = [vmember(v[k]) for k in ks]
        passes = _union_passes(krs + vrs)
        if not all(r.acceptable() for r in krs + vrs):
            return R([], True, passes)

        def matcher(s):
            if not isinstance(s, dict):
                return False
            for kr, vr in zip(krs, vrs):
                if not any(kr.matches(sk) and vr.matches(sv) for sk, sv in s.items()):
                    return False
            for sk, sv in s.items():
                if not any(kr.matches(sk) and vr.matches(sv) for kr, vr in zip(krs, vrs)):
                    return False
            return True
        return R([], any(r.rej for r in krs + vrs), passes, matcher)
    return f


def ref_array(dtype, shape, casting="unsafe"):
    """Array(dtype, shape, casting): ndarray (or list/tuple converted) of the declared
    dtype (cast when numpy's casting rule allows), shape rule per dimension."""
    def f(v):
        if not isinstance(v, np.ndarray):
            if not isinstance(v, (list, tuple)):
                return REJ
            try:
                v = np.asarray(v, dtype) if dtype is not None else np.asarray(v)
            except Exception:
                return REJ
        if dtype is not None and v.dtype != dtype:
            if not np.can_cast(v.dtype, dtype, casting):
                return REJ
            try:
                v = v.astype(dtype)
            except Exception:
                return REJ
        if shape is not None:
            if len(shape) != v.ndim:
                return REJ
            for d, s_ in zip(v.shape, shape):
                if s_ is None:
                    continue
                if isinstance(s_, int):
                    if d != s_:
                        return REJ
                elif d < s_[0] or (s_[1] is not None and d > s_[1]):
                    return REJ
        return ACC(v)
    return f


def ref_array_or_none(dtype, shape):
    inner = ref_array(dtype, shape)

    def f(v):
        if v is None:
            return ACC(None)
        return inner(v)
    return f


def ref_validated_cast_tuple(casts, pred):
    """ValidatedTuple(C*, C*, fvalidate=pred): members are cast first, the predicate judges the
    CONVERTED tuple (docs: "the tuple is validated ... after the elements have been validated")."""
    members = [ref_cast(t, (ValueError, TypeError)) for t in casts]

    def f(v):
        if isinstance(v, list):
            # BaseTuple.validate (the Python path ValidatedTuple uses) deliberately takes a
            # list as the tuple of its items; the stored value is a tuple in the domain
            v = tuple(v)
        if not isinstance(v, tuple) or len(v) != len(members):
            return REJ
        rs = [m(x) for m, x in zip(members, v)]
        passes = _union_passes(rs)
        if not all(r.accepts for r in rs):
            return R([], True, passes)
        conv = tuple(r.accepts[0] for r in rs)
        try:
            ok = bool(pred(conv))
        except Exception:
            ok = False
        if not ok:
            return R([], True, passes)
        return R([conv], bool(passes), passes)
    return f
