"""Line-point injection inside the monitored package (sys.monitoring, CPython >= 3.12).

`Points.run(fn, k, action)` runs `fn()` and calls `action()` immediately before the k-th
statement-start line executed in a code object whose file lives under one of the given
directories (the snapshot of the `traits` package).  `Points.run(fn)` (k=None) only counts.
Lines executed outside those directories (the harness's own handlers, the standard
library) are switched off per location (sys.monitoring.DISABLE), so their cost is paid once.

This is what turns "garbage collection occurring at any point" / "the partner is collected
at any point" into an enumeration: the victim is made cyclic garbage first (automatic
collection switched off), the operation is counted once on a twin, and is then re-run on a
freshly built twin for every k with `gc.collect()` as the action.  The same mechanism
serves as a source-free failpoint (an action that raises) where a monitor wants one.
"""
import sys

_mon = getattr(sys, "monitoring", None)
AVAILABLE = _mon is not None
_TOOL = 4


class Points:
    _instance = None

    def __init__(self, prefixes):
        self.prefixes = tuple(p.rstrip("/") + "/" for p in prefixes)
        self.n = 0
        self.k = None
        self.action = None
        self.fired = None          # (file basename, line) where the action ran
        self.in_action = False
        self.lines_in_action = 0
        self.on = False
        if AVAILABLE:
            try:
                _mon.use_tool_id(_TOOL, "vf-points")
            except ValueError:
                pass
            _mon.register_callback(_TOOL, _mon.events.LINE, self._line)

    @classmethod
    def get(cls, prefixes):
        if cls._instance is None:
            cls._instance = cls(prefixes)
        return cls._instance

    def _line(self, code, lineno):
        fn = code.co_filename
        if not fn.startswith(self.prefixes):
            return _mon.DISABLE
        if not self.on:
            return None
        if self.in_action:
            self.lines_in_action += 1
            return None
        self.n += 1
        if self.n == self.k:
            self.fired = (fn.rsplit("/", 1)[-1], lineno)
            self.in_action = True
            try:
                self.action()
            finally:
                self.in_action = False
        return None

    def run(self, fn, k=None, action=None):
        """Returns (result, exception) of fn(); self.n is the number of points seen."""
        self.n = 0
        self.k = k
        self.action = action
        self.fired = None
        self.lines_in_action = 0
        self.on = True
        _mon.set_events(_TOOL, _mon.events.LINE)
        try:
            try:
                return fn(), None
            except Exception as e:           # the operation's own outcome, judged by the caller
                return None, e
        finally:
            _mon.set_events(_TOOL, 0)
            self.on = False
