"""vf -- runtime-monitoring framework for enthought/traits (see /verif/DESIGN.md)."""
