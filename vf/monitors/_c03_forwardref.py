"""C03 stratum 'forward-ref': members given by class NAME (resolved lazily).

An Instance / Supports / Type / legacy TraitInstance member may name its class
by a string; the class is looked up the first time a value reaches that member,
and the trait is then expected to go on validating exactly like the Python
method says -- on EVERY object that uses the definition, whichever object and
whichever trait object (class trait, instance-level clone, subclass clone,
unpickled copy) the first lookup happened to run through.

This module holds what the stratum needs besides the generic checker of
c03.py: the builders of the by-name members (bare names are looked up in the
module that calls the trait constructor, i.e. HERE, so the referenced classes
are imported into this namespace), the catalogue of specs, the histories
("routes") that make the first resolution happen, and the objects ("targets")
on which the differential sweep is run afterwards.
"""
import pickle

from traits.api import Instance, Supports, TraitInstance, Type

from vf.monitors import _c03_lattice as LAT
# bare class names used by the specs are resolved against this module's globals
from vf.monitors._c03_lattice import X, Y, Z, Src, Holder  # noqa: F401

LATMOD = LAT.__name__
HERE = __name__

REF_KINDS = ("InstanceRef", "SupportsRef", "TypeRef", "TraitInstanceRef")
#: family name of the by-name member, as used in the mechanism keys
FAMILY = {"InstanceRef": "Instance", "SupportsRef": "Instance", "TypeRef": "Type",
          "TraitInstanceRef": "TraitInstance"}


def class_name(nameform, cname):
    """The string the trait definition names its class by."""
    if cname == "int":
        return "builtins.int"
    if nameform == "dotted":
        return LATMOD + "." + cname
    return cname


def mk_ref(spec):
    """Build the by-name member described by spec.

    ("InstanceRef", nameform, class, allow_none, adapt)
    ("SupportsRef", nameform, class, allow_none)
    ("TypeRef", nameform, class, allow_none, "klass"|"value")
    ("TraitInstanceRef", nameform, class, allow_none)
    nameform: "bare" (looked up in the defining module), "module" (bare name plus
    the module= argument), "dotted" (package.module.Class).
    """
    k, nameform, cname = spec[:3]
    name = class_name(nameform, cname)
    kw = {}
    if nameform == "module" and "." not in name:
        kw["module"] = LATMOD
    if k == "InstanceRef":
        return Instance(name, allow_none=spec[3], adapt=spec[4], **kw)
    if k == "SupportsRef":
        if "." not in name:
            kw["module"] = LATMOD       # (the constructor is called from the library's own subclass)
        return Supports(name, allow_none=spec[3], **kw)
    if k == "TypeRef":
        if spec[4] == "value":
            return Type(name, allow_none=spec[3])
        return Type(None, name, allow_none=spec[3])
    if k == "TraitInstanceRef":
        return TraitInstance(name, allow_none=spec[3], module=LATMOD if nameform == "module" else HERE)
    raise AssertionError(spec)


def resolved_twin(spec):
    """The same spec with every by-name member replaced by the member naming
    the class object itself (None when a name cannot be resolved)."""
    if not isinstance(spec, tuple) or not spec:
        return spec
    k = spec[0]
    if k in REF_KINDS:
        if spec[2] not in ("X", "Y", "Z", "Src", "Holder", "int"):
            return None
        if k == "InstanceRef":
            return ("Instance", spec[2], spec[3], spec[4])
        if k == "SupportsRef":
            return ("Supports", spec[2], spec[3])
        if k == "TypeRef":
            return ("Type", spec[2], spec[3])
        return ("TraitInstance", spec[2], spec[3])
    out = []
    for s in spec:
        t = resolved_twin(s) if isinstance(s, tuple) else s
        if t is None and s is not None:
            return None
        out.append(t)
    return tuple(out)


_CONTAINER = {"Either": "compound", "Trait": "compound", "TraitOf": None}


def form_of(spec):
    """Structural skeleton of a spec: only the containers on the way to by-name
    members and the members' families, e.g. compound(Instance),
    compound(compound(Instance)), Tuple(Instance), compound(Instance,Type)."""
    if not isinstance(spec, tuple) or not spec:
        return None
    k = spec[0]
    if k in REF_KINDS:
        return FAMILY[k]
    if not isinstance(k, str):
        return None
    inner = []
    for s in spec[1:]:
        f = form_of(s) if isinstance(s, tuple) else None
        if f is not None and f not in inner:
            inner.append(f)
    if not inner:
        return None
    name = _CONTAINER.get(k, k)
    if name is None:
        return ",".join(sorted(inner))
    return "%s(%s)" % (name, ",".join(sorted(inner)))


# --------------------------------------------------------------------------
# catalogue: (spec, wrap, accept tokens)
#   wrap   how a value of the referenced class sits in a value the spec accepts
#   tokens values that reach (and are accepted by) the by-name members
def catalogue():
    I, St, Fl = ("Int",), ("Str",), ("Float",)
    N = ("None",)
    IRX = ("InstanceRef", "bare", "X", True, "no")
    IRXd = ("InstanceRef", "dotted", "X", True, "no")
    IRXn = ("InstanceRef", "dotted", "X", False, "no")
    IRXm = ("InstanceRef", "module", "X", False, "no")
    IRZ = ("InstanceRef", "bare", "Z", False, "no")
    IRS = ("InstanceRef", "bare", "Src", True, "no")
    IRa = ("InstanceRef", "dotted", "X", False, "yes")
    IRdf = ("InstanceRef", "bare", "X", False, "default")
    IRint = ("InstanceRef", "dotted", "int", False, "no")
    IRno = ("InstanceRef", "bare", "NoSuchClassAnywhere", True, "no")
    SR = ("SupportsRef", "dotted", "X", False)
    TR = ("TypeRef", "bare", "X", True, "klass")
    TRv = ("TypeRef", "dotted", "X", False, "value")
    TI = ("TraitInstanceRef", "bare", "X", True)
    TIn = ("TraitInstanceRef", "module", "Z", False)
    ix, iz, isrc, cy, i5 = "inst:X", "inst:Z", "inst:Src", "cls:Y", "int:5"
    C = [
        # stand-alone
        (IRX, "bare", (ix,)), (IRXn, "bare", (ix,)), (IRXm, "bare", (ix,)), (IRS, "bare", (isrc,)),
        (IRa, "bare", (ix, isrc)), (IRdf, "bare", (ix,)), (IRint, "bare", (i5,)), (IRno, "bare", (ix,)),
        (SR, "bare", (ix, isrc)), (TR, "bare", (cy,)), (TRv, "bare", (cy,)),
        (("TraitOf", TI), "bare", (ix,)), (("TraitOf", TIn), "bare", (iz,)),
        # flat compounds: the by-name member last / first / beside a member without C validator
        (("Either", I, IRX), "bare", (ix,)), (("Either", IRXd, I), "bare", (ix,)),
        (("Either", St, IRXn), "bare", (ix,)), (("Either", St, ("List", I), IRX), "bare", (ix,)),
        (("Either", Fl, IRXm, N), "bare", (ix,)), (("Either", I, IRa), "bare", (ix, isrc)),
        (("Either", St, SR), "bare", (ix, isrc)), (("Either", St, IRint), "bare", (i5,)),
        (("Either", I, IRno), "bare", (ix,)), (("Either", I, IRS, St), "bare", (isrc,)),
        # two by-name members, by-name members of two families
        (("Either", I, IRXn, IRZ), "bare", (ix, iz)), (("Either", I, IRZ, TR), "bare", (iz, cy)),
        (("Either", I, TR), "bare", (cy,)), (("Either", TRv, St), "bare", (cy,)),
        # Trait(default, ...) and the legacy handler
        (("Trait", "none", I, IRX), "bare", (ix,)), (("Trait", "0", ("py", "int"), IRXd), "bare", (ix,)),
        (("Trait", "0", I, TI), "bare", (ix,)), (("Either", St, TIn), "bare", (iz,)),
        # nested compounds, Union
        (("Either", I, ("Either", St, IRX)), "bare", (ix,)), (("Either", ("Either", IRXn, I), St), "bare", (ix,)),
        (("Union", I, IRX), "bare", (ix,)), (("Union", IRXn, St, N), "bare", (ix,)),
        (("Either", Fl, ("Union", St, IRXd)), "bare", (ix,)),
        # Tuple member, Tuple inside a compound, compound inside a Tuple
        (("Tuple", I, IRX), "tuple2", (ix,)), (("Tuple", St, IRXn), "tuple2", (ix,)),
        (("Either", ("Tuple", I, IRXd), St), "tuple2", (ix,)),
        (("Tuple", I, ("Either", St, IRX)), "tuple2", (ix,)), (("Tuple", I, TR), "tuple2", (cy,)),
        # List / Dict item position
        (("List", IRX), "list", (ix,)), (("List", IRXn), "list", (ix,)),
        (("Either", I, ("List", IRXd)), "list", (ix,)), (("List", ("Either", I, IRX)), "list", (ix,)),
        (("Dict", St, IRX), "dict", (ix,)),
    ]
    return C


def token_value(tok):
    kind, what = tok.split(":")
    if kind == "inst":
        return getattr(LAT, what)()
    if kind == "cls":
        return getattr(LAT, what)
    return int(what)


def wrap_value(wrap, v):
    if wrap == "tuple2":
        return (1, v)
    if wrap == "list":
        return [v]
    if wrap == "dict":
        return {"k": v}
    return v


class Stranger(object):
    """A value no member accepts: it reaches every member of a compound."""


#: lattice classes from which the wrapped extra values are built
RELEVANT = ("hastraits", "hastraits.holder", "none", "int", "str", "adaptable", "adaptable.alt",
            "class", "class-masquerade", "object", "float")


def extra_values(wrap, values, per_class):
    """Lattice values of the relevant classes placed where the by-name member
    sits (item of a list / dict, second item of a pair)."""
    if wrap == "bare":
        return []
    out, seen = [], {}
    label = {"tuple2": "tuple", "list": "list", "dict": "dict"}[wrap]
    for vid, cls, v in values:
        if cls not in RELEVANT or seen.get(cls, 0) >= per_class:
            continue
        seen[cls] = seen.get(cls, 0) + 1
        try:
            w = wrap_value(wrap, v)
        except Exception:
            continue
        out.append(("%s[%s]" % (wrap, vid), label, w))
    return out


# --------------------------------------------------------------------------
# histories: how the first resolution happens
def _noop(*args):
    pass


def _observer(event):
    pass


ROUTES = ("assign-pristine", "on_trait_change", "observe", "add_trait-same-name", "_trait-instance-level",
          "ctrait-validate", "subclass-instance", "subclass-redefining-default", "pickled-copy")


class Scene(object):
    """One class carrying the spec as class trait 'x', the objects made before
    the resolution, and the bookkeeping of which trait object(s) the
    resolution(s) ran through."""

    def __init__(self, trait):
        self.cls = type("FwdHolder", (LAT.Holder,), {"x": trait})
        self.before = self.cls()
        self.class_trait = self.before.trait("x")
        self.before_listener = self.cls()
        self.before_listener.on_trait_change(_noop, "x")
        self.sub = type("FwdHolderSub", (self.cls,), {})
        self.sub_redefined = None
        try:
            kind, default = self.class_trait.default_value()
            if int(kind) == 0:          # a constant default: the documented way of redefining it
                self.sub_redefined = type("FwdHolderSubDefault", (self.cls,), {"x": default})
        except Exception:
            self.sub_redefined = None
        self.events = []               # (trait object resolved through, where)
        self.resolver = None

    # -- the route -------------------------------------------------------------
    def resolver_for(self, route):
        """Returns (object, operation) -- operation(value) is what first makes a
        value reach the by-name members -- or None when the route does not apply."""
        cls = self.cls
        if route == "assign-pristine":
            o = cls()
            return o, lambda v: setattr(o, "x", v)
        if route == "on_trait_change":
            o = cls()
            o.on_trait_change(_noop, "x")
            return o, lambda v: setattr(o, "x", v)
        if route == "observe":
            o = cls()
            o.observe(_observer, "x")
            return o, lambda v: setattr(o, "x", v)
        if route == "add_trait-same-name":
            o = cls()
            o.add_trait("x", o.trait("x"))
            return o, lambda v: setattr(o, "x", v)
        if route == "_trait-instance-level":
            o = cls()
            o._trait("x", 2)
            return o, lambda v: setattr(o, "x", v)
        if route == "ctrait-validate":
            o = cls()
            ct = o.trait("x")
            return o, lambda v: ct.validate(o, "x", v)
        if route == "subclass-instance":
            o = self.sub()
            return o, lambda v: setattr(o, "x", v)
        if route == "subclass-redefining-default":
            if self.sub_redefined is None:
                return None
            o = self.sub_redefined()
            return o, lambda v: setattr(o, "x", v)
        if route == "pickled-copy":
            o = cls()
            o.add_trait("x", pickle.loads(pickle.dumps(self.class_trait, 2)))
            return o, lambda v: setattr(o, "x", v)
        raise AssertionError(route)

    def where(self, route, through):
        if through is self.class_trait:
            return "class-trait"
        if through.handler is not self.class_trait.handler:
            # an unpickled copy, or the copy a subclass makes of a TraitType when it
            # redefines the default: a definition of its own, resolved on its own
            return "separate-copy"
        if route == "subclass-redefining-default":
            return "subclass-clone"
        return "instance-clone"

    def has_event_for(self, ct):
        return any(ct.handler is through.handler for through, _ in self.events)

    def resolve(self, route, obj, op, values):
        """Run the operation with each value (outcomes are not judged here: the
        sweep judges the state that results)."""
        through = obj.trait("x")
        for v in values:
            try:
                op(v)
            except Exception:  # noqa: BLE001 - judged by the sweep
                pass
        self.events.append((through, self.where(route, through)))
        return through

    # -- the sweep targets ---------------------------------------------------------
    def relation(self, ct, copied_from=None):
        """(where the resolution ran, how this trait object relates to the one
        it ran through)."""
        src = ct if copied_from is None else copied_from
        suffix = "" if copied_from is None else ".pickled"
        for through, where in self.events:
            if src is through:
                return where, "same-trait-object" + suffix
        for through, where in self.events:
            if src.handler is through.handler:
                return where, "sibling-trait-object" + suffix
        return "nothing", "unresolved-copy" + suffix

    def targets(self):
        """(name, object, trait object it was copied from or None), in a fixed order."""
        cls = self.cls
        out = [("resolver", self.resolver, None), ("created-before", self.before, None),
               ("created-before-with-listener", self.before_listener, None),
               ("created-after", cls(), None)]
        o = cls()
        o.on_trait_change(_noop, "x")
        out.append(("created-after-with-listener", o, None))
        out.append(("subclass-instance", self.sub(), None))
        if self.sub_redefined is not None:
            out.append(("subclass-redefining-default-instance", self.sub_redefined(), None))
        try:
            o = cls()
            src = self.class_trait
            o.add_trait("x", pickle.loads(pickle.dumps(src, 2)))
            out.append(("pickled-after-resolution", o, src))
        except Exception:  # noqa: BLE001 - pickling is C14's business
            pass
        return out
