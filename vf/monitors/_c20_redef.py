"""C20 strata "redef" / "redefrm": the definition of a synchronised attribute changes at run time.

sync_trait hangs its forwarders on the *instance-level* trait objects of the linked names
(`<name>` and, for lists, `<name>_items`).  HasTraits.add_trait over a name that already has a
definition replaces that trait object, HasTraits.remove_trait deletes it.  The statement knows
only three ways for a link to end (remove=True, collection of the partner, never made), so a
re-definition between the link and later operations must leave the convergence intact: every
following assignment and in-place mutation on either side is judged by the ordinary model of
c20.py (World.judge), with the link graph unchanged by the re-definition.

Families (all value-preserving: the new definition accepts every value the histories write):
  * add_trait over the linked name - a class-level trait or a trait that was itself added at
    run time - with the same type, another List inner type / length bound / comparison mode,
    another scalar type of the same value class (Int -> Range, CInt, Any ...);
  * remove_trait + add_trait of a linked run-time trait (stratum "redefrm" only; the harness
    writes the value back, which remove_trait drops, and re-attaches its own recorder);
on the mutual side, the one-way source or the one-way target, before or after other links,
unlinks, partner collections, several times per history.

This module holds the data of the family (definitions, run-time flavours) and the generator of
the re-definition operation; the operation itself and the key attribution live in c20.World.
Keys: redef/add-trait/<key of c20.py>, redef/remove-add/<key of c20.py>, and
redef/remove-add/forwarding-lost for the one mechanism of the open finding (a change of, or
passing through, a removed-and-re-added attribute does not reach its partners).
"""
from traits.api import Any, CInt, CStr, Int, List, Range, Str, String

try:
    from traits.api import ComparisonMode
except ImportError:  # pragma: no cover
    from traits.constants import ComparisonMode


# spec -> (factory, relation to the original definition, every assignment notifies)
SPECS = {
    "list": {
        "list-int": (lambda: List(Int), "same", False),
        "list-int-maxlen": (lambda: List(Int, maxlen=50), "bounds", False),
        "list-int-default": (lambda: List(Int, [9, 9]), "same", False),
        "list-any": (lambda: List(Any), "inner", False),
        "list-range": (lambda: List(Range(-100, 100)), "inner", False),
        "list-cint": (lambda: List(CInt), "inner", False),
        "list-untyped": (lambda: List(), "inner", False),
        "list-int-identity": (lambda: List(Int, comparison_mode=ComparisonMode.identity),
                              "comparison", True),
    },
    "int": {
        "int": (lambda: Int, "same", False),
        "int-default": (lambda: Int(7), "same", False),
        "range": (lambda: Range(-100, 100), "scalar-type", False),
        "cint": (lambda: CInt, "scalar-type", False),
        "any": (lambda: Any(0), "scalar-type", False),
    },
    "str": {
        "str": (lambda: Str, "same", False),
        "string-maxlen": (lambda: String(maxlen=50), "scalar-type", False),
        "cstr": (lambda: CStr, "scalar-type", False),
        "any": (lambda: Any(""), "scalar-type", False),
    },
}
# remove_trait + add_trait: equality comparison only (the harness writes the value back)
READD_SPECS = {g: tuple(s for s, v in sorted(d.items()) if not v[2]) for g, d in SPECS.items()}
ADD_SPECS = {g: tuple(sorted(d)) for g, d in SPECS.items()}

ORIGINAL = {"list": lambda: List(Int), "int": lambda: Int, "str": lambda: Str}


def make(group, spec):
    return SPECS[group][spec][0]()


def relation(group, spec):
    return SPECS[group][spec][1]


def always(group, spec):
    return SPECS[group][spec][2]


def role(w, n):
    """How the node takes part in links right now (structural, for counters/signatures)."""
    outs = w.out(n)
    ins = [s for (s, t) in w.edges if t == n]
    if not outs and not ins:
        return "loose"
    if any(t in ins for t in outs):
        return "mutual"
    if outs and ins:
        return "oneway-both"
    return "oneway-source" if outs else "oneway-target"


def gen(rng, w, group_of):
    """A re-definition of one live attribute, preferably a linked one (either side of a link)."""
    nodes = sorted(w.live_nodes())
    linked = [n for n in nodes if any(n in e for e in w.edges)]
    how = "add"
    if w.stratum == "redefrm" and rng.random() < 0.8:
        how = "readd"
    for _ in range(8):
        pool = linked if (linked and rng.random() < 0.85) else nodes
        if how == "readd":
            pool = [n for n in pool if n in w.runtime] or [n for n in nodes if n in w.runtime]
            if not pool:
                how = "add"
                continue
        elif rng.random() < 0.5:
            # both definition levels get their share: class-level and run-time names
            want_rt = rng.random() < 0.5
            sub = [n for n in pool if (n in w.runtime) == want_rt]
            pool = sub or pool
        if rng.random() < 0.6:
            lists = [n for n in pool if group_of[n[1]] == "list"]
            pool = lists or pool
        n = rng.choice(pool)
        g = group_of[n[1]]
        spec = rng.choice((READD_SPECS if how == "readd" else ADD_SPECS)[g])
        return ("redef", w.slot_of[n[0]], n[1], spec, how)
    return None
