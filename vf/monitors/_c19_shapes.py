"""C19 helper: the family of exception *shapes* a failing user callback may raise, and the
capture of the library's DEFAULT notification exception handling through the logging module
(a handler at the root of the logging hierarchy; no logger name of the library is assumed).

The quantifier of C19 says "raises (each of TraitError, ValueError, AttributeError,
RuntimeError)".  An exception of one of these classes is not only `E("message")`: it may carry no
argument, a non-string first argument (the wrapping idiom `raise RuntimeError(err)`), a tuple, an
exception instance, several arguments, a cause; it may be an instance of a standard subclass
(NotImplementedError, RecursionError incl. the one the interpreter really raises,
UnicodeDecodeError, DelegationError) or of a user subclass with a `__str__` that itself raises or
an `__init__` that hands nothing to `BaseException`.  Every maker below builds a FRESH instance per
injection (nothing is shared between injections, nothing is remembered by the harness).

`HOSTILE` is kept apart (own stratum, own key suffix): first arguments whose `==` raises or returns
something without a truth value (what a numpy array does).
"""
import logging
import sys

from traits.api import TraitError
from traits.trait_errors import DelegationError

BASES = (TraitError, ValueError, AttributeError, RuntimeError)
REC_MSG = "maximum recursion depth exceeded"


class Mk:
    """One exception shape: make(n, kind) -> fresh instance of `cls`."""
    def __init__(self, cls, family, group, shape, make):
        self.cls = cls
        self.family = family.__name__       # which of the four classes of the quantifier
        self.group = group                  # argument-shape class (counters / gates)
        self.shape = shape
        self.__name__ = cls.__name__
        self.label = "%s(%s)" % (cls.__name__, shape)
        self.make = make

    def __repr__(self):
        return "<exception shape %s>" % self.label


class StrSub(str):
    pass


class EqRaises:
    """`==` raises."""
    __hash__ = None

    def __eq__(self, other):
        raise KeyError("hostile __eq__")

    def __repr__(self):
        return "EqRaises()"


class _NoTruth:
    def __bool__(self):
        raise ValueError("The truth value of an array with more than one element is ambiguous")


class EqUnboolable:
    """`==` returns an object without a truth value (numpy arrays compare element-wise)."""
    __hash__ = None

    def __eq__(self, other):
        return _NoTruth()

    def __repr__(self):
        return "EqUnboolable()"


def _hostile_str(self):
    raise RuntimeError("hostile __str__")


def _kw_init(self, code=7, detail=("a", 1)):
    # hands nothing to BaseException.__init__: args == ()
    self.code = code
    self.detail = detail


def _kw_str(self):
    return "error %r: %r" % (self.code, self.detail)


HOSTILE_STR = {b: type("HostileStr" + b.__name__, (b,), {"__str__": _hostile_str}) for b in BASES}
CUSTOM_INIT = {b: type("CustomInit" + b.__name__, (b,), {"__init__": _kw_init, "__str__": _kw_str})
               for b in BASES}


def _real_recursion_error(n=0, kind=None):
    def f():
        f()
    try:
        f()
    except RecursionError as e:
        return e.with_traceback(None)
    raise AssertionError("no RecursionError")


def _args(group, shape, fn):
    return (group, shape, fn)


# (group, shape name, n, kind -> argument tuple)
ARG_SHAPES = [
    _args("noargs", "", lambda n, k: ()),
    _args("str", "str", lambda n, k: ("injected at tick %d (%s)" % (n, k),)),
    _args("str", "empty-str", lambda n, k: ("",)),
    _args("str", "str-subclass", lambda n, k: (StrSub("injected"),)),
    _args("non-str", "int", lambda n, k: (42,)),
    _args("non-str", "None", lambda n, k: (None,)),
    _args("non-str", "bytes", lambda n, k: (b"maximum recursion depth exceeded",)),
    _args("non-str", "object", lambda n, k: (object(),)),
    _args("non-str", "dict", lambda n, k: ({"code": 7},)),
    _args("tuple", "tuple", lambda n, k: (("feature", 7),)),
    _args("exception", "exception", lambda n, k: (OSError(2, "No such file or directory"),)),
    _args("several", "str,int", lambda n, k: ("injected", 7)),
    _args("several", "int,str", lambda n, k: (7, "injected")),
    _args("several", "three", lambda n, k: (None, ("a",), "x")),
]


def _plain(cls, fn):
    def make(n, kind):
        return cls(*fn(n, kind))
    return make


def _chained(cls, fn):
    def make(n, kind):
        e = cls(*fn(n, kind))
        e.__cause__ = OSError(2, "No such file or directory")
        return e
    return make


def _build():
    out = []
    for b in BASES:
        for group, shape, fn in ARG_SHAPES:
            out.append(Mk(b, b, group, shape, _plain(b, fn)))
        out.append(Mk(b, b, "chained", "str from OSError", _chained(b, ARG_SHAPES[1][2])))
        out.append(Mk(b, b, "chained", "int from OSError", _chained(b, ARG_SHAPES[4][2])))
        hs = HOSTILE_STR[b]
        for i in (0, 1, 4, 9):
            group, shape, fn = ARG_SHAPES[i]
            out.append(Mk(hs, b, "hostile-str", shape, _plain(hs, fn)))
        ci = CUSTOM_INIT[b]
        out.append(Mk(ci, b, "custom-init", "own attributes", lambda n, k, ci=ci: ci()))
    # standard subclasses
    for i in (0, 1, 4, 9, 10):
        group, shape, fn = ARG_SHAPES[i]
        out.append(Mk(NotImplementedError, RuntimeError, "subclass", shape, _plain(NotImplementedError, fn)))
    out.append(Mk(RecursionError, RuntimeError, "subclass", "raised by the interpreter", _real_recursion_error))
    out.append(Mk(RecursionError, RuntimeError, "subclass", "recursion message",
                  lambda n, k: RecursionError(REC_MSG)))
    out.append(Mk(RecursionError, RuntimeError, "subclass", "", lambda n, k: RecursionError()))
    out.append(Mk(RecursionError, RuntimeError, "subclass", "int", lambda n, k: RecursionError(42)))
    out.append(Mk(RuntimeError, RuntimeError, "str", "recursion message", lambda n, k: RuntimeError(REC_MSG)))
    out.append(Mk(RuntimeError, RuntimeError, "str", "recursion message with suffix",
                  lambda n, k: RuntimeError(REC_MSG + " while calling a Python object")))
    out.append(Mk(UnicodeDecodeError, ValueError, "subclass", "codec,bytes,int,int,str",
                  lambda n, k: UnicodeDecodeError("utf-8", b"\xff", 0, 1, "invalid start byte")))
    out.append(Mk(UnicodeEncodeError, ValueError, "subclass", "codec,str,int,int,str",
                  lambda n, k: UnicodeEncodeError("ascii", "\xe9", 0, 1, "ordinal not in range(128)")))
    out.append(Mk(AttributeError, AttributeError, "several", "str, name=, obj=",
                  lambda n, k: AttributeError("no attribute", name="x", obj=object())))
    out.append(Mk(DelegationError, TraitError, "subclass", "str", lambda n, k: DelegationError("injected")))
    out.append(Mk(DelegationError, TraitError, "subclass", "int", lambda n, k: DelegationError(42)))
    return out


CATALOGUE = _build()
GROUPS = sorted({m.group for m in CATALOGUE})


def plain(cls):
    """E("injected at tick n (kind)") -- the shape the fault enumeration has always used."""
    return Mk(cls, cls, "str", "str", _plain(cls, ARG_SHAPES[1][2]))


PLAIN = tuple(plain(b) for b in BASES)

HOSTILE = []
for _b in BASES + (NotImplementedError,):
    _fam = RuntimeError if _b is NotImplementedError else _b
    HOSTILE.append(Mk(_b, _fam, "eq-hostile", "== raises", lambda n, k, b=_b: b(EqRaises())))
    HOSTILE.append(Mk(_b, _fam, "eq-hostile", "== has no truth value", lambda n, k, b=_b: b(EqUnboolable())))
    HOSTILE.append(Mk(_b, _fam, "eq-hostile", "== raises, second argument", lambda n, k, b=_b: b("injected", EqRaises())))


def self_test():
    """Every maker builds an instance of its class and family (run once per process)."""
    for m in CATALOGUE + list(PLAIN) + HOSTILE:
        e = m.make(1, "self-test")
        if type(e) is not m.cls or not isinstance(e, BASES) or type(e).__name__ != m.__name__:
            raise AssertionError("exception shape %r builds %r" % (m, type(e)))
        e._vf_injected = True


# ---------------------------------------------------------------------------
# the library's default exception handling, observed through the logging module
# ---------------------------------------------------------------------------
class _Capture(logging.Handler):
    """Records (type name, is-the-injected-instance) of every exception the library logs; the
    record, the exception and its traceback are not kept."""

    def __init__(self, sink):
        logging.Handler.__init__(self, level=logging.NOTSET)
        self.sink = sink

    def emit(self, record):
        ei = record.exc_info
        if ei and ei[1] is not None:
            self.sink(ei[1])

    def handleError(self, record):      # never print
        pass


class _Console:
    """Stands in for sys.__stderr__ (the default handler's console fallback) and counts writes."""

    def __init__(self):
        self.writes = 0

    def write(self, s):
        self.writes += 1
        return len(s)

    def flush(self):
        pass


class DefaultHandling:
    """Context manager: NOTHING is pushed on either exception-handler stack of the library; whatever
    its default handlers log (any logger, observed at the root of the logging hierarchy) is delivered
    to `sink(exception)`, no other logging handler sees it, the console fallback (sys.__stderr__) is
    swallowed and counted."""

    def __init__(self, sink):
        self.sink = sink
        self.console = _Console()

    def __enter__(self):
        root = logging.getLogger()
        self.saved = (logging.root.manager.disable, list(root.handlers), root.level, sys.__stderr__)
        logging.disable(logging.NOTSET)
        self.h = _Capture(self.sink)
        root.handlers[:] = [self.h]
        root.setLevel(logging.WARNING)
        sys.__stderr__ = self.console
        return self

    def __exit__(self, *exc):
        root = logging.getLogger()
        dis, handlers, level, sys.__stderr__ = self.saved
        root.handlers[:] = handlers
        root.setLevel(level)
        logging.disable(dis)
        return False
