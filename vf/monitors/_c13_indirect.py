"""C13 stratum 'indirect': routes that reach an attribute name of an object
WITHOUT a plain getattr / setattr / delattr on that object.

The name is stored on (and therefore governed by the rules of) the object that
stores it, whichever way the access arrives:

* through a deferring trait of another object -- DelegatesTo / PrototypedFrom /
  Delegate(modify=...) in every prefix style of the manual (same name, renamed
  with prefix='target', 'head*' + delegator name, '*' + the delegator class's
  ``__prefix__``), listenable or not;
* trait_set / trait_setq / trait_set(trait_change_notify=False) / trait_get;
* sync_trait from another object (one-way / mutual): the initial copy and
  every forwarded change is an assignment to the name on the partner;
* observe(handler, name) / observe(handler, trait(name, optional=True)) /
  on_trait_change(handler, name) registered before any direct access;
* validate_trait(name, value), and unjudged look-ups (trait(), base_trait(),
  trait_names(), traits()) that make traits resolve the name first.

This module only builds the plumbing (view classes, sync sources, accessor
functions); the resolution model and all judging live in c13.py.
"""
from traits.api import (
    Any, ComparisonMode, Delegate, DelegatesTo, HasTraits, Instance, PrototypedFrom,
)
from traits.observation.api import trait as obs_trait

STYLES = ("same", "rename", "star", "classprefix")
DELEGATE_MODES = ("DelegatesTo", "Delegate-modify")
PROTOTYPE_MODES = ("PrototypedFrom", "Delegate")

_RESERVED = ("store", "trait_added", "trait_modified")


def usable_delegator_name(n):
    return (n.isidentifier() and not n.endswith("_") and not n.startswith("__")
            and n not in _RESERVED and not hasattr(HasTraits, n))


def plan_view(rng, target, others, modes):
    """Draw (mode, style, listenable, dname, prefix, class_prefix) for a view
    whose deferring trait `dname` lands on `target` of the object in `store`.
    `others`: candidate delegator names for the renaming style."""
    mode = rng.choice(modes)
    listenable = rng.random() < 0.5
    styles = list(STYLES)
    rng.shuffle(styles)
    # renaming styles twice as likely as the identity
    for style in styles + ["rename"]:
        if style == "same":
            if rng.random() < 0.5 or not usable_delegator_name(target):
                continue
            return (mode, style, listenable, target, "", None)
        if style == "rename":
            cands = [n for n in others if n != target and usable_delegator_name(n)]
            dname = rng.choice(cands) if cands and rng.random() < 0.7 else \
                rng.choice(("size", "dz", "w1", "_v"))
            if dname == target:
                dname = "dz9"
            return (mode, style, listenable, dname, target, None)
        cuts = [i for i in range(1, len(target)) if usable_delegator_name(target[i:])]
        if not cuts:
            continue
        cut = rng.choice(cuts)
        head, tail = target[:cut], target[cut:]
        if style == "star":
            return (mode, style, listenable, tail, head + "*", None)
        return (mode, style, listenable, tail, "*", head)
    raise AssertionError(target)


def make_view(tag, plan, store):
    """Realise a plan: -> (view object, delegator name)."""
    mode, style, listenable, dname, prefix, class_prefix = plan
    if mode == "DelegatesTo":
        t = DelegatesTo("store", prefix=prefix, listenable=listenable)
    elif mode == "Delegate-modify":
        t = Delegate("store", prefix=prefix, modify=True, listenable=listenable)
    elif mode == "PrototypedFrom":
        t = PrototypedFrom("store", prefix=prefix, listenable=listenable)
    else:
        t = Delegate("store", prefix=prefix, modify=False, listenable=listenable)
    ns = {"__module__": __name__, "store": Instance(HasTraits), dname: t}
    if class_prefix is not None:
        ns["__prefix__"] = class_prefix
    V = type(HasTraits)("View%s" % tag, (HasTraits,), ns)
    return V(store=store), dname


def via_label(plan):
    mode, style, listenable = plan[:3]
    fam = "delegate" if mode in DELEGATE_MODES else "prototype"
    return "%s-%s-%s" % (fam, style, "listenable" if listenable else "unlistenable")


def view_getter(view, dname):
    def get(obj, name):
        return getattr(view, dname)
    return get


def view_setter(view, dname):
    def set_(obj, name, value):
        setattr(view, dname, value)
    return set_


# -- trait_set / trait_get family ----------------------------------------------

def trait_set(obj, name, value):
    obj.trait_set(**{name: value})


def trait_setq(obj, name, value):
    obj.trait_setq(**{name: value})


def trait_set_quiet(obj, name, value):
    obj.trait_set(trait_change_notify=False, **{name: value})


def trait_get(obj, name):
    d = obj.trait_get(name)
    if name not in d:
        raise AttributeError(name)      # trait_get leaves unreadable names out
    return d[name]


def trait_get_list(obj, name):
    d = obj.trait_get([name])
    if name not in d:
        raise AttributeError(name)
    return d[name]


SETTERS = (("trait_set", trait_set), ("trait_setq", trait_setq),
           ("trait_set-quiet", trait_set_quiet))
GETTERS = (("trait_get", trait_get), ("trait_get-list", trait_get_list))


# -- sync_trait ------------------------------------------------------------------

class SyncSource(HasTraits):
    # every assignment is a change, whatever the values compare like
    v = Any(comparison_mode=ComparisonMode.none)


# -- registrations / look-ups as the first mention of a name ---------------------

def _h0():
    pass


def _h1(event):
    pass


def reg_observe(obj, name):
    obj.observe(_h1, name)


def reg_observe_optional(obj, name):
    obj.observe(_h1, obs_trait(name, optional=True))


def reg_observe_quiet(obj, name):
    obj.observe(_h1, obs_trait(name, notify=False, optional=True))


def reg_on_trait_change(obj, name):
    obj.on_trait_change(_h0, name)


def unreg_observe(obj, name):
    obj.observe(_h1, obs_trait(name, optional=True), remove=True)


REGISTRATIONS = (("observe", reg_observe), ("observe-optional", reg_observe_optional),
                 ("observe-quiet", reg_observe_quiet), ("on_trait_change", reg_on_trait_change))

PEEKS = (
    ("trait", lambda obj, name: obj.trait(name)),
    ("trait-force", lambda obj, name: obj.trait(name, force=True)),
    ("base_trait", lambda obj, name: obj.base_trait(name)),
    ("trait_names", lambda obj, name: name in obj.trait_names()),
    ("traits", lambda obj, name: name in obj.traits()),
    ("class_trait_names", lambda obj, name: name in obj.class_trait_names()),
)
