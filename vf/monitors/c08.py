"""C08 -- observe handlers track exactly the objects currently reachable.

Oracle: a from-scratch reachability model.  The expression is held as a small
AST of our own (parsed from the TEXT by `parse_text`, or generated and then
rendered to text AND to `trait(...)` objects); its denotation is a set of
paths of steps (kind, arg, notify, optional) which is interpreted over the
live object graph (values read from `__dict__`, trait names from the harness's
own schema) to give the set of notifying observables.  After every primitive
mutation the events each registered handler received are compared with what
the model demands, then a probe phase changes every Int trait of every pool
object (and inserts/removes a fresh node in containers) and compares again.

The model also computes the structural signature *multi-level observable*:
the set of depths (step indices) at which every observable is visited; the
signature holds when one observable is visited at two different depths with
one visit nested under the other (a cycle through the root along the
expression).  It is sticky per registration and history and is the first
component of the mechanism key (`multi-level/<escape:Exc|stale-hook|
missing-hook|...>`), cf. DESIGN.md section 4 C08 N, F15, F16.  A second, much
narrower signature (`set-equal-twin/...`) marks set operations whose argument
is equal to, hash-equal to, but not identical with a stored element; it can
only arise in the enumerated stratum 'e'.  A third (`unread-default-assign/...`)
marks an assignment to a trait whose observable constant default was never
read, when the default object is the assigned value itself or is reached along
another path; it is drawn only in the enumerated stratum 'm' (the random
generators reject it).  A fourth (`del-default-rehooked-twice/...`) marks
`del obj.name` / `reset_traits` of a trait that holds a value, whose default is
itself a node or container and below which something is observed; it is drawn
only in the strata 'x' (enumerated) and 'y' (random).  Every other disagreement is keyed
`<complaint>/<what was observed>/after:<class of the last structural op>`; container
mutators whose argument aliases a stored object (strata 'a' / 'b') have their own op
classes `aliased-arg-<list|dict|set|nested-outer>-mutation`.

Histories are concrete, replayable operation lists (indices into the pool,
reduced modulo the current length when applied), so that a ddmin shrinker can
drop operations while the same key still fires.
"""
import copy
import functools
import gc
import operator
import weakref

from traits.api import (Any, HasTraits, Int, Instance, List, Dict, Set, Str,
                        Undefined, Uninitialized)
import traits.api as _tapi
import traits.observation.api as oapi
from traits.trait_list_object import TraitList
from traits.trait_dict_object import TraitDict
from traits.trait_set_object import TraitSet

META = {
    "level": "exploration",
    "rule": ("a case is one primitive step (link/container assignment, list/dict/set mutation, "
             "first read of a default, add_trait, Int probe, fresh-node insertion/removal probe) of a "
             "generated history over a pool of 5-10 interlinked Node objects with 1-2 registered "
             "observe expressions (catalogue + typed random generator; registered as text, parse(text), "
             "structured trait(...) expression, flattened per-path expression, list, module-level "
             "observe(), apply_observers(compile_str/compile_expr)), judged per registered handler "
             "against the reachability model.  Strata: 't' acyclic pool graphs (random), 'c' cyclic pool "
             "graphs incl. cycles through the root (random), 'd' enumerated cycle-through-root patterns, "
             "'e' enumerated discard/remove of an equal twin from an observed set, 'm' enumerated "
             "multiplicity-changing list events (one event with the same object removed and added a "
             "different number of times, then one occurrence leaves) and observable constant defaults "
             "(materialised by a read after observe(), replaced, or assigned to themselves unread), "
             "'n' enumerated and 'r' random histories with a named dynamic trait (Int / Instance / "
             "List, added to every node before observe() and named by ordinary expressions) that is "
             "removed, added again under the same or another kind and used again, 'f' enumerated "
             "re-definitions (add_trait over an already defined class-level or dynamic name that holds "
             "a value on the path, then detaching ops; also a random op), 's' enumerated state "
             "snapshots (copy.copy / __getstate__() / trait_get() of a node whose defaults were never "
             "read, after observe(); also a random op), 'g' enumerated and 'k' random histories over "
             "containers nested in containers (dict of lists, list of lists, dict of sets, list of "
             "dicts of nodes) observed through `items.items` / dict_items().list_items(): inner "
             "containers enter by every in-place route (set, setdefault, update, |=, append, extend, "
             "+=, *=, slice assignment ...) applied to the container object held in a variable and as "
             "augmented assignment through the attribute, inner containers are mutated, probes insert a "
             "fresh inner container holding a fresh node; flat containers get the operator routes "
             "(|=, &=, -=, ^=, +=, *=) on the object and through the attribute in every stratum, 'l' "
             "enumerated list-of-expressions registrations whose members are then observed on their own "
             "by other handlers (also drawn at random), 'v' enumerated metadata VALUES (every history "
             "declares the tag/link metadata of class-level and later added traits with a value drawn from "
             "True / other truthy / False / 0 / '' / () / 0.0 / None - a metadata filter matches iff the "
             "value is not None; the values are also drawn at random in every random stratum), 'w' "
             "enumerated and 'o' random histories in which the observed root is dropped WITHOUT "
             "unregistering, collected, and a new root created right away (it usually gets the address of "
             "the dead one) takes over the long-lived shared sub-objects before or after observing the same "
             "expressions with the same still-alive handlers (plain functions and bound methods of a third "
             "object), 'x' enumerated and 'y' random histories with `del obj.name` / reset_traits([...]) of "
             "observed links, containers, nested containers and leaves (holding an assigned value, a "
             "materialised default or nothing; defaults that are None, constants, fresh nodes, a shared "
             "node, fresh containers) - the del/reset ops that do not re-materialise an observed object "
             "default are drawn in every random stratum, 'a' enumerated and 'b' random histories with container "
             "mutators whose ARGUMENT aliases what the container stores: dict pop(k, default) / setdefault / "
             "c[k] = v / get-then-set / update, |= with the default or value being the object stored under "
             "that very key, another stored object, an outsider present elsewhere in the graph (an equal twin "
             "in the all-equal flavour) or None, keys present and absent; update / |= with the dict itself, a "
             "copy, its own pairs, rotated values; list append / insert / c[i] = / remove / extend / += / "
             "slice assignment of stored objects, of the list itself, of its own slices (same, reversed, "
             "rotated, extended slices); set add / discard / remove of stored objects and every in-place set "
             "operation with the set itself, a copy, or a stored element; `a.tr OP= a.tr` through the "
             "attribute; the same on the inner containers of containers and on the outer containers (whose "
             "stored objects are the inner containers, also an equal plain copy as argument); an object that "
             "left through such an op is put back and taken out again.  "
             "distinct_nontrivial "
             "counts distinct (stratum, step kind, method, expression shape, text/object form, all-equal "
             "flag, expected, observed) signatures of steps in which the model expected an event, an "
             "event was delivered, or a reachable observable was mutated silently (':' link, equal "
             "reassignment, default materialisation)."),
    "exhaustive_parts": ("stratum d: every (cycle-prone expression, first-step slot, way of closing the "
                         "cycle through the root, text/expr/paths form, observe before/after closing, "
                         "identity/all-equal nodes) combination; stratum e: 6 expressions x "
                         "discard/remove x 3 forms"),
    "phases": [{"name": "main", "flavour": "P", "shards": 16}],
    "gates": {
        "quick": {"evaluations": 300000, "probe_matched": 10000, "probe_silent": 200000,
                  "detached_silent": 4000, "container_events_matched": 12000,
                  "link_events_matched": 500, "quiet_link_silent": 3000, "equal_reassign_silent": 250,
                  "fresh_hooked": 2000, "fresh_unhooked": 2000, "default_reads": 200,
                  "added_trait_probes_matched": 100, "trait_added_events_matched": 8,
                  "dup_item_steps": 1200, "retired_container_checks": 6000,
                  "histories_acyclic": 500, "histories_cyclic": 200, "histories_directed": 200,
                  "multi_level_histories": 200, "cyclic_nonmulti_probe_checks": 30000,
                  "object_form_registrations": 500, "text_form_registrations": 500,
                  "reslice_ops": 90, "multiplicity_change_events": 50, "const_default_reads": 45,
                  "histories_multiplicity": 90, "histories_const_default": 80,
                  "histories_named_dynamic": 95, "histories_dynamic": 130, "remove_trait_ops": 350,
                  "remove_trait_reached": 150, "readd_ops": 300, "readd_reached": 150,
                  "readd_events_matched": 250, "redefine_ops": 500, "redefine_valued_on_path": 120,
                  "snapshot_ops": 500, "snapshot_default_reads": 220, "histories_redefine": 50,
                  "histories_snapshot": 44, "histories_nested": 130, "histories_routes": 120,
                  "nested_outer_ops": 600, "nested_inner_ops": 220, "attribute_route_ops": 450,
                  "nested_fresh_hooked": 1000, "nested_outer_probes": 6000,
                  "histories_list_form": 40, "list_form_multi": 70,
                  "histories_meta_values": 90, "falsy_meta_probes_matched": 2000,
                  "falsy_meta_added_matched": 300, "falsy_meta_link_events": 80,
                  "undefined_meta_silent": 2500,
                  "histories_reroot": 120, "histories_reroot_directed": 60, "reroot_ops": 400,
                  "reroot_same_address": 300, "reroot_shared_matched": 1000,
                  "reroot_bound_handler": 150, "reroot_populated_after": 100,
                  "histories_del": 100, "histories_del_directed": 70, "del_ops": 900, "reset_ops": 350,
                  "del_valued": 1200, "del_noop": 300, "del_events_matched": 300,
                  "del_default_rematerialised_observed": 120, "histories_del_rehook_pattern": 80,
                  "histories_alias": 300, "histories_alias_directed": 700, "alias_ops": 1300,
                  "alias_dict_ops": 400, "alias_list_ops": 450, "alias_set_ops": 270,
                  "alias_nested_inner_ops": 90, "alias_nested_outer_ops": 110, "alias_self_arg_ops": 65,
                  "alias_pop_default_is_stored": 190, "alias_arg_at": 320, "alias_arg_own": 500,
                  "alias_arg_outside": 75, "alias_arg_self": 140, "alias_arg_own_items": 220,
                  "alias_events_matched": 800, "alias_quiet_silent": 45, "alias_noop_ops": 300,
                  "alias_removed_stored": 500, "alias_left_silent": 850, "alias_left_matched": 200},
        "thorough": {"evaluations": 6000000, "probe_matched": 200000, "probe_silent": 4000000,
                     "detached_silent": 80000, "container_events_matched": 240000,
                     "link_events_matched": 10000, "quiet_link_silent": 60000,
                     "equal_reassign_silent": 5000, "fresh_hooked": 40000, "fresh_unhooked": 40000,
                     "default_reads": 4000, "added_trait_probes_matched": 2000,
                     "trait_added_events_matched": 160, "dup_item_steps": 24000,
                     "retired_container_checks": 120000, "histories_acyclic": 20000,
                     "histories_cyclic": 6500, "histories_directed": 200,
                     "multi_level_histories": 2500, "cyclic_nonmulti_probe_checks": 600000,
                     "object_form_registrations": 10000, "text_form_registrations": 10000,
                     "reslice_ops": 1200, "multiplicity_change_events": 300, "const_default_reads": 600,
                     "histories_multiplicity": 90, "histories_const_default": 80,
                     "histories_named_dynamic": 95, "histories_dynamic": 4000, "remove_trait_ops": 7000,
                     "remove_trait_reached": 1700, "readd_ops": 6000, "readd_reached": 1500,
                     "readd_events_matched": 4000, "redefine_ops": 12000,
                     "redefine_valued_on_path": 1800, "snapshot_ops": 12000,
                     "snapshot_default_reads": 4500, "histories_redefine": 50, "histories_snapshot": 44,
                     "histories_nested": 4000, "histories_routes": 120, "nested_outer_ops": 9000,
                     "nested_inner_ops": 2500, "attribute_route_ops": 12000, "nested_fresh_hooked": 20000,
                     "nested_outer_probes": 150000, "histories_list_form": 40, "list_form_multi": 900,
                     "histories_meta_values": 180, "falsy_meta_probes_matched": 35000,
                     "falsy_meta_added_matched": 2400, "falsy_meta_link_events": 900,
                     "undefined_meta_silent": 40000,
                     "histories_reroot": 4000, "histories_reroot_directed": 120, "reroot_ops": 8000,
                     "reroot_same_address": 6000, "reroot_shared_matched": 25000,
                     "reroot_bound_handler": 3000, "reroot_populated_after": 2500,
                     "histories_del": 3000, "histories_del_directed": 140, "del_ops": 30000,
                     "reset_ops": 12000, "del_valued": 40000, "del_noop": 10000,
                     "del_events_matched": 7000, "del_default_rematerialised_observed": 3000,
                     "histories_del_rehook_pattern": 1500,
                     "histories_alias": 9500, "histories_alias_directed": 1300, "alias_ops": 20000,
                     "alias_dict_ops": 6500, "alias_list_ops": 6500, "alias_set_ops": 3600,
                     "alias_nested_inner_ops": 1400, "alias_nested_outer_ops": 1400,
                     "alias_self_arg_ops": 2000, "alias_pop_default_is_stored": 2800,
                     "alias_arg_at": 5800, "alias_arg_own": 7400, "alias_arg_outside": 1500,
                     "alias_arg_self": 1100, "alias_arg_own_items": 2900, "alias_events_matched": 9500,
                     "alias_quiet_silent": 850, "alias_noop_ops": 5500, "alias_removed_stored": 7500,
                     "alias_left_silent": 14000, "alias_left_matched": 5500},
    },
    "assumptions": [
        "the reachability model (denotation of the mini-language over __dict__ values and the "
        "harness's own trait schema) is the specification",
        "Node.__eq__ is identity, or 'all nodes equal' in the all-equal flavour; handlers never raise",
        "unregistration, dispatch='ui' and failing registrations belong to C09",
        "remove_trait itself is outside the statement (it fires no event, enthought/traits#1047): "
        "it must be silent and un-match the name; what was hooked only through the removed trait is "
        "never again required to be silent, and failures while a required name is missing end the "
        "history without a verdict; a later add_trait of the name must be tracked again",
        "`del obj.name` compares by identity: when the default that comes back is equal to (but not "
        "identical with) the old value, one event or none is accepted; the hooks are judged by the probes",
        "a dropped root that does not die (something outside the graph holds it) ends the history "
        "without a verdict; address reuse by the replacement root is CPython allocator behaviour, "
        "helped by up to 6 allocation attempts and gated (reroot_same_address)",
    ],
    "case_timeout": 300,
}

# ---------------------------------------------------------------------------
# harness classes and schema
# ---------------------------------------------------------------------------


class Node(HasTraits):
    ser = Int(transient=True)
    value = Int
    m1 = Int(tag=True)
    child = Instance("Node", link=True)
    other = Instance("Node", link=True)
    lazy = Instance("Node")
    # link with a CONSTANT default: every history derives its own subclass whose
    # `cdef` default is a shared node of that history (World.__init__), so the
    # default that a first read materialises is itself an observable object
    cdef = Instance("Node")
    children = List(Instance("Node"))
    cmap = Dict(Str, Instance("Node"))
    cset = Set(Instance("Node"))
    # containers nested in containers (the items of the inner ones are nodes)
    groups = Dict(Str, List(Instance("Node")))
    rows = List(List(Instance("Node")))
    dsets = Dict(Str, Set(Instance("Node")))
    ldicts = List(Dict(Str, Instance("Node")))

    def _lazy_default(self):
        return type(self)(ser=-1)

    def __repr__(self):
        return "n%d" % self.__dict__.get("ser", -1)

    def __hash__(self):
        # serial, not address: set iteration order (and so `pop()`) replays
        return hash(self.__dict__.get("ser", -1))


class EqNode(Node):
    """All nodes compare equal (stresses every equality filter on the way).
    The hash stays distinct per node (its serial), so that sets keep telling
    the nodes apart: what a `set` holding equal-but-distinct elements contains
    *by identity* is not defined by the set abstraction itself (CPython's
    `s &= t` may swap an element for its twin)."""

    def __eq__(self, other):
        return isinstance(other, Node)

    def __ne__(self, other):
        return not isinstance(other, Node)

    __hash__ = Node.__hash__


class TwinNode(EqNode):
    """Equal AND hash-equal nodes ("twins"): only used by the small enumerated
    stratum 'e' on `discard`/`remove`, whose meaning is unambiguous (the
    stored element equal to the argument leaves the set)."""

    def __hash__(self):
        return 1


CLASS_TRAITS = ("ser", "value", "m1", "child", "other", "lazy", "cdef", "children", "cmap", "cset",
                "groups", "rows", "dsets", "ldicts", "trait_added", "trait_modified")
CLASS_META = {"m1": ("tag",), "child": ("link",), "other": ("link",), "ser": ("transient",)}
LINKS = ("child", "other", "lazy", "cdef")
CONTS = {"children": "list", "cmap": "dict", "cset": "set"}
NESTED = {"groups": ("dict", "list"), "rows": ("list", "list"), "dsets": ("dict", "set"),
          "ldicts": ("list", "dict")}           # name -> (outer kind, inner kind)
INTS = ("value", "m1")
# traits the histories may add to single instances: name -> (kind, metadata names)
# (the kind is the one the name is first added with; a removed trait may come back
# under the same name with another kind, World.added holds the current one)
ADDABLE = {"x0": ("int", ("tag",)), "y0": ("int", ()), "items": ("link", ("link",)),
           # named dynamic traits of the 'dyn' histories: they exist (add_trait) on every node
           # before observe(), so that ordinary non-optional expressions can name them
           "xint": ("int", ()), "xlink": ("link", ()), "xlist": ("list", ())}
DYN_NAMES = ("xint", "xlink", "xlist")
# metadata VALUES: a metadata filter matches a trait that DEFINES the metadata (value is not
# None), whatever the value; every history draws the value of each slot below from this table
# (spec["mvals"] = {slot: index}; absent = True).  Indices 3..7 are defined-but-falsy, 8 undefined.
META_VALUES = (True, 1, "x", False, 0, "", (), 0.0, None)
META_SLOTS = {"m1": "tag", "child": "link", "other": "link", "x0": "tag", "items": "link"}
KEYS = ("x", "y", "z")
MISSING = object()
SKIP = (None, Undefined, Uninitialized, MISSING)
CONT_CLS = {"list": TraitList, "dict": TraitDict, "set": TraitSet}


def make_added_trait(name, kind=None, mvals=None):
    mvals = mvals or {}
    if name == "x0":
        return Int(tag=mvals.get("x0", True))
    if name == "y0":
        return Int()
    if name == "items":
        return Instance(Node, link=mvals.get("items", True))
    kind = kind or ADDABLE[name][0]
    return Int() if kind == "int" else Instance(Node) if kind == "link" else List(Instance(Node))


REDEFINABLE = ("value", "m1", "child", "other", "children", "cmap", "cset")


def make_redefinition(name, kind=None, mvals=None):
    """Same-kind definition for add_trait over an already defined name (keeps
    the metadata the harness schema knows about, values included)."""
    mvals = mvals or {}
    if name == "value":
        return Int()
    if name == "m1":
        return Int(tag=mvals.get("m1", True))
    if name in ("child", "other"):
        return Instance(Node, link=mvals.get(name, True))
    if name == "children":
        return List(Instance(Node))
    if name == "cmap":
        return Dict(Str, Instance(Node))
    if name == "cset":
        return Set(Instance(Node))
    return make_added_trait(name, kind, mvals)


def _ckind(c):
    return "list" if isinstance(c, TraitList) else "dict" if isinstance(c, TraitDict) else \
        "set" if isinstance(c, TraitSet) else None


# ---------------------------------------------------------------------------
# expression AST: parser (text -> AST), denotation, renderers
# ---------------------------------------------------------------------------
# ('name', n) ('opt', n) ('meta', m) ('any',) ('items',) ('list_items', optional)
# ('dict_items', optional) ('set_items', optional) ('par', [ast...]) ('ser', l, conn, r)


class ExprSyntaxError(ValueError):
    pass


def _tokenize(text):
    toks, i, n = [], 0, len(text)
    while i < n:
        ch = text[i]
        if ch.isspace():
            i += 1
        elif ch in ".:,[]+*":
            toks.append(ch)
            i += 1
        elif ch.isalpha() or ch == "_":
            j = i + 1
            while j < n and (text[j].isalnum() or text[j] == "_"):
                j += 1
            toks.append(("NAME", text[i:j]))
            i = j
        else:
            raise ExprSyntaxError("bad character %r" % ch)
    return toks


def parse_text(text):
    """Recursive descent for the observe mini-language (series left-assoc,
    `*` only in terminal position, `items` keyword)."""
    toks = _tokenize(text)
    pos = [0]

    def peek():
        return toks[pos[0]] if pos[0] < len(toks) else None

    def take():
        t = peek()
        pos[0] += 1
        return t

    def element():
        t = take()
        if t is None:
            raise ExprSyntaxError("unexpected end")
        if isinstance(t, tuple):
            return ("items",) if t[1] == "items" else ("name", t[1])
        if t == "+":
            t2 = take()
            if not isinstance(t2, tuple):
                raise ExprSyntaxError("name expected after +")
            return ("meta", t2[1])
        if t == "[":
            inner = parallel(False)
            if take() != "]":
                raise ExprSyntaxError("] expected")
            return inner
        raise ExprSyntaxError("unexpected %r" % (t,))

    def series(terminal):
        if peek() == "*":
            if not terminal:
                raise ExprSyntaxError("* not terminal")
            take()
            if peek() in (".", ":"):
                raise ExprSyntaxError("* not terminal")
            return ("any",)
        ast = element()
        while peek() in (".", ":"):
            conn = take()
            if peek() == "*":
                if not terminal:
                    raise ExprSyntaxError("* not terminal")
                take()
                if peek() in (".", ":"):
                    raise ExprSyntaxError("* not terminal")
                return ("ser", ast, conn, ("any",))
            ast = ("ser", ast, conn, element())
        return ast

    def parallel(terminal):
        items = [series(terminal)]
        while peek() == ",":
            take()
            items.append(series(terminal))
        return items[0] if len(items) == 1 else ("par", items)

    ast = parallel(True)
    if peek() is not None:
        raise ExprSyntaxError("trailing %r" % (peek(),))
    return ast


def den(ast, notify=True):
    """Denotation: list of paths; a path is a list of (kind, arg, notify, optional)."""
    k = ast[0]
    if k == "name":
        return [[("trait", ast[1], notify, False)]]
    if k == "opt":
        return [[("trait", ast[1], notify, True)]]
    if k == "meta":
        return [[("meta", ast[1], notify, False)]]
    if k == "any":
        return [[("any", None, notify, False)]]
    if k == "items":
        return [[("trait", "items", notify, True)], [("dict", None, notify, True)],
                [("list", None, notify, True)], [("set", None, notify, True)]]
    if k in ("list_items", "dict_items", "set_items"):
        return [[(k[:-6], None, notify, ast[1])]]
    if k == "par":
        return [p for a in ast[1] for p in den(a, notify)]
    if k == "ser":
        _, left, conn, right = ast
        return [pl + pr for pl in den(left, conn == ".") for pr in den(right, notify)]
    raise AssertionError(ast)


def dedupe_paths(paths):
    out, seen = [], set()
    for p in paths:
        t = tuple(p)
        if t not in seen:
            seen.add(t)
            out.append(p)
    return out


def has_object_only(ast):
    k = ast[0]
    if k in ("opt", "list_items", "dict_items", "set_items"):
        return True
    if k == "par":
        return any(has_object_only(a) for a in ast[1])
    if k == "ser":
        return has_object_only(ast[1]) or has_object_only(ast[3])
    return False


def render(ast, top=True):
    k = ast[0]
    if k == "name":
        return ast[1]
    if k == "meta":
        return "+" + ast[1]
    if k == "any":
        return "*"
    if k == "items":
        return "items"
    if k == "par":
        inner = ",".join(render(a, False) for a in ast[1])
        return inner if top else "[" + inner + "]"
    if k == "ser":
        return render(ast[1], False) + ast[2] + render(ast[3], False)
    raise AssertionError("not renderable as text: %r" % (ast,))


def describe_ast(ast, notify=True):
    """Python source of the structured expression (for witnesses)."""
    k = ast[0]
    nf = "" if notify else ", notify=False"
    if k == "name":
        return "trait(%r%s)" % (ast[1], nf)
    if k == "opt":
        return "trait(%r%s, optional=True)" % (ast[1], nf)
    if k == "meta":
        return "metadata(%r%s)" % (ast[1], nf)
    if k == "any":
        return "anytrait(%s)" % nf[2:]
    if k == "items":
        return "ITEMS(%s)" % nf[2:]
    if k in ("list_items", "dict_items", "set_items"):
        return "%s(notify=%r, optional=%r)" % (k, notify, ast[1])
    if k == "par":
        return "(" + " | ".join(describe_ast(a, notify) for a in ast[1]) + ")"
    return "%s.then(%s)" % (describe_ast(ast[1], ast[2] == "."), describe_ast(ast[3], notify))


def build(ast, notify=True):
    """Structured ObserverExpression through the public API."""
    k = ast[0]
    if k == "name":
        return oapi.trait(ast[1], notify=notify)
    if k == "opt":
        return oapi.trait(ast[1], notify=notify, optional=True)
    if k == "meta":
        return oapi.metadata(ast[1], notify=notify)
    if k == "any":
        return oapi.anytrait(notify=notify)
    if k == "items":
        return (oapi.trait("items", notify=notify, optional=True)
                | oapi.dict_items(notify=notify, optional=True)
                | oapi.list_items(notify=notify, optional=True)
                | oapi.set_items(notify=notify, optional=True))
    if k in ("list_items", "dict_items", "set_items"):
        return getattr(oapi, k)(notify=notify, optional=ast[1])
    if k == "par":
        return functools.reduce(lambda a, b: a | b, [build(a, notify) for a in ast[1]])
    if k == "ser":
        _, left, conn, right = ast
        lexp = build(left, conn == ".")
        rk = right[0]
        # method-chaining spelling where the public API offers one
        if rk == "name":
            return lexp.trait(right[1], notify=notify)
        if rk == "meta":
            return lexp.metadata(right[1], notify=notify)
        if rk == "any":
            return lexp.anytrait(notify=notify)
        if rk in ("list_items", "dict_items", "set_items"):
            return getattr(lexp, rk)(notify=notify, optional=right[1])
        return lexp.then(build(right, notify))
    raise AssertionError(ast)


def build_step(step):
    kind, arg, notify, optional = step
    if kind == "trait":
        return oapi.trait(arg, notify=notify, optional=optional)
    if kind == "meta":
        return oapi.metadata(arg, notify=notify)
    if kind == "any":
        return oapi.anytrait(notify=notify)
    return getattr(oapi, kind + "_items")(notify=notify, optional=optional)


def build_paths(paths):
    """Flattened spelling: one series per path of the denotation, or-ed."""
    exprs = []
    for p in paths:
        e = build_step(p[0])
        for st in p[1:]:
            e = e.then(build_step(st))
        exprs.append(e)
    # balanced or-tree: a left-leaning chain of hundreds of alternatives would only
    # test the interpreter's recursion limit inside compile_expr
    while len(exprs) > 1:
        exprs = [exprs[j] | exprs[j + 1] if j + 1 < len(exprs) else exprs[j]
                 for j in range(0, len(exprs), 2)]
    return exprs[0]


MAX_FLAT_PATHS = 64


def shape_of(paths):
    """Coarse expression shape for signatures: step kinds + notify marks of the
    longest path, number of paths class."""
    p = max(paths, key=len)[:5]
    s = "".join({"trait": "t", "meta": "m", "any": "a", "list": "L", "dict": "D", "set": "S"}[st[0]]
                + ("" if st[2] else "'") + ("?" if st[3] else "") for st in p)
    return s + ("|" if len(paths) > 4 else "")


# ---------------------------------------------------------------------------
# catalogue and typed generator
# ---------------------------------------------------------------------------
CATALOGUE = [
    "value", "child.value", "child:value", "children.items.value", "children:items:value",
    "children.items.child.value", "[child,other].value", "cmap.items.value", "cset.items.value",
    "lazy.value", "+tag", "child.+tag", "*", "child.*", "children.items.*",
    "children.items.children.items.value", "children.items", "children:items", "cmap.items",
    "cset.items", "child", "children", "child.children", "lazy.+tag", "lazy.lazy.value",
    "child.children.items.value", "children.items:value", "cmap:items.value", "cset.items:m1",
    "+link.value", "+link:+tag", "child.items.value", "child.value, other.*",
    "children.items.[value,m1]", "[child.children,other.children].items.value",
    "child.cmap.items.cset.items.value", "other.lazy.children.items.+tag",
    "cdef.value", "cdef:value", "child.cdef.value", "cdef.children.items.value", "cdef.*",
    "cdef.+tag", "[child,cdef].value", "children.items.cdef:value", "cdef.cdef.value",
]
# expressions that repeat a trait name, so that a cycle through the root puts
# one observable at two depths (the separate stratum of DESIGN 2.2)
CYCLE_PRONE = [
    "children.items.children.items.value", "[child,other].other:value", "child.child.value",
    "other.other:value", "cmap.items.cmap.items.value", "cset.items.cset.items.value",
    "lazy.lazy.value", "child.children.items.child.value", "child:child.value",
    "children:items.children.items:value", "child.child.*", "child.child.+tag",
    "children.items.children.items", "[child,other].[child,other].value",
    "child.child.child.value", "+link.+link.value", "children.items.children",
    "cmap.items.child.cmap.items.value",
]
OBJECT_ONLY = [
    ("ser", ("ser", ("name", "children"), ".", ("list_items", False)), ".", ("name", "value")),
    ("ser", ("ser", ("name", "cmap"), ".", ("dict_items", False)), ":", ("name", "value")),
    ("ser", ("ser", ("name", "cset"), ":", ("set_items", False)), ".", ("name", "value")),
    ("opt", "x0"),
    ("ser", ("name", "child"), ".", ("opt", "x0")),
    ("ser", ("ser", ("name", "children"), ".", ("list_items", True)), ".", ("opt", "y0")),
    ("ser", ("name", "children"), ".", ("list_items", False)),
    ("ser", ("ser", ("name", "child"), ".", ("opt", "items")), ".", ("name", "value")),
]


def gen_expr(rng, maxdepth, cyc):
    conts = list(CONTS)

    def conn():
        return rng.choice("..:")

    def leaf(in_par=False):
        r = rng.random()
        if r < 0.32:
            return ("name", "value")
        if r < 0.40:
            return ("name", "m1")
        if r < 0.50:
            return ("par", [("name", "value"), ("name", "m1")])
        if r < 0.63:
            return ("meta", "tag")
        if r < 0.76:
            return ("any",)
        if r < 0.83:
            return ("name", rng.choice(LINKS))
        if r < 0.94:
            return ("ser", ("name", rng.choice(conts)), conn(), ("items",))
        return ("name", rng.choice(conts))

    prev = [None]

    def link():
        r = rng.random()
        if cyc and prev[0] is not None and r < 0.55:
            return prev[0]
        if r < 0.42:
            lk = ("name", rng.choice(LINKS))
        elif r < 0.52:
            lk = ("par", [("name", "child"), ("name", "other")])
        elif r < 0.58:
            lk = ("meta", "link")
        elif r < 0.61:
            lk = ("items",)
        else:
            lk = ("ser", ("name", rng.choice(conts)), conn(), ("items",))
        prev[0] = lk
        return lk

    def node(depth):
        if depth >= maxdepth or (depth > 0 and rng.random() < 0.25):
            return leaf()
        return ("ser", link(), conn(), node(depth + 1))

    ast = node(0)
    if rng.random() < 0.12:
        prev[0] = None
        ast = ("par", [ast, node(0)])
    return ast


# ---------------------------------------------------------------------------
# the world: pool, registrations, model, primitive steps with their oracle
# ---------------------------------------------------------------------------


class Complaint(Exception):
    """what = complaint family (stale-hook: delivered although the model says
    none; missing-hook: not delivered; double-delivery; escape:<Exc>; ...),
    kind = what was being observed (leaf, link, container, default-read,
    trait-added)."""

    def __init__(self, what, msg, extra=None, kind=None):
        Exception.__init__(self, what)
        self.what = what
        self.kind = kind
        self.msg = msg
        self.extra = extra or {}


class Illegal(Exception):
    """The graph left the domain of the expression (a required trait or
    container is missing): the history ends without a verdict."""


class RegModel:
    __slots__ = ("notif", "depths", "nested", "error", "nested_keys", "visits", "degraded", "falsy",
                 "inner")

    def __init__(self):
        self.notif = set()
        self.depths = {}
        self.nested = False
        self.error = False
        self.nested_keys = set()
        self.visits = {}           # key -> number of walk visits (path multiplicity)
        self.degraded = False      # a required trait was taken away by remove_trait
        self.falsy = set()         # keys matched through (or below) a metadata step whose value is falsy
        self.inner = set()         # keys visited at a non-last step (something is hooked below them)


class Recorder:
    """Owner of a bound-method handler (exercises the WeakMethod branch)."""

    def __init__(self, log, idx):
        self.log = log
        self.idx = idx

    def handle(self, event):
        self.log.append((self.idx, event))


class Reg:
    __slots__ = ("idx", "root", "spec", "paths", "handler", "owner", "shape", "has_meta")


class NullSink:
    """Counter sink used while shrinking / outside a ctx."""

    def count(self, name, n=1):
        pass

    def ev(self, n=1):
        pass

    def sig(self, *parts):
        pass


CHANNEL = []          # exceptions routed to the two exception-handler channels


def _legacy_exc(obj, name, old, new):
    import sys
    CHANNEL.append(("legacy", name, repr(sys.exc_info()[1])[:200]))


def _observer_exc(event):
    import sys
    CHANNEL.append(("observe", repr(sys.exc_info()[1])[:200]))


TEXT_FORMS = ("text", "parse", "list", "graphs")
OBJECT_FORMS = ("expr", "paths", "func", "cgraphs")


class World:
    def __init__(self, spec, sink):
        self.spec = spec
        self.sink = sink
        self.alleq = bool(spec["alleq"])
        base = TwinNode if spec["alleq"] == "twin" else EqNode if self.alleq else Node
        self.twin = False
        # the shared node is the constant default of `cdef` for every node of this
        # history: either a subclass overriding the inherited Instance trait's default by
        # plain assignment, or a redefinition as Any(<instance>)
        self.shared = base(ser=spec["npool"])
        self.cflavour = spec.get("cflavour", "override")
        # metadata values of this history (class-level slots are re-declared on the history's
        # class; the shared default node keeps the base class declarations, i.e. True)
        self.mvals = {s: META_VALUES[i] for s, i in (spec.get("mvals") or {}).items()}
        body = {"cdef": self.shared if self.cflavour == "override" else Any(self.shared),
                "__module__": __name__}
        if "m1" in self.mvals:
            body["m1"] = Int(tag=self.mvals["m1"])
        for s in ("child", "other"):
            if s in self.mvals:
                body[s] = Instance(Node, link=self.mvals[s])
        self.cls = type(base)("HNode", (base,), body)
        self.pool = [self.cls(ser=i) for i in range(spec["npool"])] + [self.shared]
        self.removed = {}          # id(node) -> names taken away by remove_trait
        self.tainted = set()       # ids of nodes whose hooks remove_trait left undefined
        self.tainted_conts = []    # containers in the same situation (kept alive)
        self.pending_readd = []    # [(pool index, name, kind)] removed, not yet re-added
        self.readded = set()       # (id(node), name) of traits that came back
        self.through_readd = set() # ids of nodes attached through a trait that came back
        self.dyn = spec.get("dyn")
        self.last_rep = None
        self.after_readd = None
        self.last_redef = None
        self.any_dyn_list = False
        self.retired_owner = {}    # id(retired container) -> (id(owner), trait name)
        self.selfdef = False       # sticky signature, see unread_default_assign
        self.delsig = False        # sticky signature, see del_rehook_pattern
        self.reroot_shared = set() # leaf keys of long-lived objects observed from a root that is gone
        self.alias_left = set()    # ids of nodes that left a container through an aliased-argument op
        self.alias_follow = []     # follow-up ops (stratum 'b'): put the object back, take it out again
        self.added = {}            # id(node) -> {name: kind}
        self.retired = []          # [(label, kind, container, kind of its items if containers)]
        self.regs = []
        self.log = []
        self.models = []
        self.multi = False
        self.multi_info = []
        self.multi_regs = set()    # registrations that ever had a multi-level observable
        self.was_cyclic = False
        self.ever = []
        self.nstep = 0
        self.temp = []
        self.opclass = "start"
        self.stratum = spec.get("stratum", "t")
        if self.dyn:
            for n in self.pool:
                self._give_dyn(n)

    def _give_dyn(self, n):
        """Named dynamic trait of a 'dyn' history: present on every node (pool,
        shared default, probe nodes) from the start, i.e. before observe()."""
        name, kind = self.dyn["name"], self.dyn["kind"]
        n.add_trait(name, make_added_trait(name, kind, self.mvals))
        self.added.setdefault(id(n), {})[name] = kind
        if kind == "list":
            self.any_dyn_list = True

    # -- schema ------------------------------------------------------------
    def has(self, obj, name):
        if not isinstance(obj, Node):
            return False
        return name in CLASS_TRAITS or name in self.added.get(id(obj), ())

    def cont_kind(self, obj, name):
        """Container kind of trait `name` of `obj` (None for links and ints)."""
        if name in CONTS:
            return CONTS[name]
        if name in NESTED:
            return NESTED[name][0]
        return "list" if self.added.get(id(obj), {}).get(name) == "list" else None

    def links_of(self, n):
        return [(nm, v) for nm, v in n.__dict__.items() if isinstance(v, Node)]

    def conts_of(self, n):
        return [(nm, _ckind(c), c) for nm, c in n.__dict__.items() if _ckind(c)]

    def all_conts(self, n):
        """(label, kind, container, inner kind or None) incl. the inner containers of
        the nested traits; inner kind is set for an outer container whose items are
        containers."""
        out = []
        for nm, kd, c in self.conts_of(n):
            if nm in NESTED:
                out.append(("%r.%s" % (n, nm), kd, c, NESTED[nm][1]))
                for key, inner in (c.items() if kd == "dict" else enumerate(c)):
                    if _ckind(inner):
                        out.append(("%r.%s[%r]" % (n, nm, key), _ckind(inner), inner, None))
            else:
                out.append(("%r.%s" % (n, nm), kd, c, None))
        return out

    def names(self, obj, kind, arg):
        ad = self.added.get(id(obj), {})
        if kind == "any":
            # a dynamic List trait brings its `<name>_items` event trait along
            return list(CLASS_TRAITS) + list(ad) + [n + "_items" for n, kd in ad.items() if kd == "list"]
        # a metadata filter matches the traits that DEFINE the metadata: value is not None
        out = [n for n in CLASS_TRAITS if arg in CLASS_META.get(n, ())
               and self.meta_value(obj, n) is not None]
        out += [n for n in ad if arg in ADDABLE[n][1] and self.meta_value(obj, n) is not None]
        return out

    def meta_value(self, obj, name):
        """Value the harness declared for the (only) metadata of trait `name` of `obj`."""
        if name in CLASS_TRAITS and type(obj) is not self.cls:
            return True
        return self.mvals.get(name, True)

    def int_names(self, obj):
        ad = self.added.get(id(obj), {})
        return list(INTS) + [n for n, kd in ad.items() if kd == "int"]

    def label(self, key):
        if key[0] == "t":
            for n in self.pool + self.temp:
                if id(n) == key[1]:
                    return "%r.%s" % (n, key[2])
            return "?.%s" % key[2]
        for n in self.pool + self.temp:
            for lab, _, c, _ in self.all_conts(n):
                if id(c) == key[1]:
                    return lab + "[]"
        for lab, _, c, _ in self.retired:
            if id(c) == key[1]:
                return lab
        return "?[]"

    # -- model -------------------------------------------------------------
    def compute(self, reg):
        m = RegModel()
        for path in reg.paths:
            self._walk(reg.root, path, 0, (), m)
        return m

    def _walk(self, obj, path, i, chain, m, fz=False):
        kind, arg, notify, opt = path[i]
        if kind == "trait":
            if self.has(obj, arg):
                obs = [(("t", id(obj), arg), obj)]
            elif opt:
                obs = []
            elif arg in self.removed.get(id(obj), ()):
                # remove_trait took a required dynamic trait away (silently, no event):
                # nothing is matched below it until the name is added again
                obs = []
                m.degraded = True
            else:
                m.error = True
                return
        elif kind in ("meta", "any"):
            if not isinstance(obj, Node):
                m.error = True
                return
            obs = [(("t", id(obj), n), obj) for n in self.names(obj, kind, arg)]
        else:
            if isinstance(obj, CONT_CLS[kind]):
                obs = [(("c", id(obj)), obj)]
            elif opt:
                obs = []
            else:
                m.error = True
                return
        last = i + 1 == len(path)
        for key, holder in obs:
            m.depths.setdefault(key, set()).add(i)
            m.visits[key] = m.visits.get(key, 0) + 1
            if key in chain:
                m.nested = True
                m.nested_keys.add(key)
            if notify:
                m.notif.add(key)
            fz1 = fz or (kind == "meta" and not self.meta_value(obj, key[2]))
            if fz1:
                m.falsy.add(key)
            if last:
                continue
            m.inner.add(key)
            if key[0] == "t":
                v = holder.__dict__.get(key[2], MISSING)
                if any(v is s for s in SKIP):
                    continue
                nxt = [v]
            elif isinstance(holder, dict):
                nxt = list(holder.values())
            else:
                nxt = list(holder)
            sub = chain + (key,)
            for o in nxt:
                self._walk(o, path, i + 1, sub, m, fz1)

    def refresh(self):
        self.models = [self.compute(r) for r in self.regs]
        for k, m in enumerate(self.models):
            if m.nested:
                if not self.multi:
                    self.multi_info = sorted(
                        "%s@depths{%s}" % (self.label(x), ",".join(map(str, sorted(m.depths[x]))))
                        for x in m.nested_keys)[:6]
                self.multi = True
                self.multi_regs.add(k)
            self.ever[k].update(x for x in m.notif if x[0] == "t")
        return self.models

    # -- pool graph helpers --------------------------------------------------
    def edges(self, n):
        out = []
        for _, v in self.links_of(n):
            out.append(v)
        for _, _, c in self.conts_of(n):
            out.extend(_flat_nodes(c))
        return out

    def reaches(self, src, dst):
        seen, stack = set(), [src]
        while stack:
            n = stack.pop()
            if n is dst:
                return True
            if id(n) in seen:
                continue
            seen.add(id(n))
            stack.extend(self.edges(n))
        return False

    def graph_cyclic(self):
        for n in self.pool:
            for t in self.edges(n):
                if t is n or self.reaches(t, n):
                    return True
        return False

    def adopt(self):
        """Nodes created by traits itself (lazy defaults) join the pool."""
        for n in list(self.pool):
            v = n.__dict__.get("lazy")
            if isinstance(v, Node) and not any(v is p for p in self.pool) \
                    and not any(v is p for p in self.temp):
                v.__dict__["ser"] = len(self.pool)
                self.pool.append(v)

    def dump(self):
        out = {}
        for n in self.pool:
            d = n.__dict__
            ent = {}
            for tr in LINKS + ("items", "xlink"):
                if tr in d:
                    ent[tr] = repr(d[tr])
            for tr, _, c in self.conts_of(n):
                ent[tr] = repr(dict(c)) if isinstance(c, dict) else repr(sorted(c, key=repr)) \
                    if isinstance(c, set) else repr(list(c))
            if id(n) in self.added:
                ent["added"] = sorted("%s:%s" % kv for kv in self.added[id(n)].items())
            out[repr(n)] = ent
        return out

    # -- running one primitive ----------------------------------------------
    def _run(self, thunk):
        del self.log[:]
        del CHANNEL[:]
        try:
            thunk()
        except Exception as e:  # noqa: BLE001 - any escape is the observation
            return e
        return None

    def _post(self, exc, what, recompute=True):
        """After a primitive: adopt defaults, recompute the model, sticky
        signature, escapes.  Returns (M0, M1)."""
        m0 = self.models
        self.adopt()
        if recompute:
            m1 = self.refresh()
        else:
            m1 = m0
        self.nstep += 1
        if any(m.error for m in m0) or any(m.error for m in m1):
            raise Illegal()
        if exc is not None and (any(m.degraded for m in m0) or any(m.degraded for m in m1)):
            # while a required trait is missing (remove_trait fires no event, the statement
            # does not cover it) traits' own walks may legitimately fail
            raise Illegal()
        if exc is not None:
            raise Complaint("escape:" + type(exc).__name__,
                            "%s raised %s: %s" % (what, type(exc).__name__, str(exc)[:200]),
                            {"step": what})
        if CHANNEL:
            raise Complaint("exception-channel", "%s: exception routed to a handler channel: %r"
                            % (what, CHANNEL[:2]), {"step": what})
        return m0, m1

    def _events(self, k):
        return [e for (ri, e) in self.log if ri == k]

    def _sig(self, reg, stepkind, method, expected, got):
        self.sink.sig(self.stratum, stepkind, method, reg.shape,
                      reg.spec["form"] in TEXT_FORMS, self.alleq, expected, got)

    def _judge_trait(self, k, reg, what, obj, name, allowed, ckind, old_ok, new_ok, stepkind,
                     method=""):
        """Events of registration k after a primitive whose only possible
        subject is trait `name` of `obj`.  `ckind` = complaint kind."""
        evs = self._events(k)
        good = []
        for e in evs:
            if type(e) is oapi.TraitChangeEvent and e.object is obj and e.name == name:
                good.append(e)
            elif type(e) is oapi.TraitChangeEvent and e.name == name and max(allowed) >= 1:
                raise Complaint("wrong-event-object",
                                "%s: handler %d got an event for %r on %r, the changed object is %r"
                                % (what, k, name, e.object, obj), {"step": what, "reg": k})
            else:
                raise Complaint("spurious-event", "%s: handler %d got unrelated event %r"
                                % (what, k, e), {"step": what, "reg": k})
        self.sink.ev()
        n = len(good)
        if n not in allowed:
            c = "missing-hook" if n == 0 else "stale-hook" if max(allowed) == 0 else "double-delivery"
            raise Complaint(c, "%s: handler %d (%s on %r) received %d TraitChangeEvent(s) for %r.%s, "
                            "model expects %s" % (what, k, reg.spec["show"], reg.root, n, obj, name,
                                                  sorted(allowed)),
                            {"step": what, "reg": k, "got": n, "expected": sorted(allowed)}, ckind)
        if n == 1:
            e = good[0]
            if not old_ok(e.old):
                raise Complaint("wrong-event-old", "%s: handler %d event.old=%r is not the previous value"
                                % (what, k, e.old), {"step": what, "reg": k})
            if not new_ok(e.new):
                raise Complaint("wrong-event-new", "%s: handler %d event.new=%r is not the new value"
                                % (what, k, e.new), {"step": what, "reg": k})
        if n or max(allowed):
            self._sig(reg, stepkind, method, max(allowed), n)
        return n

    # -- primitive: Int probe -------------------------------------------------
    def do_probe(self, obj, name, tag="probe"):
        box = []
        exc = self._run(lambda: box.append(getattr(obj, name)))
        if exc is not None or self.log or CHANNEL:
            # reading an Int trait is legal and silent
            self._post(exc, "read %r.%s" % (obj, name), recompute=False)
            raise Complaint("stale-hook", "reading %r.%s delivered %r" % (obj, name, self.log[:2]),
                            {"step": "read %r.%s" % (obj, name)}, "default-read")
        cur = box[0]
        new = cur + 1
        what = "%s %r.%s = %d" % (tag, obj, name, new)
        key = ("t", id(obj), name)
        exc = self._run(lambda: setattr(obj, name, new))
        m0, _ = self._post(exc, what, recompute=False)
        nmatched = 0
        for k, reg in enumerate(self.regs):
            matched = key in m0[k].notif
            lenient = not matched and id(obj) in self.tainted
            self._judge_trait(k, reg, what, obj, name, {1} if matched else {0, 1} if lenient else {0},
                              "leaf",
                              lambda o: type(o) is int and o == cur,
                              lambda v: type(v) is int and v == new, tag, name if name in INTS
                              else "added")
            self.sink.count("probe_checks")
            if matched:
                self.sink.count("probe_matched")
                if name not in INTS:
                    self.sink.count("added_trait_probes_matched")
                if key in m0[k].falsy:
                    self.sink.count("falsy_meta_probes_matched")
                    if name not in INTS:
                        self.sink.count("falsy_meta_added_matched")
                if key in self.reroot_shared:
                    self.sink.count("reroot_shared_matched")
                if id(obj) in self.alias_left:
                    self.sink.count("alias_left_matched")
            else:
                self.sink.count("probe_silent")
                if id(obj) in self.alias_left and key in self.ever[k]:
                    self.sink.count("alias_left_silent")
                if key in self.ever[k]:
                    self.sink.count("detached_silent")
                if name in META_SLOTS and self.meta_value(obj, name) is None and reg.has_meta:
                    self.sink.count("undefined_meta_silent")
            if self.was_cyclic and not self.multi:
                self.sink.count("cyclic_nonmulti_probe_checks")
            nmatched += matched
            if matched and ((id(obj), name) in self.readded or id(obj) in self.through_readd):
                self.sink.count("readd_events_matched")
        return nmatched

    # -- primitive: assignment of a link / container trait --------------------
    def do_assign(self, obj, name, value):
        d = obj.__dict__
        old_present = name in d
        old = d.get(name)
        what = "%r.%s = %r" % (obj, name, value)
        key = ("t", id(obj), name)
        exc = self._run(lambda: setattr(obj, name, value))
        cur = d.get(name, MISSING)
        ck = self.cont_kind(obj, name)
        if ck and old_present and old is not cur and _ckind(old):
            self.retired.append(("old %r.%s#%d" % (obj, name, self.nstep), ck, old,
                                 NESTED[name][1] if name in NESTED else None))
            self.retired_owner[id(old)] = (id(obj), name)
            del self.retired[:-6]
        m0, m1 = self._post(exc, what)
        if (id(obj), name) in self.readded:
            for x in ([cur] if isinstance(cur, Node) else list(cur) if _ckind(cur) else []):
                self.through_readd.add(id(x))
        kind = "cont" if ck else "link"
        if old_present:
            fire = (old is not cur) and not _safe_eq(old, cur)

            def old_ok(o):
                return o is old
        elif kind == "cont":
            fire = len(cur) != 0

            def old_ok(o):
                return isinstance(o, CONT_CLS[ck]) and len(o) == 0
        elif name == "cdef" and type(obj) is self.cls:
            shared = self.shared
            fire = (cur is not shared) and not _safe_eq(shared, cur)

            def old_ok(o):
                return o is shared
        elif name == "lazy":
            fire = not (self.alleq and isinstance(cur, Node))

            def old_ok(o):
                return isinstance(o, Node) and not any(o is p for p in self.pool)
        else:
            fire = cur is not None

            def old_ok(o):
                return o is None
        for k, reg in enumerate(self.regs):
            n0, n1 = key in m0[k].notif, key in m1[k].notif
            if n0 != n1:
                allowed = {0, 1} if fire else {0}
            else:
                allowed = {1} if (n0 and fire) else {0}
            n = self._judge_trait(k, reg, what, obj, name, allowed, "link",
                                  old_ok, lambda v: v is cur, "assign-" + kind, name)
            if n:
                self.sink.count("link_events_matched")
                if (id(obj), name) in self.readded:
                    self.sink.count("readd_events_matched")
                if key in m0[k].falsy:
                    self.sink.count("falsy_meta_link_events")
            elif key in m0[k].depths and fire and not n0:
                self.sink.count("quiet_link_silent")
                self._sig(reg, "assign-" + kind, name, "quiet", 0)
            elif n0 and not fire:
                self.sink.count("equal_reassign_silent")
                self._sig(reg, "assign-" + kind, name, "equal", 0)

    # -- primitive: first read (default materialisation) ----------------------
    def do_read(self, obj, name):
        fresh = name not in obj.__dict__
        what = "read %r.%s" % (obj, name)
        exc = self._run(lambda: getattr(obj, name))
        m0, m1 = self._post(exc, what)
        key = ("t", id(obj), name)
        for k, reg in enumerate(self.regs):
            self._judge_trait(k, reg, what, obj, name, {0}, "default-read", None, None, "read", name)
            if fresh and key in m0[k].depths and name in obj.__dict__:
                self.sink.count("default_reads")
                if name == "cdef" and obj.__dict__["cdef"] is self.shared and max(m0[k].depths[key]) + 1 \
                        < max(len(p) for p in reg.paths):
                    self.sink.count("const_default_reads")
                self._sig(reg, "read", name, "materialised", 0)

    # -- primitive: add_trait --------------------------------------------------
    def do_add_trait(self, obj, name, kind=None):
        kind = kind or ADDABLE[name][0]
        what = "%r.add_trait(%r, <%s>)" % (obj, name, kind)
        key = ("t", id(obj), "trait_added")
        again = name in self.removed.get(id(obj), ())
        exc = self._run(lambda: obj.add_trait(name, make_added_trait(name, kind, self.mvals)))
        if exc is None:
            self.added.setdefault(id(obj), {})[name] = kind
            if kind == "list":
                self.any_dyn_list = True
            self.removed.get(id(obj), set()).discard(name)
            self.pending_readd = [x for x in self.pending_readd
                                  if not (self.node(x[0]) is obj and x[1] == name)]
            if again:
                self.readded.add((id(obj), name))
                self.sink.count("readd_ops")
        m0, m1 = self._post(exc, what)
        # a List trait is added together with its `<name>_items` event trait: two trait_added
        fired = 2 if kind == "list" else 1
        for k, reg in enumerate(self.regs):
            matched = key in m0[k].notif
            n = self._judge_trait(k, reg, what, obj, "trait_added", {fired} if matched else {0},
                                  "trait-added", lambda o: True, lambda v: v in (name, name + "_items"),
                                  "add_trait", name)
            if n:
                self.sink.count("trait_added_events_matched")
            if ("t", id(obj), name) in m1[k].depths:
                self.sink.count("added_trait_reached")
                if again:
                    self.sink.count("readd_reached")

    # -- primitive: add_trait over an already defined name (documented re-definition) ----
    def do_redefine(self, obj, name):
        """The name keeps its kind, value and notifiers: no trait_added, no change,
        nothing for any handler; the model is unchanged."""
        kind = self.added.get(id(obj), {}).get(name)
        what = "%r.add_trait(%r, <same kind>)  [re-definition]" % (obj, name)
        valued = name in obj.__dict__
        exc = self._run(lambda: obj.add_trait(name, make_redefinition(name, kind, self.mvals)))
        m0, m1 = self._post(exc, what)
        self.sink.count("redefine_ops")
        key = ("t", id(obj), name)
        for k, reg in enumerate(self.regs):
            self._judge_trait(k, reg, what, obj, name, {0}, "redefine", None, None, "redefine", name)
            if valued and key in m0[k].depths:
                self.sink.count("redefine_valued_on_path")
                self._sig(reg, "redefine", name, key in m0[k].notif, 0)
        if valued:
            self.last_redef = (obj, name)

    # -- primitive: state snapshot (copy.copy / __getstate__ / trait_get) ------------------
    def do_snapshot(self, obj, how):
        """Taking a snapshot reads every trait: it materialises the defaults
        that were never read exactly like the read ops, silently."""
        what = "%s of %r" % ({"copy": "copy.copy", "getstate": "__getstate__()",
                              "trait_get": "trait_get()"}[how], obj)
        unread = [nm for nm in LINKS + tuple(CONTS) + tuple(NESTED) + DYN_NAMES
                  if self.has(obj, nm) and nm not in obj.__dict__]
        keep = []
        if how == "copy":
            thunk = lambda: keep.append(copy.copy(obj))            # noqa: E731
        elif how == "getstate":
            thunk = lambda: keep.append(obj.__getstate__())        # noqa: E731
        else:
            thunk = lambda: keep.append(obj.trait_get())           # noqa: E731
        exc = self._run(thunk)
        for _ in range(3):
            self.adopt()
        m0, m1 = self._post(exc, what)
        self.sink.count("snapshot_ops")
        for k, reg in enumerate(self.regs):
            evs = self._events(k)
            self.sink.ev()
            if evs:
                raise Complaint("stale-hook", "%s: handler %d got %r" % (what, k, evs[:2]),
                                {"step": what, "reg": k}, "default-read")
            for nm in unread:
                if nm in obj.__dict__ and ("t", id(obj), nm) in m0[k].depths:
                    self.sink.count("snapshot_default_reads")
                    self._sig(reg, "snapshot", how, nm, 0)

    # -- primitive: remove_trait (outside the statement; the way to a second add) ------
    def do_remove_trait(self, obj, name):
        """remove_trait drops the instance trait, its value and its notifiers
        without any event (enthought/traits#1047), so whatever was hooked only
        through it is left in an undefined state: those nodes are *tainted*
        (never judged "must be silent" again, never used by the generators).
        What is judged: the removal itself is silent, the name is no longer
        matched, and a later add_trait of the name is tracked again."""
        what = "%r.remove_trait(%r)" % (obj, name)
        owners = {}
        for n in self.pool + self.temp:
            for _, _, c in self.conts_of(n):
                owners[id(c)] = n
        for lab, _, c, _ in self.retired:
            owners.setdefault(id(c), None)
        val = obj.__dict__.get(name)
        box = []
        exc = self._run(lambda: box.append(obj.remove_trait(name)))
        kind = self.added.get(id(obj), {}).pop(name, None)
        self.removed.setdefault(id(obj), set()).add(name)
        if _ckind(val):
            self.tainted_conts.append(val)
        for _, _, c, _ in self.retired:
            # its former values call back into the owner's (now missing) trait
            if self.retired_owner.get(id(c)) == (id(obj), name):
                self.tainted_conts.append(c)
        m0, m1 = self._post(exc, what)
        self.sink.count("remove_trait_ops")
        for k, reg in enumerate(self.regs):
            evs = self._events(k)
            self.sink.ev()
            if evs:
                raise Complaint("spurious-event", "%s: handler %d got %r" % (what, k, evs[:2]),
                                {"step": what, "reg": k})
            for key, cnt in m0[k].visits.items():
                if cnt > m1[k].visits.get(key, 0) and not (key[0] == "t" and key[1] == id(obj)
                                                          and key[2] in (name, name + "_items")):
                    if key[0] == "t":
                        self.tainted.add(key[1])
                    else:
                        own = owners.get(key[1])
                        if own is not None:
                            self.tainted.add(id(own))
            if ("t", id(obj), name) in m0[k].depths:
                self.sink.count("remove_trait_reached")
                self._sig(reg, "remove_trait", name, kind, 0)
        if box and box[0] is not True:
            raise Complaint("remove-trait-refused", "%s returned %r" % (what, box[0]), {"step": what})
        idx = [i for i, n in enumerate(self.pool) if n is obj]
        if idx:
            self.pending_readd.append((idx[0], name, kind))

    # -- primitive: container mutation ------------------------------------------
    def do_cont(self, c, kind, fn, what, method):
        before = _snap(c, kind)
        key = ("c", id(c))
        exc = self._run(lambda: fn(c))
        after = _snap(c, kind)
        if kind != "set":
            # inner containers that left a container of containers must stay silent from now on
            left_ = [x for x in (before.values() if kind == "dict" else before) if _ckind(x)
                     and not any(x is y for y in (after.values() if kind == "dict" else after))]
            for x in left_[:2]:
                self.retired.append(("old inner %s of %s#%d" % (_ckind(x), what.split(" ")[0], self.nstep),
                                     _ckind(x), x, None))
            del self.retired[:-6]
        m0, m1 = self._post(exc, what)
        changed = _ids(before, kind) != _ids(after, kind)
        evcls = {"list": oapi.ListChangeEvent, "dict": oapi.DictChangeEvent,
                 "set": oapi.SetChangeEvent}[kind]
        dup = kind == "list" and len(set(map(id, after))) < len(after)
        # a dynamically added List trait has a `<name>_items` event trait that `*` matches and
        # that the list fires while it is the trait's value: such an event is the list
        # mutation seen through that auxiliary trait; its firing rules are not part of the
        # statement, so at most one such event is tolerated and never required or forbidden
        items_key = None
        if self.any_dyn_list:
            for nd in self.pool + self.temp:
                for nm, _, c2 in self.conts_of(nd):
                    if c2 is c:
                        items_key = ("t", id(nd), nm + "_items")
        for k, reg in enumerate(self.regs):
            n0, n1 = key in m0[k].notif, key in m1[k].notif
            if n0 and n1:
                allowed = {1} if changed else {0, 1}
            elif n0 or n1:
                allowed = {0, 1}
            else:
                allowed = {0}
            good = []
            seen_items = 0
            for e in self._events(k):
                if type(e) in (oapi.ListChangeEvent, oapi.DictChangeEvent, oapi.SetChangeEvent) \
                        and e.object is c:
                    good.append(e)
                elif items_key and type(e) is oapi.TraitChangeEvent and id(e.object) == items_key[1] \
                        and e.name == items_key[2] and not seen_items:
                    seen_items += 1
                    self.sink.count("dyn_items_events")
                elif type(e) is evcls and max(allowed) >= 1:
                    raise Complaint("container-event-wrong-object",
                                    "%s: handler %d got %r, the mutated container is another object"
                                    % (what, k, e), {"step": what, "reg": k})
                else:
                    raise Complaint("spurious-event", "%s: handler %d got unrelated event %r"
                                    % (what, k, e), {"step": what, "reg": k})
            self.sink.ev()
            n = len(good)
            if n not in allowed:
                c_ = ("missing-hook" if n == 0 else
                      "stale-hook" if max(allowed) == 0 else "double-delivery")
                raise Complaint(c_, "%s: handler %d (%s on %r) received %d %s event(s), model expects %s "
                                "(reachable+notifying before=%s after=%s, contents changed=%s)"
                                % (what, k, reg.spec["show"], reg.root, n, kind, sorted(allowed), n0, n1,
                                   changed),
                                {"step": what, "reg": k, "got": n, "expected": sorted(allowed)},
                                "container")
            if n == 1:
                e = good[0]
                if type(e) is not evcls:
                    raise Complaint("container-event-wrong-type", "%s: handler %d got %s for a %s"
                                    % (what, k, type(e).__name__, kind), {"step": what, "reg": k})
                bad = _payload_complaint(kind, before, after, e)
                if bad:
                    raise Complaint("container-payload", "%s: handler %d event %r inconsistent with the "
                                    "mutation (%s): before=%r after=%r" % (what, k, e, bad, before, after),
                                    {"step": what, "reg": k})
                self.sink.count("container_events_matched")
                if method.startswith("a_"):
                    self.sink.count("alias_events_matched")
                    if not changed:
                        self.sink.count("alias_noop_events")
                if kind == "list":
                    ra, ad = list(map(id, e.removed)), list(map(id, e.added))
                    if any(ra.count(x) != ad.count(x) for x in set(ra) & set(ad)):
                        self.sink.count("multiplicity_change_events")
                self._sig(reg, "cont-" + kind, method, max(allowed), 1)
            elif key in m0[k].depths and changed:
                self.sink.count("quiet_link_silent")
                if method.startswith("a_"):
                    self.sink.count("alias_quiet_silent")
                self._sig(reg, "cont-" + kind, method, "quiet", 0)
            else:
                self.sink.count("container_silent")
            if dup and key in m0[k].depths:
                self.sink.count("dup_item_steps")

    # -- registration ------------------------------------------------------------
    def register(self, rs):
        if rs["root"] >= len(self.pool):
            return
        root = self.pool[rs["root"]]
        reg = Reg()
        reg.idx = len(self.regs)
        reg.root = root
        reg.spec = rs
        ast = rs["ast"]
        form = rs["form"]
        if form in TEXT_FORMS:
            # the denotation is computed from the TEXT that traits is given
            reg.paths = dedupe_paths(den(parse_text(rs["text"])))
        else:
            reg.paths = dedupe_paths(den(ast))
        reg.shape = shape_of(reg.paths)
        reg.has_meta = any(st[0] == "meta" for p_ in reg.paths for st in p_)
        if rs.get("bound"):
            reg.owner = Recorder(self.log, reg.idx)
            reg.handler = reg.owner.handle
        else:
            log, idx = self.log, reg.idx
            reg.owner = None

            def handler(event, log=log, idx=idx):
                log.append((idx, event))
            reg.handler = handler
        pre = self.compute(reg)
        what = "%r.observe(h%d, %s) [%s]" % (root, reg.idx, rs["show"], form)
        exc = self._run(lambda: self._observe(reg))
        if pre.error:
            # the expression demands a trait/container this graph does not
            # offer (documented ValueError); failure atomicity is C09's
            self.sink.count("registrations_rejected")
            raise Illegal()
        logged = list(self.log)
        self.regs.append(reg)
        self.ever.append(set())
        self.models = list(self.models) + [pre]
        self._post(exc, what)
        if logged:
            raise Complaint("event-during-registration", "%s delivered %r" % (what, logged[:2]),
                            {"step": what})
        self.sink.count("registrations")
        self.sink.count("text_form_registrations" if form in TEXT_FORMS else "object_form_registrations")
        self.sink.count("form_" + form)

    def _observe(self, reg):
        """The observe() call of a registration, on its current root."""
        rs, root, h = reg.spec, reg.root, reg.handler
        ast, form, text = rs["ast"], rs["form"], rs.get("text")
        if form == "text":
            root.observe(h, text)
        elif form == "parse":
            root.observe(h, oapi.parse(text))
        elif form == "list":
            parts = ast[1] if ast[0] == "par" else [ast]
            flip = 1 if rs.get("list_first") == "expr" else 0
            root.observe(h, [render(p) if (i + flip) % 2 == 0 else build(p)
                             for i, p in enumerate(parts)])
            if len(parts) > 1:
                self.sink.count("list_form_multi")
        elif form == "graphs":
            oapi.apply_observers(root, graphs=oapi.compile_str(text), handler=h,
                                 dispatcher=oapi.dispatch_same)
        elif form == "expr":
            root.observe(h, build(ast))
        elif form == "paths":
            root.observe(h, build_paths(reg.paths))
        elif form == "func":
            oapi.observe(root, build(ast), h)
        elif form == "cgraphs":
            oapi.apply_observers(root, graphs=oapi.compile_expr(build(ast)), handler=h,
                                 dispatcher=oapi.dispatch_same)
        else:
            raise AssertionError(form)

    # -- primitive: del obj.name / obj.reset_traits([names]) -----------------------------------
    def object_default(self, obj, name):
        """Is the default of trait `name` an object of the graph (node or container)?"""
        if name == "lazy":
            return True
        if name == "cdef":
            return type(obj) is self.cls
        return self.cont_kind(obj, name) is not None

    def del_rehook_pattern(self, op):
        """Structural signature `del-default-rehooked-twice`: `del obj.name` /
        `reset_traits` of a trait that holds a value, whose default is itself an object
        of the graph (node or container) and below which a registration observes
        something.  (The delete branch of setattr re-materialises the default through
        getattr, which notifies Uninitialized -> default, and then notifies old ->
        default: the maintainers hook the new default twice.)"""
        if op[0] not in ("del", "reset"):
            return False
        a = self.node(op[1])
        if a is None:
            return False
        for nm in ([op[2]] if op[0] == "del" else op[2]):
            if nm in a.__dict__ and self.has(a, nm) and self.object_default(a, nm) \
                    and any(("t", id(a), nm) in m.inner for m in self.models):
                return True
        return False

    def static_default(self, obj, name):
        """Default of a trait whose default is a constant that is not an object of the graph."""
        return 0 if name in self.int_names(obj) else None

    def do_del(self, obj, names, how):
        """`del obj.name` / `obj.reset_traits(names)`: every named trait that holds a value
        goes back to its default - a mutation of the link like an assignment of the
        default (a fresh default object for lazy / container traits).  Judged per name."""
        d = obj.__dict__
        olds = {nm: d[nm] for nm in names if nm in d}
        box = []
        if how == "del":
            what = "del %r.%s" % (obj, names[0])
            exc = self._run(lambda: delattr(obj, names[0]))
        else:
            what = "%r.reset_traits(%r)" % (obj, list(names))
            exc = self._run(lambda: box.append(obj.reset_traits(list(names))))
        for nm, old in olds.items():
            ck = self.cont_kind(obj, nm)
            if ck and _ckind(old) and d.get(nm) is not old:
                self.retired.append(("old %r.%s#%d" % (obj, nm, self.nstep), ck, old,
                                     NESTED[nm][1] if nm in NESTED else None))
                self.retired_owner[id(old)] = (id(obj), nm)
        del self.retired[:-6]
        m0, m1 = self._post(exc, what)
        self.sink.count("del_ops" if how == "del" else "reset_ops")
        if box and box[0]:
            raise Complaint("reset-refused", "%s returned %r" % (what, box[0]), {"step": what})
        for nm in names:
            if nm in olds:
                self.sink.count("del_valued")
                cur = d.get(nm, MISSING)
                if self.object_default(obj, nm) and cur is not MISSING and cur is not olds[nm]:
                    self.sink.count("del_default_rematerialised")
                    if any(("t", id(obj), nm) in m.inner for m in m0):
                        self.sink.count("del_default_rematerialised_observed")
            else:
                self.sink.count("del_noop")
        for k, reg in enumerate(self.regs):
            byname = {}
            for e in self._events(k):
                if type(e) is oapi.TraitChangeEvent and e.object is obj and e.name in names:
                    byname.setdefault(e.name, []).append(e)
                elif type(e) is oapi.TraitChangeEvent and e.name in names:
                    raise Complaint("wrong-event-object",
                                    "%s: handler %d got an event for %r on %r, the changed object is %r"
                                    % (what, k, e.name, e.object, obj), {"step": what, "reg": k})
                else:
                    raise Complaint("spurious-event", "%s: handler %d got unrelated event %r"
                                    % (what, k, e), {"step": what, "reg": k})
            for nm in names:
                key = ("t", id(obj), nm)
                n0, n1 = key in m0[k].notif, key in m1[k].notif
                self.sink.ev()
                cur = d.get(nm, MISSING)
                new = cur
                if cur is MISSING and not self.object_default(obj, nm):
                    new = self.static_default(obj, nm)
                if nm not in olds or olds[nm] is new:
                    allowed = {0}                     # nothing to reset / already the default
                elif n0 and n1:
                    # the delete branch compares by identity; an equal default may be "no change"
                    allowed = {0, 1} if (new is not MISSING and _safe_eq(olds[nm], new)) else {1}
                elif n0 or n1:
                    allowed = {0, 1}
                else:
                    allowed = {0}
                evs = byname.get(nm, [])
                n = len(evs)
                if n not in allowed:
                    c = "missing-hook" if n == 0 else "stale-hook" if max(allowed) == 0 else "double-delivery"
                    raise Complaint(c, "%s: handler %d (%s on %r) received %d TraitChangeEvent(s) for %r.%s, "
                                    "model expects %s" % (what, k, reg.spec["show"], reg.root, n, obj, nm,
                                                          sorted(allowed)),
                                    {"step": what, "reg": k, "got": n, "expected": sorted(allowed)}, "link")
                if n == 1:
                    e = evs[0]
                    if e.old is not olds[nm]:
                        raise Complaint("wrong-event-old", "%s: handler %d event.old=%r is not the previous "
                                        "value" % (what, k, e.old), {"step": what, "reg": k})
                    if new is not MISSING and not (e.new is new or (cur is MISSING and type(e.new) is type(new)
                                                                    and e.new == new)):
                        raise Complaint("wrong-event-new", "%s: handler %d event.new=%r is not the default "
                                        "now in place (%r)" % (what, k, e.new, new), {"step": what, "reg": k})
                    self.sink.count("del_events_matched")
                if n or max(allowed):
                    self._sig(reg, how, "obj" if self.object_default(obj, nm) else "const", max(allowed), n)
                elif nm in olds and key in m0[k].depths and not n0:
                    self.sink.count("quiet_link_silent")
                    self._sig(reg, how, nm, "quiet", 0)

    # -- primitive: the observed root is dropped (no unregistration) and replaced ----------------
    def _plain(self, v):
        if isinstance(v, dict):
            return {kk: self._plain(x) for kk, x in v.items()}
        if isinstance(v, set):
            return set(v)
        if isinstance(v, list):
            return [self._plain(x) for x in v]
        return v

    def root_referenced(self, idx):
        """Does anything of the graph (or a container the harness keeps) hold pool[idx]?"""
        old = self.pool[idx]
        for n in self.pool + self.temp:
            if n is not None and any(v is old for v in self.edges(n)):
                return True
        for c in [x[2] for x in self.retired] + list(self.tainted_conts):
            if any(v is old for v in _flat_nodes(c)):
                return True
        return False

    def do_reroot(self, idx, mode):
        """The root of one or more registrations is dropped WITHOUT unregistering and
        collected; a fresh root is created right away (CPython hands the address of the
        dead one back), takes over the dead root's links and containers - the sub-objects
        are long-lived and shared - and observes the same expressions with the same, still
        alive handlers.  mode 'before': populated, then observed; 'after': observed, then
        populated through ordinary (judged) assignments.  The probes that follow judge the
        new root by the same reachability oracle."""
        if self.pool[idx] is self.shared or id(self.pool[idx]) in self.tainted:
            return
        here = [r for r in self.regs if r.root is self.pool[idx]]
        if not here:
            return
        if self.root_referenced(idx):
            self.sink.count("reroot_skipped_referenced")
            return
        what = "n%d dropped (not unregistered), collected; new n%d takes over its values %s observe()" \
            % (idx, idx, "before" if mode == "before" else "after")
        # what the dead root held; leaf keys of the long-lived objects it observed
        state = []
        for nm, v in list(self.pool[idx].__dict__.items()):
            if isinstance(v, Node) or _ckind(v):
                state.append((nm, self._plain(v)))
        oid = id(self.pool[idx])
        added = dict(self.added.get(oid, {}))
        for r in here:
            self.reroot_shared.update(x for x in self.models[r.idx].notif if x[0] == "t" and x[1] != oid)
        wr = weakref.ref(self.pool[idx])
        # -- drop: the harness lets go of every reference it holds
        for r in here:
            r.root = None
        self.pool[idx] = None
        del self.log[:]
        self.last_redef = self.last_rep = None
        for tab in (self.added, self.removed):
            tab.pop(oid, None)
        self.tainted.discard(oid)
        self.through_readd.discard(oid)
        self.readded = {x for x in self.readded if x[0] != oid}
        self.reroot_shared = {x for x in self.reroot_shared if x[1] != oid}
        self.pending_readd = [x for x in self.pending_readd if x[0] != idx]
        for ev_ in self.ever:
            for x in [x for x in ev_ if x[1] == oid]:
                ev_.discard(x)
        if wr() is not None:
            gc.collect()
        if wr() is not None:
            # something outside the graph keeps it alive: its observers stay live, the
            # history can no longer be judged
            self.sink.count("reroot_alive")
            raise Illegal()
        self.sink.count("reroot_collected")
        # -- the fresh root, preferably at the address of the dead one
        spare, new = [], None
        for _ in range(6):
            new = self.cls(ser=idx)
            if id(new) == oid:
                break
            spare.append(new)
        if id(new) == oid:
            self.sink.count("reroot_same_address")
        del spare
        self.pool[idx] = new
        for r in here:
            r.root = new
        if self.dyn:
            self._give_dyn(new)
        for nm, kd in added.items():
            if nm not in self.added.get(id(new), ()):
                new.add_trait(nm, make_added_trait(nm, kd, self.mvals))
                self.added.setdefault(id(new), {})[nm] = kd

        def populate_silently():
            for nm, v in state:
                if nm == "cdef" and v is self.shared:
                    getattr(new, nm)
                else:
                    setattr(new, nm, v)

        def observe_all():
            for r in here:
                self._observe(r)
        if mode == "before":
            exc = self._run(lambda: (populate_silently(), observe_all()))
        else:
            exc = self._run(observe_all)
        logged = list(self.log)
        self.models = [self.compute(r) for r in self.regs]
        self._post(exc, what)
        if logged:
            raise Complaint("event-during-registration", "%s delivered %r" % (what, logged[:2]),
                            {"step": what})
        self.sink.count("reroot_ops")
        self.sink.count("reroot_regs", len(here))
        if any(r.owner is not None for r in here):
            self.sink.count("reroot_bound_handler")
        if mode == "after":
            for nm, v in state:
                if nm == "cdef":
                    # read first: assigning over the never-read constant default is the
                    # unread-default-assign pattern (stratum 'm')
                    self.do_read(new, nm)
                    if v is self.shared:
                        continue
                self.do_assign(new, nm, v)
            self.sink.count("reroot_populated_after")

    # -- operations -> primitives ------------------------------------------------
    def node(self, i):
        if i is None or not (0 <= i < len(self.pool)):
            return None
        return self.pool[i]

    def read_cont(self, a, tr):
        if tr not in a.__dict__:
            self.do_read(a, tr)
        return a.__dict__[tr]

    def targets(self, op):
        """Pool indices an operation would insert under op[1]."""
        k = op[0]
        if k in ("l", "d", "s", "no", "na", "ni"):
            m = op[4] if k == "ni" else op[3]
            if isinstance(m, str) and m.startswith("a_"):
                # aliased-argument op: stored objects are named by position (no new edge),
                # only ['pool', i] selectors bring an object in
                return _alias_pool_idx(list(op[5:] if k == "ni" else op[4:]))
        if k == "set":
            return [op[3]] if op[3] is not None else []
        if k == "setcont":
            return [x[1] if isinstance(x, list) else x for x in op[3]]
        if k == "setnest":
            return _flat_idx(op[3])
        if k in ("no", "na", "aug"):
            return [i for x in op[4:] if isinstance(x, list) for i in _flat_idx(x)]
        if k == "ni":
            return self.targets(["l", op[1], op[2]] + list(op[4:]))
        if k in ("l", "d", "s"):
            out = []
            for x in op[4:]:
                if isinstance(x, list):
                    out.extend(y[1] if isinstance(y, list) else y for y in x)
            if op[3] in ("append", "insert", "setitem", "set", "setdefault", "add"):
                out.append(op[-1])
            return [t for t in out if t is not None]
        return []

    def unread_default_assign(self, op):
        """Structural signature `unread-default-assign`: an assignment to a trait
        whose constant default (an observable object) was never read, while that
        default object is the assigned value itself or is currently reached by a
        registration along another path.  (setattr materialises the default
        silently as `old`: assigning the default itself is "no change", and the
        maintainers un-hook `old` although they never hooked it on this path.)"""
        if op[0] != "set" or op[2] != "cdef":
            return False
        a = self.node(op[1])
        if a is None or type(a) is not self.cls or "cdef" in a.__dict__:
            return False
        if op[3] is not None and self.node(op[3]) is self.shared:
            return True
        sid = id(self.shared)
        return any(k[0] == "t" and k[1] == sid for m in self.models for k in m.depths)

    def touches_tainted(self, op):
        if not self.tainted or op[0] == "observe":
            return False
        nodes = [self.node(op[1])] + [self.node(t) for t in self.targets(op)]
        return any(n is not None and id(n) in self.tainted for n in nodes)

    def would_cycle(self, op):
        a = self.node(op[1])
        if a is None:
            return False
        tg = [self.node(t) for t in self.targets(op)]
        if (op[0] == "snap" or (op[0] == "read" and op[2] == "cdef")) and "cdef" not in a.__dict__ \
                and type(a) is self.cls:
            tg.append(self.shared)             # the read will materialise the edge a -> shared
        if ((op[0] == "del" and op[2] == "cdef") or (op[0] == "reset" and "cdef" in op[2])) \
                and type(a) is self.cls:
            tg.append(self.shared)             # the default comes back
        for n in tg:
            if n is None:
                continue
            if n is a or self.reaches(n, a):
                return True
        return False

    def run_op(self, op):
        k = op[0]
        if k == "reroot":
            # no local may hold the root while it is being dropped
            if self.node(op[1]) is not None:
                self.opclass = OPCLASS[k]
                self.do_reroot(op[1], op[2])
            return
        a = self.node(op[1])
        if a is None:
            return
        self.opclass = OPCLASS.get(k, k) if k not in ("l", "d", "s") else \
            {"l": "list-mutation", "d": "dict-mutation", "s": "set-mutation"}[k]
        if k == "set":
            _, _, tr, b = op
            if self.unread_default_assign(op):
                self.selfdef = True
            if not self.has(a, tr) or not (tr in LINKS or self.added.get(id(a), {}).get(tr) == "link"):
                return
            if b is not None and self.node(b) is None:
                return
            self.do_assign(a, tr, self.node(b))
        elif k == "setcont":
            _, _, tr, payload = op
            kind = self.cont_kind(a, tr)
            if kind is None or not self.has(a, tr):
                return
            if kind == "dict":
                val = {kk: self.node(i) for kk, i in payload if self.node(i) is not None}
            else:
                val = [self.node(i) for i in payload if self.node(i) is not None]
                if kind == "set":
                    val = set(val)
            self.do_assign(a, tr, val)
        elif k == "recont":
            tr = op[2]
            kind = self.cont_kind(a, tr)
            if kind is None or not self.has(a, tr):
                return
            c = self.read_cont(a, tr)
            self.do_assign(a, tr, dict(c) if kind == "dict" else set(c) if kind == "set" else list(c))
        elif k == "read":
            if self.has(a, op[2]):
                if op[2] == "lazy" and "lazy" not in a.__dict__ and len(self.pool) >= 10:
                    return
                self.do_read(a, op[2])
        elif k == "add_trait":
            if not self.has(a, op[2]):
                self.do_add_trait(a, op[2], op[3] if len(op) > 3 else None)
        elif k == "remove_trait":
            if op[2] in self.added.get(id(a), ()):
                self.do_remove_trait(a, op[2])
        elif k == "setnest":
            tr = op[2]
            self.do_assign(a, tr, self._outer_value(NESTED[tr], op[3]))
        elif k in ("no", "na"):
            # mutation of a container of containers: through the container object held in a
            # variable ("no"), or as an augmented assignment through the attribute ("na")
            tr, method = op[2], op[3]
            okind, ikind = NESTED[tr]
            c = self.read_cont(a, tr)
            fn = self._outer_mutation(okind, ikind, c, method, op[4:])
            if fn is None:
                return
            self.sink.count("nested_outer_ops")
            if method.startswith("a_"):
                self.opclass = "aliased-arg-nested-outer-mutation"
                self.sink.count("alias_ops")
                self.sink.count("alias_nested_outer_ops")
            self.do_cont(c, okind, fn, "%r.%s.%s%r" % (a, tr, method, tuple(op[4:])), method)
            if k == "na":
                self.sink.count("attribute_route_ops")
                self.opclass = "augmented-assignment"
                self.do_assign(a, tr, c)
        elif k == "ni":
            tr, sel, method = op[2], op[3], op[4]
            okind, ikind = NESTED[tr]
            c = self.read_cont(a, tr)
            if not len(c):
                return
            inner = c.get(sel) if okind == "dict" else c[sel % len(c)] if isinstance(sel, int) else None
            if inner is None:
                return
            kk = {"list": "l", "dict": "d", "set": "s"}[ikind]
            fn = self._mutation(kk, inner, method, op[5:])
            if fn is None:
                return
            self.opclass = {"l": "list-mutation", "d": "dict-mutation", "s": "set-mutation"}[kk]
            self.sink.count("nested_inner_ops")
            if method.startswith("a_"):
                self.opclass = "aliased-arg-" + self.opclass
                self.sink.count("alias_nested_inner_ops")
                self._alias_run(inner, ikind, fn, "%r.%s[%r].%s%r" % (a, tr, sel, method, tuple(op[5:])),
                                method, None)
                return
            self.do_cont(inner, ikind, fn, "%r.%s[%r].%s%r" % (a, tr, sel, method, tuple(op[5:])), method)
        elif k == "aug":
            # augmented assignment of a flat container through the attribute:
            # `a.tr OP= x` is read, in-place operator on the object, re-assignment
            tr, opname = op[2], op[3]
            kind = CONTS[tr]
            c = self.read_cont(a, tr)
            fn = self._mutation({"list": "l", "dict": "d", "set": "s"}[kind], c, "op_" + opname, op[4:])
            if fn is None:
                return
            self.sink.count("attribute_route_ops")
            if op[4] == "self":
                self.sink.count("alias_ops")
                self.sink.count("alias_self_arg_ops")
            self.do_cont(c, kind, fn, "%r.%s %s= %r" % (a, tr, opname, op[4]), "op_" + opname)
            self.opclass = "augmented-assignment"
            self.do_assign(a, tr, c)
        elif k == "redefine":
            if self.has(a, op[2]) and (op[2] in REDEFINABLE or op[2] in self.added.get(id(a), ())):
                self.do_redefine(a, op[2])
        elif k in ("del", "reset"):
            names = [nm for nm in ([op[2]] if k == "del" else op[2]) if self.has(a, nm)
                     and nm not in ("ser", "trait_added", "trait_modified")]
            names = [nm for q, nm in enumerate(names) if nm not in names[:q]]
            if "lazy" in names and len(self.pool) >= 10:
                names.remove("lazy")
            if not names:
                return
            if self.del_rehook_pattern([k, op[1], names[0] if k == "del" else names]):
                self.delsig = True
            self.do_del(a, names, k)
        elif k == "snap":
            if "lazy" not in a.__dict__ and len(self.pool) >= 12:
                return
            how = op[2]
            if how == "copy" and self.added.get(id(a)):
                # the copy is a new instance of the class WITHOUT the dynamic traits: setting
                # its state resolves those names through the class wildcard, which caches
                # them as class-level traits (by design) - a different history
                how = "getstate"
            self.do_snapshot(a, how)
        elif k in ("l", "d", "s"):
            tr, method = op[2], op[3]
            if self.cont_kind(a, tr) is None or not self.has(a, tr):
                return
            c = self.read_cont(a, tr)
            fn = self._mutation(k, c, method, op[4:])
            if fn is None:
                return
            if k == "s":
                # structural signature: a set operation whose argument is equal to, but
                # not identical with, a stored element
                args = [self.node(t) for x in op[4:] for t in (x if isinstance(x, list) else [x])
                        if isinstance(t, int)]
                if any(x is not None and x is not e and _safe_eq(x, e) and hash(x) == hash(e)
                       for x in args for e in list(c)):
                    self.twin = True
            if method.startswith("a_"):
                self.opclass = "aliased-arg-" + self.opclass
                self._alias_run(c, self.cont_kind(a, tr), fn, "%r.%s.%s%r" % (a, tr, method, tuple(op[4:])),
                                method, op)
            else:
                self.do_cont(c, self.cont_kind(a, tr), fn, "%r.%s.%s%r" % (a, tr, method, tuple(op[4:])),
                             method)
            if (id(a), tr) in self.readded:
                self.through_readd.update(map(id, c))
        else:
            raise AssertionError(op)

    def _nodes(self, idxs):
        return [self.node(i) for i in idxs if self.node(i) is not None]

    def _inner_value(self, ikind, spec):
        """Plain inner container from a payload (pool indices / [key, index] pairs)."""
        if ikind == "dict":
            return {kk: self.node(i) for kk, i in spec if self.node(i) is not None}
        vals = self._nodes(spec)
        return set(vals) if ikind == "set" else vals

    def _outer_value(self, kinds, payload):
        okind, ikind = kinds
        if okind == "dict":
            return {kk: self._inner_value(ikind, sp) for kk, sp in payload}
        return [self._inner_value(ikind, sp) for sp in payload]

    def _outer_mutation(self, okind, ikind, c, method, args):
        L = len(c)
        if method.startswith("a_"):
            return self._alias_mutation(okind, c, method, list(args), False)
        iv = lambda sp: self._inner_value(ikind, sp)               # noqa: E731
        if okind == "dict":
            if method == "set":
                key, v = args[0], iv(args[1])
                return lambda c: c.__setitem__(key, v)
            if method == "setdefault":
                key, v = args[0], iv(args[1])
                return lambda c: c.setdefault(key, v)
            if method in ("update", "ior", "update_pairs"):
                upd = {kk: iv(sp) for kk, sp in args[0]}
                if method == "update":
                    return lambda c: c.update(upd)
                if method == "update_pairs":
                    return lambda c: c.update(list(upd.items()))
                return lambda c: operator.ior(c, upd)
            if method in ("del", "pop"):
                key = args[0]
                if key not in c:
                    return None
                return (lambda c: c.__delitem__(key)) if method == "del" else (lambda c: c.pop(key))
            if method == "clear":
                return lambda c: c.clear()
            if method == "popitem":
                return (lambda c: c.popitem()) if L else None
        else:
            if method == "append":
                v = iv(args[0])
                return lambda c: c.append(v)
            if method == "insert":
                i, v = args[0] % (L + 1), iv(args[1])
                return lambda c: c.insert(i, v)
            if method == "setitem":
                if not L:
                    return None
                i, v = args[0] % L, iv(args[1])
                return lambda c: c.__setitem__(i, v)
            if method in ("extend", "iadd"):
                vs = [iv(sp) for sp in args[0]]
                return (lambda c: c.extend(vs)) if method == "extend" else (lambda c: operator.iadd(c, vs))
            if method == "setslice":
                i, j = sorted((args[0] % (L + 1), args[1] % (L + 1)))
                vs = [iv(sp) for sp in args[2]]
                return lambda c: c.__setitem__(slice(i, j), vs)
            if method in ("delitem", "pop"):
                if not L:
                    return None
                i = args[0] % L
                return (lambda c: c.__delitem__(i)) if method == "delitem" else (lambda c: c.pop(i))
            if method == "imul":
                if L > 3:
                    return None
                v = args[0]
                return lambda c: operator.imul(c, v)
            if method == "reverse":
                return lambda c: c.reverse()
            if method == "clear":
                return lambda c: c.clear()
        raise AssertionError((okind, method))

    def _mutation(self, k, c, method, args):
        L = len(c)
        nd = self.node
        if method.startswith("a_"):
            return self._alias_mutation({"l": "list", "d": "dict", "s": "set"}[k], c, method, list(args), True)
        if method.startswith("op_") and args and args[0] == "self":
            # `a.tr OP= a.tr`: the argument of the in-place operator is the container itself
            if (k == "l" and (method != "op_iadd" or not 0 < L <= 4)) or (k == "d" and method != "op_ior"):
                return None
            f = getattr(operator, method[3:])
            return lambda c: f(c, c)
        if k == "l":
            if method == "append":
                b = nd(args[0])
                return None if b is None else (lambda c: c.append(b))
            if method == "extend":
                bs = self._nodes(args[0])
                return lambda c: c.extend(bs)
            if method == "iadd":
                bs = self._nodes(args[0])
                return lambda c: c.__iadd__(bs)
            if method == "insert":
                b = nd(args[1])
                i = args[0] % (L + 1)
                return None if b is None else (lambda c: c.insert(i, b))
            if method == "setitem":
                b = nd(args[1])
                if b is None or not L:
                    return None
                i = args[0] % L
                return lambda c: c.__setitem__(i, b)
            if method == "setslice":
                i, j = sorted((args[0] % (L + 1), args[1] % (L + 1)))
                bs = self._nodes(args[2])
                return lambda c: c.__setitem__(slice(i, j), bs)
            if method == "extslice":
                n = len(range(L)[::2])
                src = self._nodes(args[0])
                if not src or not n:
                    return None
                bs = [src[q % len(src)] for q in range(n)]
                return lambda c: c.__setitem__(slice(None, None, 2), bs)
            if method == "delitem":
                if not L:
                    return None
                i = args[0] % L
                return lambda c: c.__delitem__(i)
            if method == "delslice":
                i, j = sorted((args[0] % (L + 1), args[1] % (L + 1)))
                return lambda c: c.__delitem__(slice(i, j))
            if method == "pop":
                if not L:
                    return None
                i = args[0] % L
                return lambda c: c.pop(i)
            if method == "remove":
                if not L:
                    return None
                x = c[args[0] % L]
                return lambda c: c.remove(x)
            if method == "reverse":
                return lambda c: c.reverse()
            if method == "sort":
                return lambda c: c.sort(key=lambda n: -n.__dict__.get("ser", 0))
            if method == "clear":
                return lambda c: c.clear()
            if method == "reslice":
                # slice assignment whose replacement is built from the removed objects
                # with a different multiplicity
                i, j = sorted((args[0] % (L + 1), args[1] % (L + 1)))
                removed = list(c[i:j])
                if not removed:
                    return None
                mode = args[2]
                if mode == "dup":
                    new = removed + removed
                elif mode == "plus":
                    new = removed + [removed[0]]
                elif mode == "front":
                    new = [removed[-1]] + removed
                elif mode == "tail":
                    new = removed[1:]
                elif mode == "uniq":
                    new = [x for q, x in enumerate(removed) if not any(x is y for y in removed[:q])]
                else:
                    new = [removed[0]] * (args[3] % 4)
                self.last_rep = (removed + new)
                self.sink.count("reslice_ops")
                return lambda c: c.__setitem__(slice(i, j), new)
            if method == "extfirst":
                # extended-slice assignment that drops one object and repeats another
                old = list(c[::2])
                if len(old) < 2:
                    return None
                new = [old[0]] * len(old) if args[0] == "first" else [old[1]] + old[1:]
                self.last_rep = old + new
                self.sink.count("reslice_ops")
                return lambda c: c.__setitem__(slice(None, None, 2), new)
            if method == "imul":
                if L > 3:
                    return None
                v = args[0]
                return lambda c: c.__imul__(v)
            if method == "op_iadd":
                bs = self._nodes(args[0])
                return lambda c: operator.iadd(c, bs)
            if method == "op_imul":
                if L > 3:
                    return None
                v = args[0]
                return lambda c: operator.imul(c, v)
        elif k == "d":
            if method == "set":
                b = nd(args[1])
                key = args[0]
                return None if b is None else (lambda c: c.__setitem__(key, b))
            if method == "setdefault":
                b = nd(args[1])
                key = args[0]
                return None if b is None else (lambda c: c.setdefault(key, b))
            if method == "del":
                key = args[0]
                return (lambda c: c.__delitem__(key)) if key in c else None
            if method == "pop":
                key = args[0]
                return (lambda c: c.pop(key)) if key in c else None
            if method == "update":
                upd = {kk: nd(i) for kk, i in args[0] if nd(i) is not None}
                return lambda c: c.update(upd)
            if method == "clear":
                return lambda c: c.clear()
            if method in ("ior", "op_ior"):
                upd = {kk: nd(i) for kk, i in args[0] if nd(i) is not None}
                return lambda c: operator.ior(c, upd)
            if method == "respread":
                # one update that stores the value of the first key under several keys
                if not L:
                    return None
                k0 = next(iter(c))
                upd = {kk: c[k0] for kk in (k0,) + KEYS[:2]}
                return lambda c: c.update(upd)
            if method == "popitem":
                return (lambda c: c.popitem()) if L else None
        elif k == "s":
            if method == "add":
                b = nd(args[0])
                return None if b is None else (lambda c: c.add(b))
            if method == "discard":
                b = nd(args[0])
                return None if b is None else (lambda c: c.discard(b))
            if method == "remove":
                b = nd(args[0])
                return (lambda c: c.remove(b)) if (b is not None and b in c) else None
            if method == "pop":
                return (lambda c: c.pop()) if L else None
            if method == "clear":
                return lambda c: c.clear()
            bs = set(self._nodes(args[0]))
            if method.startswith("op_"):
                f = getattr(operator, method[3:])      # the in-place operators themselves
                return lambda c: f(c, bs)
            if method == "update":
                return lambda c: c.update(bs)
            if method == "ixor":
                return lambda c: c.symmetric_difference_update(bs)
            if method == "isub":
                return lambda c: c.difference_update(bs)
            if method == "iand":
                return lambda c: c.intersection_update(bs)
        raise AssertionError((k, method))


    # -- aliased arguments -----------------------------------------------------------
    def _alias_obj(self, c, kind, sel, at=MISSING, nodes=True):
        """Object named by an alias selector and its relation to the container:
        ['at'] the object stored at the addressed key / position itself, ['own', q] the
        q-th stored object, ['pool', i] pool node i (stored here, present elsewhere in the
        graph, or - all-equal flavour - an equal twin), ['twin', q] an equal plain copy of
        the q-th stored inner container, ['none'] None.  -> (object, relation)."""
        vals = _stored(c, kind)
        t = sel[0]
        if t == "none":
            return None, "none"
        if t == "at":
            return (at, "at") if at is not MISSING else (MISSING, None)
        if t == "own":
            if not vals:
                return MISSING, None
            v = vals[sel[1] % len(vals)]
            return v, "at" if v is at else "own"
        if t == "pool":
            v = self.node(sel[1]) if nodes else None
            if v is None:
                return MISSING, None
            return v, "at" if v is at else "own" if any(v is x for x in vals) else "outside"
        if t == "twin":
            if nodes or not vals:
                return MISSING, None
            v = vals[sel[1] % len(vals)]
            return (dict(v) if isinstance(v, dict) else set(v) if isinstance(v, set) else list(v)), "twin"
        raise AssertionError(sel)

    def _alias_mutation(self, kind, c, method, args, nodes):
        """Mutators whose ARGUMENT aliases what the container stores: the stored object
        itself (at the addressed key / position or elsewhere in the container), an object
        present elsewhere in the graph, an equal twin, the container itself, its own items."""
        L = len(c)
        cnt = self.sink.count

        def resolve(sel, at=MISSING, none_ok=False):
            obj, rel = self._alias_obj(c, kind, sel, at, nodes)
            if obj is MISSING or (rel == "none" and not none_ok):
                return MISSING, None
            return obj, rel
        if kind == "dict":
            if method in ("a_pop", "a_setdefault", "a_set", "a_getset"):
                key = args[0]
                at = dict.get(c, key, MISSING)
                obj, rel = resolve(args[1], at, method == "a_pop")
                if obj is MISSING:
                    return None
                cnt("alias_arg_" + rel)
                cnt("alias_key_present" if at is not MISSING else "alias_key_absent")
                if method == "a_pop":
                    if rel == "at":
                        cnt("alias_pop_default_is_stored")
                    return lambda c: c.pop(key, obj)
                if method == "a_setdefault":
                    return lambda c: c.setdefault(key, obj)
                if method == "a_set":
                    return lambda c: c.__setitem__(key, obj)
                return lambda c: c.__setitem__(key, c.get(key, obj))
            if method == "a_update":
                mode = args[0]
                if not L:
                    return None
                keys, vals = list(c), list(c.values())
                cnt("alias_arg_self" if mode in ("self", "self_ior") else "alias_arg_own_items")
                if mode == "self":
                    return lambda c: c.update(c)
                if mode == "self_ior":
                    return lambda c: operator.ior(c, c)
                if mode == "same":
                    upd = dict(zip(keys, vals))
                elif mode == "one":
                    upd = {keys[0]: vals[0]}
                elif mode == "rot":
                    upd = dict(zip(keys, vals[1:] + vals[:1]))
                elif mode == "plus":
                    upd = dict(zip(keys, vals))
                    free = [kk for kk in KEYS + ("w",) if kk not in upd]
                    if not free:
                        return None
                    upd[free[0]] = vals[0]
                elif mode in ("copy_ior", "pairs"):
                    upd = dict(zip(keys, vals))
                    if mode == "copy_ior":
                        return lambda c: operator.ior(c, upd)
                    return lambda c: c.update(list(upd.items()))
                else:
                    raise AssertionError(mode)
                return lambda c: c.update(upd)
            if method == "a_updsel":
                upd = {}
                for key, sel in args[0]:
                    obj, rel = resolve(sel, dict.get(c, key, MISSING))
                    if obj is not MISSING:
                        upd[key] = obj
                        cnt("alias_arg_" + rel)
                if not upd:
                    return None
                if args[1] == "ior":
                    return lambda c: operator.ior(c, upd)
                if args[1] == "pairs":
                    return lambda c: c.update(list(upd.items()))
                return lambda c: c.update(upd)
        elif kind == "list":
            if method == "a_append":
                obj, rel = resolve(args[0])
                if obj is MISSING or L > 8:
                    return None
                cnt("alias_arg_" + rel)
                return lambda c: c.append(obj)
            if method == "a_insert":
                obj, rel = resolve(args[1])
                if obj is MISSING or L > 8:
                    return None
                i = args[0] % (L + 1)
                cnt("alias_arg_" + rel)
                return lambda c: c.insert(i, obj)
            if method == "a_setitem":
                if not L:
                    return None
                i = args[0] % L
                obj, rel = resolve(args[1], c[i])
                if obj is MISSING:
                    return None
                cnt("alias_arg_" + rel)
                return lambda c: c.__setitem__(i, obj)
            if method == "a_remove":
                obj, rel = resolve(args[0])
                if obj is MISSING or not any(x is obj or _safe_eq(x, obj) for x in c):
                    return None
                cnt("alias_arg_" + rel)
                return lambda c: c.remove(obj)
            if method == "a_extend":
                objs = []
                for sel in args[0]:
                    obj, rel = resolve(sel)
                    if obj is not MISSING:
                        objs.append(obj)
                        cnt("alias_arg_" + rel)
                if not objs or L > 8:
                    return None
                if args[1] == "iadd":
                    return lambda c: operator.iadd(c, objs)
                if args[1] == "slice":
                    return lambda c: c.__setitem__(slice(len(c), len(c)), objs)
                return lambda c: c.extend(objs)
            if method == "a_self":
                mode = args[0]
                if not L:
                    return None
                i, j = sorted((args[1] % (L + 1), args[2] % (L + 1)))
                grow = mode in ("ext_self", "iadd_self", "ext_copy", "ins_own", "slice_self")
                if grow and L > 4:
                    return None
                cnt("alias_arg_self" if mode in ("ext_self", "iadd_self", "slice_self", "all_self")
                    else "alias_arg_own_items")
                if mode == "ext_self":
                    return lambda c: c.extend(c)
                if mode == "iadd_self":
                    return lambda c: operator.iadd(c, c)
                if mode == "ext_copy":
                    return lambda c: c.extend(list(c))
                if mode == "ins_own":
                    return lambda c: c.__setitem__(slice(i, i), list(c[j:j + 2]) or list(c[:1]))
                if mode == "slice_self":
                    return lambda c: c.__setitem__(slice(i, j), c)
                if mode == "all_self":
                    return lambda c: c.__setitem__(slice(None), c)
                if mode == "all_copy":
                    return lambda c: c.__setitem__(slice(None), list(c))
                if mode == "slice_same":
                    return lambda c: c.__setitem__(slice(i, j), list(c[i:j]))
                if mode == "slice_rev":
                    return lambda c: c.__setitem__(slice(i, j), list(c[i:j])[::-1])
                if mode == "ext_same":
                    return lambda c: c.__setitem__(slice(None, None, 2), list(c[::2]))
                if mode == "ext_rev":
                    return lambda c: c.__setitem__(slice(None, None, 2), list(c[::2])[::-1])
                if mode == "rot":
                    return lambda c: c.__setitem__(slice(None), list(c[1:]) + list(c[:1]))
                if mode == "imul1":
                    return lambda c: operator.imul(c, 1)
                raise AssertionError(mode)
        else:
            if method in ("a_add", "a_discard", "a_remove"):
                obj, rel = resolve(args[0])
                if obj is MISSING:
                    return None
                if method == "a_remove" and not any(x is obj for x in c):
                    return None
                cnt("alias_arg_" + rel)
                if method == "a_add":
                    return lambda c: c.add(obj)
                if method == "a_discard":
                    return lambda c: c.discard(obj)
                return lambda c: c.remove(obj)
            if method == "a_self":
                mode = args[0]
                if not L:
                    return None
                own = _stored(c, "set")[args[1] % L]
                cnt("alias_arg_self" if mode.endswith("_self") else "alias_arg_own_items")
                if mode in SET_SELF_MODES:
                    name, what = SET_SELF_MODES[mode]
                    if name.startswith("op:"):
                        f = getattr(operator, name[3:])
                        return lambda c: f(c, c if what == "self" else set(c) if what == "copy" else {own})
                    return lambda c: getattr(c, name)(c if what == "self" else set(c) if what == "copy"
                                                      else [own, own])
                raise AssertionError(mode)
        raise AssertionError((kind, method))

    def _alias_run(self, c, kind, fn, what, method, op):
        """Container mutation whose argument aliases stored objects: the ordinary container
        judgement plus bookkeeping of the nodes that left the container through it (the
        probes then demand silence of those that are no longer reachable)."""
        before = _snap(c, kind)
        self.sink.count("alias_ops")
        self.sink.count("alias_%s_ops" % kind)
        self.do_cont(c, kind, fn, what, method)
        after = _snap(c, kind)
        if _ids(before, kind) == _ids(after, kind):
            self.sink.count("alias_noop_ops")
        bvals = [x for x in (before.values() if kind == "dict" else before) if isinstance(x, Node)]
        avals = list(after.values() if kind == "dict" else after)
        left = [x for x in bvals if not any(x is y for y in avals)]
        if left:
            self.sink.count("alias_removed_stored")
            self.alias_left.update(map(id, left))
        if self.stratum == "b" and op is not None and left and self.nstep % 2 and not self.alias_follow:
            # the object that left is put back and taken out again (an entry it left behind
            # would now be counted twice)
            idx = [i for i, p_ in enumerate(self.pool) if p_ is left[0]]
            if idx:
                a, tr, b = op[1], op[2], idx[0]
                if kind == "list":
                    self.alias_follow = [["l", a, tr, "append", b], ["l", a, tr, "a_remove", ["pool", b]]]
                elif kind == "dict":
                    kk = [q for q in KEYS if q not in after] or [KEYS[0]]
                    self.alias_follow = [["d", a, tr, "set", kk[0], b], ["d", a, tr, "a_pop", kk[0], ["at"]]]
                else:
                    self.alias_follow = [["s", a, tr, "add", b], ["s", a, tr, "a_discard", ["pool", b]]]

    # -- probe phase ---------------------------------------------------------------
    def probe_phase(self):
        if not self.regs:
            return
        for n in list(self.pool):
            for nm in self.int_names(n):
                self.do_probe(n, nm)
        visited, others = [], []
        for n in self.pool:
            if id(n) in self.tainted:
                continue               # its containers may carry hooks remove_trait orphaned
            for lab, kind, c, inner in self.all_conts(n):
                ent = (lab, kind, c, inner)
                if any(("c", id(c)) in m.depths for m in self.models):
                    visited.append(ent)
                else:
                    others.append(ent)
        r = self.nstep
        retired = [x for x in self.retired if not any(x[2] is t for t in self.tainted_conts)]
        chosen = _rotate(visited, r, 5) + _rotate(others, r, 2) + _rotate(retired, r, 2)
        for lab, kind, c, inner in chosen:
            self.container_probe(lab, kind, c, inner)

    def container_probe(self, lab, kind, c, inner=None):
        fresh = self.cls(ser=900 + len(self.temp))
        self.temp.append(fresh)
        if self.dyn:
            self._give_dyn(fresh)
        retired = lab.startswith("old ")
        # what goes into the container: the fresh node, or - for a container of
        # containers - a plain inner container holding it (traits stores a wrapped copy)
        item = fresh if inner is None else [fresh] if inner == "list" else {fresh} if inner == "set" \
            else {"_q": fresh}
        if kind == "list":
            if self.nstep % 2:
                add = lambda c: c.append(item)                     # noqa: E731
            else:
                add = lambda c: c.insert(0, item)                  # noqa: E731
        elif kind == "dict":
            add = lambda c: c.__setitem__("_p", item)              # noqa: E731
        else:
            add = lambda c: c.add(item)                            # noqa: E731
        self.do_cont(c, kind, add, "probe %s <- %s" % (lab, "fresh %r" % fresh if inner is None else
                                                        "%s of fresh %r" % (inner, fresh)), "probe-add")
        if retired:
            self.sink.count("retired_container_checks")
        if inner:
            self.sink.count("nested_outer_probes")
        if not any(x is fresh for x in _flat_nodes(c)):
            return
        hooked = self.do_probe(fresh, "value", "fresh-in")
        if hooked:
            self.sink.count("fresh_hooked")
            if inner:
                self.sink.count("nested_fresh_hooked")
        if kind == "list":
            i = [j for j, x in enumerate(c) if x is fresh or (inner and any(
                y is fresh for y in _flat_nodes(x)))][0]
            rem = lambda c: c.__delitem__(i)                       # noqa: E731
        elif kind == "dict":
            rem = lambda c: c.__delitem__("_p")                    # noqa: E731
        else:
            rem = lambda c: c.discard(fresh)                       # noqa: E731
        self.do_cont(c, kind, rem, "probe %s remove fresh %r" % (lab, fresh), "probe-remove")
        still = self.do_probe(fresh, "value", "fresh-out")
        if hooked and not still:
            self.sink.count("fresh_unhooked")


OPCLASS = {"set": "assign-link", "setcont": "assign-container", "recont": "assign-equal-container",
           "read": "default-read", "add_trait": "add-trait", "remove_trait": "remove-trait",
           "redefine": "redefine-trait", "snap": "snapshot", "setnest": "assign-nested-container",
           "no": "nested-outer-mutation", "na": "nested-outer-mutation", "ni": "nested-inner-mutation",
           "aug": "augmented-assignment", "del": "del-trait", "reset": "reset-traits",
           "reroot": "root-replaced",
           "observe": "registration"}


def _rotate(seq, r, n):
    if len(seq) <= n:
        return list(seq)
    s = r % len(seq)
    return (list(seq) + list(seq))[s:s + n]


def _safe_eq(a, b):
    try:
        return bool(a == b)
    except Exception:  # noqa: BLE001
        return False


def _flat_nodes(c):
    """Nodes held by a container, through any nesting of containers."""
    out = []
    for x in (c.values() if isinstance(c, dict) else list(c)):
        if isinstance(x, Node):
            out.append(x)
        elif isinstance(x, (list, dict, set)):
            out.extend(_flat_nodes(x))
    return out


def _flat_idx(x):
    """Pool indices in an operation payload (ints at any nesting depth)."""
    if isinstance(x, bool):
        return []
    if isinstance(x, int):
        return [x]
    if isinstance(x, list):
        return [i for y in x for i in _flat_idx(y)]
    return []


def _stored(c, kind):
    """Stored objects of a container in a replayable order (sets: by serial)."""
    if kind == "dict":
        return list(dict.values(c))
    if kind == "set":
        return sorted(c, key=lambda n: n.__dict__.get("ser", 0))
    return list(c)


def _alias_pool_idx(x):
    """Pool indices named by ['pool', i] selectors anywhere in an argument list."""
    if isinstance(x, list):
        if len(x) == 2 and x[0] == "pool" and isinstance(x[1], int):
            return [x[1]]
        return [i for y in x for i in _alias_pool_idx(y)]
    return []


# set operations whose argument is the set itself / a copy of it / built from a stored element:
# mode -> (method name or 'op:<in-place operator>', argument)
SET_SELF_MODES = {
    "update_self": ("update", "self"), "ior_self": ("op:ior", "self"), "iand_self": ("op:iand", "self"),
    "inter_self": ("intersection_update", "self"), "isub_self": ("op:isub", "self"),
    "ixor_self": ("op:ixor", "self"), "diff_self": ("difference_update", "self"),
    "symdiff_self": ("symmetric_difference_update", "self"),
    "update_copy": ("update", "copy"), "isub_copy": ("op:isub", "copy"), "ixor_copy": ("op:ixor", "copy"),
    "iand_copy": ("op:iand", "copy"), "diff_copy": ("difference_update", "copy"),
    "own_isub": ("op:isub", "own"), "own_iand": ("op:iand", "own"), "own_ixor": ("op:ixor", "own"),
    "own_ior": ("op:ior", "own"), "own_update": ("update", "own"), "own_diff": ("difference_update", "own"),
    "own_inter": ("intersection_update", "own"), "own_symdiff": ("symmetric_difference_update", "own"),
}
LIST_SELF_MODES = ("ext_self", "iadd_self", "ext_copy", "ins_own", "slice_self", "all_self", "all_copy",
                   "slice_same", "slice_rev", "ext_same", "ext_rev", "rot", "imul1")
DICT_UPDATE_MODES = ("self", "self_ior", "same", "one", "rot", "plus", "copy_ior", "pairs")


def _snap(c, kind):
    if kind == "dict":
        return dict(c)
    return list(c)


def _ids(s, kind):
    if kind == "dict":
        return {k: id(v) for k, v in s.items()}
    if kind == "set":
        return set(map(id, s))
    return list(map(id, s))


def _payload_complaint(kind, before, after, e):
    """Is the event consistent with the before/after contents (identity)?"""
    try:
        if kind == "list":
            cur = list(before)
            idx, removed, added = e.index, list(e.removed), list(e.added)
            if isinstance(idx, slice):
                if list(map(id, cur[idx])) != list(map(id, removed)):
                    return "removed-mismatch"
                if added:
                    cur[idx] = added
                else:
                    del cur[idx]
            else:
                if type(idx) is not int or not 0 <= idx <= len(cur):
                    return "bad-index"
                if list(map(id, cur[idx:idx + len(removed)])) != list(map(id, removed)):
                    return "removed-mismatch"
                cur[idx:idx + len(removed)] = added
            if list(map(id, cur)) != list(map(id, after)):
                return "replay-differs"
            return None
        if kind == "dict":
            cur = dict(before)
            for kk, v in e.removed.items():
                if kk not in cur or cur[kk] is not v:
                    return "removed-mismatch"
                if kk not in e.added:
                    del cur[kk]
            for kk, v in e.added.items():
                cur[kk] = v
            if _ids(cur, "dict") != _ids(after, "dict"):
                return "replay-differs"
            return None
        b, a = set(map(id, before)), set(map(id, after))
        rem, add = set(map(id, e.removed)), set(map(id, e.added))
        if not rem <= b:
            return "removed-mismatch"
        if add & b:
            return "added-already-present"
        if (b - rem) | add != a:
            return "replay-differs"
        return None
    except Exception as ex:  # noqa: BLE001 - malformed payload
        return "payload-raises-%s" % type(ex).__name__


# ---------------------------------------------------------------------------
# executing a replayable history
# ---------------------------------------------------------------------------


def make_key(W, c):
    """Mechanism key.  The structural signature computed by the model comes
    first; outside it the complaint family, what was observed and the class of
    the last structural operation."""
    reg = c.extra.get("reg")
    if (reg in W.multi_regs) if reg is not None else W.multi:
        # a complaint about one handler is attributed to the signature of that
        # registration; an escaping exception to any registration's
        return "multi-level/" + c.what
    if W.twin:
        return "set-equal-twin/" + c.what
    if W.selfdef:
        return "unread-default-assign/" + c.what
    if W.delsig:
        return "del-default-rehooked-twice/" + c.what
    if c.kind:
        return "%s/%s/after:%s" % (c.what, c.kind, W.opclass)
    return "%s/after:%s" % (c.what, W.opclass)


def execute(spec, actions, sink, gen=None):
    """Run a history.  `actions` is a list of ['observe', k] / operations; when
    `gen` is given it is called as gen(W, i) to produce the i-th action on the
    fly (the action list is extended, so that the history stays replayable).
    Returns None or dict(key, what, msg, at, info)."""
    W = World(spec, sink)
    i = 0
    try:
        while True:
            if i >= len(actions):
                if gen is None:
                    break
                act = gen(W, i)
                if act is None:
                    break
                actions.append(act)
            act = actions[i]
            if act[0] == "observe":
                W.opclass = "registration"
                W.register(spec["regs"][act[1]])
            else:
                W.run_op(act)
                sink.count("ops")
            if not W.was_cyclic and W.stratum != "t" and W.graph_cyclic():
                W.was_cyclic = True
            W.probe_phase()
            i += 1
    except Illegal:
        sink.count("histories_illegal")
        return {"key": None, "world": W}
    except Complaint as c:
        info = {"graph": W.dump(), "multi_level": W.multi, "step": c.extra.get("step"),
                "multi_level_observables": W.multi_info}
        return {"key": make_key(W, c), "what": c.what, "msg": c.msg, "at": i, "info": info,
                "world": W}
    finally:
        sink.count("prims", W.nstep)
    return {"key": None, "world": W}


def ddmin(items, test, budget=100):
    """Classic ddmin on a list; `test(candidate)` is True when the candidate
    still shows the same mechanism key."""
    calls = [0]

    def t(c):
        if calls[0] >= budget:
            return False
        calls[0] += 1
        return test(c)
    n = 2
    while len(items) >= 2:
        chunk = max(1, len(items) // n)
        subsets = [items[j:j + chunk] for j in range(0, len(items), chunk)]
        reduced = False
        for j in range(len(subsets)):
            comp = [x for q, s in enumerate(subsets) if q != j for x in s]
            if t(comp):
                items = comp
                n = max(n - 1, 2)
                reduced = True
                break
        if not reduced:
            if chunk == 1:
                break
            n = min(len(items), n * 2)
        if calls[0] >= budget:
            break
    return items


def shrink(spec, actions, key):
    null = NullSink()

    def test(cand):
        r = execute(spec, list(cand), null)
        return r["key"] == key
    return ddmin(list(actions), test)


def _inner_src(ikind, sp):
    if ikind == "dict":
        return "{" + ", ".join("%r: n%d" % (kk, i) for kk, i in sp) + "}"
    body = ", ".join("n%d" % i for i in sp)
    return "[" + body + "]" if ikind == "list" else "{" + body + "}" if sp else "set()"


def _outer_args_src(okind, ikind, method, args):
    """Source text of the arguments of an operation on a container of containers."""
    def inner(sp):
        return _inner_src(ikind, sp)
    if okind == "dict":
        if method in ("set", "setdefault"):
            return "%r, %s" % (args[0], inner(args[1]))
        if method in ("update", "update_pairs", "ior"):
            return "{" + ", ".join("%r: %s" % (kk, inner(sp)) for kk, sp in args[0]) + "}"
        return ", ".join(map(repr, args))
    if method == "append":
        return inner(args[0])
    if method in ("insert", "setitem"):
        return "%d, %s" % (args[0], inner(args[1]))
    if method in ("extend", "iadd"):
        return "[" + ", ".join(inner(sp) for sp in args[0]) + "]"
    if method == "setslice":
        return "slice(*sorted((%d, %d))), [%s]" % (args[0], args[1], ", ".join(inner(sp) for sp in args[2]))
    return ", ".join(map(repr, args))


def _nest_src(kinds, payload):
    okind, ikind = kinds
    if okind == "dict":
        return "{" + ", ".join("%r: %s" % (kk, _inner_src(ikind, sp)) for kk, sp in payload) + "}"
    return "[" + ", ".join(_inner_src(ikind, sp) for sp in payload) + "]"


def _trait_src(name, kind=None):
    if name in ("x0", "y0", "items"):
        return {"x0": "Int(tag=True)", "y0": "Int()", "items": "Instance(Node, link=True)"}[name]
    kind = kind or ADDABLE[name][0]
    return {"int": "Int()", "link": "Instance(Node)", "list": "List(Instance(Node))"}[kind]


def _sel_src(sel):
    t = sel[0]
    return {"at": "<the object stored there>", "none": "None"}.get(t) or (
        "<stored object #%d>" % sel[1] if t == "own" else "n%d" % sel[1] if t == "pool"
        else "<equal plain copy of stored container #%d>" % sel[1])


def _alias_src(tgt, m, args):
    """Source text of an aliased-argument operation (stored objects are counted in key /
    position / serial order modulo the length; list positions modulo len)."""
    c = tgt
    if m in ("a_pop", "a_setdefault"):
        return "%s.%s(%r, %s)" % (c, m[2:], args[0], _sel_src(args[1]))
    if m == "a_set":
        return "%s[%r] = %s" % (c, args[0], _sel_src(args[1]))
    if m == "a_getset":
        return "%s[%r] = %s.get(%r, %s)" % (c, args[0], c, args[0], _sel_src(args[1]))
    if m == "a_update":
        return {"self": "{c}.update({c})", "self_ior": "{c} |= {c}   # operator on the object",
                "same": "{c}.update(dict({c}))", "one": "{c}.update({{k0: {c}[k0]}})   # k0 = first key",
                "rot": "{c}.update(<same keys, values rotated by one>)",
                "plus": "{c}.update(<dict({c}) plus a new key -> first stored object>)",
                "copy_ior": "{c} |= dict({c})", "pairs": "{c}.update(list({c}.items()))"}[args[0]].format(c=c)
    if m == "a_updsel":
        body = "{" + ", ".join("%r: %s" % (kk, _sel_src(sel)) for kk, sel in args[0]) + "}"
        return {"ior": "%s |= %s", "pairs": "%s.update(list(%s.items()))"}.get(args[1], "%s.update(%s)") % (c, body)
    if m in ("a_append", "a_remove", "a_add", "a_discard"):
        return "%s.%s(%s)" % (c, m[2:], _sel_src(args[0]))
    if m == "a_insert":
        return "%s.insert(%d %% (len+1), %s)" % (c, args[0], _sel_src(args[1]))
    if m == "a_setitem":
        return "%s[%d %% len] = %s" % (c, args[0], _sel_src(args[1]))
    if m == "a_extend":
        body = "[" + ", ".join(_sel_src(x) for x in args[0]) + "]"
        return {"iadd": "%s += %s", "slice": "%s[len:len] = %s"}.get(args[1], "%s.extend(%s)") % (c, body)
    if m == "a_self" and args[0] in SET_SELF_MODES:
        name, what = SET_SELF_MODES[args[0]]
        arg = c if what == "self" else "set(%s)" % c if what == "copy" else \
            ("{<stored object #%d>}" if name.startswith("op:") else "[<stored object #%d>] * 2") % args[1]
        if name.startswith("op:"):
            return "%s %s= %s   # operator on the object" % (
                c, {"ior": "|", "iand": "&", "isub": "-", "ixor": "^"}[name[3:]], arg)
        return "%s.%s(%s)" % (c, name, arg)
    if m == "a_self":
        t = {"ext_self": "{c}.extend({c})", "iadd_self": "{c} += {c}   # operator on the object",
             "ext_copy": "{c}.extend(list({c}))", "ins_own": "{c}[i:i] = {c}[j:j+2]",
             "slice_self": "{c}[i:j] = {c}", "all_self": "{c}[:] = {c}", "all_copy": "{c}[:] = list({c})",
             "slice_same": "{c}[i:j] = {c}[i:j]", "slice_rev": "{c}[i:j] = reversed({c}[i:j])",
             "ext_same": "{c}[::2] = {c}[::2]", "ext_rev": "{c}[::2] = reversed({c}[::2])",
             "rot": "{c}[:] = {c}[1:] + {c}[:1]", "imul1": "{c} *= 1"}[args[0]].format(c=c)
        return t + "   # i,j = sorted(%d,%d modulo len+1)" % (args[1], args[2])
    return "%s.%s%r" % (c, m, tuple(args))


def script(spec, actions):
    """Human-readable rendering of a history (plain Python against traits)."""
    lines = ["pool = [%s(ser=i) for i in range(%d)]   # n0..n%d%s"
             % ("TwinNode" if spec["alleq"] == "twin" else "EqNode" if spec["alleq"] else "Node",
                spec["npool"], spec["npool"] - 1,
                "; all nodes compare equal and hash equal" if spec["alleq"] == "twin" else
                "; all nodes compare equal" if spec["alleq"] else ""),
             "n%d = shared node, the constant default of .cdef of n0..n%d (%s)"
             % (spec["npool"], spec["npool"] - 1,
                "class body `cdef = n%d` overriding Instance('Node')" % spec["npool"]
                if spec.get("cflavour", "override") == "override" else "cdef = Any(n%d)" % spec["npool"])]
    if spec.get("mvals"):
        lines.append("metadata values of n0..n%d (class level: m1 tag, child/other link) and of traits added "
                     "later (x0 tag, items link): %s; the shared node has True"
                     % (spec["npool"] - 1, ", ".join("%s=%r" % (s_, META_VALUES[i])
                                                     for s_, i in sorted(spec["mvals"].items()))))
    if spec.get("dyn"):
        lines.append("for n in n0..n%d (and every probe node): n.add_trait(%r, %s)   # before observe()"
                     % (spec["npool"], spec["dyn"]["name"],
                        _trait_src(spec["dyn"]["name"], spec["dyn"]["kind"])))
    for act in actions:
        k = act[0]
        if k == "observe":
            rs = spec["regs"][act[1]]
            lines.append("n%d.observe(h%d, %s)   # form=%s" % (rs["root"], act[1], rs["show"], rs["form"]))
        elif k == "set":
            lines.append("n%d.%s = %s" % (act[1], act[2], "None" if act[3] is None else "n%d" % act[3]))
        elif k == "setcont":
            if CONTS.get(act[2], "list") == "dict":
                v = "{" + ", ".join("%r: n%d" % (a, b) for a, b in act[3]) + "}"
            else:
                v = "[" + ", ".join("n%d" % b for b in act[3]) + "]"
                if CONTS.get(act[2], "list") == "set":
                    v = "set(%s)" % v
            lines.append("n%d.%s = %s" % (act[1], act[2], v))
        elif k == "recont":
            lines.append("n%d.%s = copy_of(n%d.%s)   # equal but new container"
                         % (act[1], act[2], act[1], act[2]))
        elif k == "read":
            lines.append("n%d.%s   # read" % (act[1], act[2]))
        elif k == "add_trait":
            kd = act[3] if len(act) > 3 else None
            lines.append("n%d.add_trait(%r, %s)" % (act[1], act[2], _trait_src(act[2], kd)))
        elif k == "remove_trait":
            lines.append("n%d.remove_trait(%r)" % (act[1], act[2]))
        elif k == "redefine":
            lines.append("n%d.add_trait(%r, <same kind of trait>)   # the name is already defined"
                         % (act[1], act[2]))
        elif k == "setnest":
            lines.append("n%d.%s = %s" % (act[1], act[2], _nest_src(NESTED[act[2]], act[3])))
        elif k in ("no", "ni") and str(act[4 if k == "ni" else 3]).startswith("a_"):
            if k == "no":
                lines.append(_alias_src("n%d.%s" % (act[1], act[2]), act[3], act[4:]))
            else:
                lines.append(_alias_src("n%d.%s[%r]" % (act[1], act[2], act[3]), act[4], act[5:]))
        elif k in ("no", "na"):
            okind, ikind = NESTED[act[2]]
            args = _outer_args_src(okind, ikind, act[3], act[4:])
            if k == "na":
                lines.append("n%d.%s %s= %s   # augmented assignment through the attribute"
                             % (act[1], act[2], {"ior": "|", "iadd": "+", "imul": "*"}[act[3]], args))
            else:
                lines.append("c = n%d.%s; c.%s(%s)   # on the container object; list positions modulo len"
                             % (act[1], act[2], {"ior": "__ior__", "iadd": "__iadd__", "imul": "__imul__",
                                                 "set": "__setitem__", "del": "__delitem__",
                                                 "delitem": "__delitem__", "setitem": "__setitem__",
                                                 "update_pairs": "update"}.get(act[3], act[3]), args))
        elif k == "ni":
            lines.append("n%d.%s[%r].%s(%s)   # inner container; ints are pool indices / positions modulo len"
                         % (act[1], act[2], act[3], act[4], ", ".join(map(repr, act[5:]))))
        elif k == "aug":
            lines.append("n%d.%s %s= %s   # augmented assignment through the attribute, ints are pool indices"
                         % (act[1], act[2], {"ior": "|", "iadd": "+", "imul": "*", "ixor": "^", "isub": "-",
                                             "iand": "&"}[act[3]],
                            "n%d.%s" % (act[1], act[2]) if act[4] == "self" else repr(act[4])))
        elif k == "del":
            lines.append("del n%d.%s" % (act[1], act[2]))
        elif k == "reset":
            lines.append("n%d.reset_traits(%r)" % (act[1], act[2]))
        elif k == "reroot":
            lines.append("state = links and containers of n%d; del n%d (every reference; NOT unregistered); "
                         "n%d = Node(); %s   # same handlers, same expressions; the new root usually gets "
                         "the address of the dead one"
                         % (act[1], act[1], act[1],
                            "n%d takes the state; n%d.observe(...) again" % (act[1], act[1])
                            if act[2] == "before" else
                            "n%d.observe(...) again; n%d takes the state" % (act[1], act[1])))
        elif k == "snap":
            lines.append({"copy": "copy.copy(n%d)", "getstate": "n%d.__getstate__()",
                          "trait_get": "n%d.trait_get()"}[act[2]] % act[1] + "   # result discarded")
        else:
            a, tr, m, args = act[1], act[2], act[3], act[4:]
            tgt = "n%d.%s" % (a, tr)

            def nn(x):
                return "[" + ", ".join("n%d" % i for i in x) + "]" if isinstance(x, list) else "n%d" % x
            if m.startswith("a_"):
                line = _alias_src(tgt, m, args)
            elif m == "setitem":
                line = "%s[%d %% len] = %s" % (tgt, args[0], nn(args[1]))
            elif m == "set":
                line = "%s[%r] = %s" % (tgt, args[0], nn(args[1]))
            elif m in ("append", "add", "discard", "extend", "iadd", "update", "ixor", "isub", "iand") \
                    and act[0] != "d":
                line = "%s.%s(%s)" % (tgt, {"iadd": "__iadd__", "ixor": "symmetric_difference_update",
                                            "isub": "difference_update",
                                            "iand": "intersection_update"}.get(m, m), nn(args[0]))
            elif m == "remove" and act[0] == "s":
                line = "%s.remove(%s)" % (tgt, nn(args[0]))
            elif m == "insert":
                line = "%s.insert(%d %% (len+1), %s)" % (tgt, args[0], nn(args[1]))
            elif m == "setslice":
                line = "%s[i:j] = %s   # i,j = sorted(%d,%d modulo len+1)" % (tgt, nn(args[2]), args[0],
                                                                            args[1])
            elif m == "reslice":
                line = ("%s[i:j] = <%s of the removed objects>   # i,j = sorted(%d,%d modulo len+1); "
                        "dup: r+r, plus: r+[r[0]], front: [r[-1]]+r, tail: r[1:], uniq, first: [r[0]]*%d"
                        % (tgt, args[2], args[0], args[1], args[3] % 4))
            elif m == "extfirst":
                line = "%s[::2] = %s   # old = %s[::2]" % (
                    tgt, "[old[0]] * len(old)" if args[0] == "first" else "[old[1]] + old[1:]", tgt)
            elif m == "extslice":
                line = "%s[::2] = <as many items as needed, cycled from %s>" % (tgt, nn(args[0]))
            elif m == "setdefault":
                line = "%s.setdefault(%r, %s)" % (tgt, args[0], nn(args[1]))
            elif m == "update":
                line = "%s.update({%s})" % (tgt, ", ".join("%r: n%d" % (kk, b) for kk, b in args[0]))
            elif m == "remove":
                line = "%s.remove(%s[%d %% len])" % (tgt, tgt, args[0])
            else:
                line = "%s.%s(%s)   # list indices are taken modulo len" % (
                    tgt, {"del": "__delitem__", "delitem": "__delitem__", "imul": "__imul__"}.get(m, m),
                    ", ".join(map(repr, args)))
            lines.append(line)
    return lines


# ---------------------------------------------------------------------------
# generators
# ---------------------------------------------------------------------------


def _wchoice(rng, table):
    tot = sum(w for _, w in table)
    x = rng.random() * tot
    for v, w in table:
        x -= w
        if x < 0:
            return v
    return table[-1][0]


OP_TABLE = [("set", 16), ("setcont", 8), ("recont", 5), ("l", 24), ("d", 12), ("s", 10),
            ("read", 6), ("add_trait", 4), ("redefine", 4), ("snap", 4), ("aug", 4), ("del", 5)]
L_METHODS = [("append", 5), ("extend", 4), ("iadd", 1), ("insert", 3), ("setitem", 5), ("setslice", 3),
             ("extslice", 1), ("delitem", 3), ("delslice", 2), ("pop", 2), ("remove", 3), ("reverse", 1),
             ("sort", 1), ("clear", 1), ("imul", 1), ("reslice", 5), ("extfirst", 1)]
D_METHODS = [("set", 6), ("setdefault", 1), ("del", 3), ("pop", 2), ("update", 2), ("clear", 1),
             ("popitem", 1), ("respread", 1), ("ior", 2)]
S_METHODS = [("add", 6), ("discard", 3), ("remove", 2), ("pop", 1), ("clear", 1), ("update", 2),
             ("ixor", 1), ("isub", 1), ("iand", 1), ("op_ior", 1), ("op_ixor", 1), ("op_isub", 1),
             ("op_iand", 1)]


def gen_del_op(rng, W, names, a, focus=False):
    """`del` of one trait or reset_traits of a few: links, containers, nested containers,
    Int leaves and dynamic traits, holding a value or not.  focus: prefer a trait that
    holds a value and below which a registration observes something."""
    node = W.pool[a]
    pool = list(LINKS) + list(CONTS) + list(INTS) + list(W.added.get(id(node), ()))
    if rng.random() < 0.15:
        pool += list(NESTED)
    if focus:
        hot = [(i, key[2]) for i, p_ in enumerate(W.pool) for m in W.models for key in m.inner
               if key[0] == "t" and key[1] == id(p_) and key[2] in p_.__dict__ and id(p_) not in W.tainted]
        if hot and rng.random() < 0.8:
            a, nm = rng.choice(sorted(set(hot)))
            return ["del", a, nm] if rng.random() < 0.7 else \
                ["reset", a, [nm] + ([rng.choice(pool)] if rng.random() < 0.5 else [])]
    valued = [nm for nm in pool if nm in node.__dict__]
    pref = [nm for nm in valued if nm in names]

    def pick():
        r = rng.random()
        if pref and r < 0.5:
            return rng.choice(pref)
        if valued and r < 0.85:
            return rng.choice(valued)
        return rng.choice(pool)
    if rng.random() < 0.25:
        return ["reset", a, [pick() for _ in range(rng.randint(1, 3))]]
    return ["del", a, pick()]


def gen_op(rng, W, names, cyclic, delpat=False):
    """One concrete operation against the current world."""
    n = len(W.pool)
    visited = set()
    for m in W.models:
        for key in m.depths:
            if key[0] == "t":
                visited.add(key[1])
    vis_idx = [i for i, p in enumerate(W.pool) if id(p) in visited]
    roots = [r.spec["root"] for r in W.regs] or [0]
    links_pref = [x for x in LINKS if x in names] or list(LINKS)
    conts_pref = [x for x in CONTS if x in names] or list(CONTS)
    add_pref = [x for x in ADDABLE if x in names]
    table = OP_TABLE + ([("add_trait", 6)] if add_pref else [])
    # dynamic traits that could be taken away (remove_trait) to be added again later
    removable = [(i, nm) for i, p in enumerate(W.pool) if id(p) not in W.tainted
                 for nm in W.added.get(id(p), ())]
    if removable and W.regs:
        table = table + [("remove_trait", 8 if W.dyn else 3)]

    def pick_a():
        if vis_idx and rng.random() < 0.65:
            return rng.choice(vis_idx)
        return rng.randrange(n)

    def pick_b(a, none_ok=True):
        r = rng.random()
        if cyclic and r < 0.30:
            return rng.choice(roots + [a])
        if none_ok and r < 0.42:
            return None
        return rng.randrange(n)

    def pick_link():
        return rng.choice(links_pref) if rng.random() < 0.7 else rng.choice(LINKS)

    def pick_cont(kind=None):
        if kind is not None:
            return [c for c, k in CONTS.items() if k == kind][0]
        return rng.choice(conts_pref) if rng.random() < 0.7 else rng.choice(list(CONTS))

    for _ in range(12):
        a = pick_a()
        k = _wchoice(rng, table)
        node = W.pool[a]
        if k == "set":
            tr = pick_link()
            if "items" in W.added.get(id(node), ()) and rng.random() < 0.4:
                tr = "items"
            if W.added.get(id(node), {}).get("xlink") == "link" and rng.random() < (
                    0.55 if "xlink" in names else 0.1):
                tr = "xlink"
            op = ["set", a, tr, pick_b(a)]
        elif k == "aug":
            tr = pick_cont()
            kd = CONTS[tr]
            if kd == "list":
                op = ["aug", a, tr, "iadd", [pick_b(a, False) for _ in range(rng.randint(1, 2))]] \
                    if rng.random() < 0.75 else ["aug", a, tr, "imul", rng.choice([0, 2])]
            elif kd == "dict":
                op = ["aug", a, tr, "ior", [[rng.choice(KEYS), pick_b(a, False)]
                                            for _ in range(rng.randint(1, 2))]]
            else:
                op = ["aug", a, tr, rng.choice(["ior", "ior", "ixor", "isub", "iand"]),
                      [pick_b(a, False) for _ in range(rng.randint(1, 2))]]
        elif k == "redefine":
            # add_trait over a name that is already defined, preferably one that holds a
            # value and lies on the path of an observed expression
            cands = []
            for i, p_ in enumerate(W.pool):
                for nm in REDEFINABLE + tuple(W.added.get(id(p_), ())):
                    on_path = any(("t", id(p_), nm) in m.depths for m in W.models)
                    cands.append((3 * (nm in p_.__dict__) + 3 * on_path + 1, i, nm))
            tot = sum(c[0] for c in cands)
            x = rng.random() * tot
            for w, i, nm in cands:
                x -= w
                if x < 0:
                    break
            op = ["redefine", i, nm]
        elif k == "snap":
            fresh = [i for i in (vis_idx or range(n))
                     if any(nm not in W.pool[i].__dict__ for nm in ("lazy", "children", "cmap", "cset", "cdef"))]
            op = ["snap", rng.choice(fresh) if fresh and rng.random() < 0.8 else a,
                  rng.choice(["copy", "getstate", "trait_get"])]
        elif k == "del":
            op = gen_del_op(rng, W, names, a, delpat)
        elif k == "remove_trait":
            good = [x for x in removable if x[0] in vis_idx and x[1] in names]
            i, nm = rng.choice(good) if good and rng.random() < 0.75 else rng.choice(removable)
            op = ["remove_trait", i, nm]
        elif k == "setcont":
            tr = pick_cont()
            if W.cont_kind(node, "xlist") and rng.random() < (0.45 if "xlist" in names else 0.1):
                tr = "xlist"
            cnt = rng.randint(0, 3)
            if CONTS.get(tr, "list") == "dict":
                op = ["setcont", a, tr, [[rng.choice(KEYS), pick_b(a, False)] for _ in range(cnt)]]
            else:
                items = [pick_b(a, False) for _ in range(cnt)]
                if cnt >= 2 and rng.random() < 0.3:
                    items[1] = items[0]
                op = ["setcont", a, tr, items]
        elif k == "recont":
            op = ["recont", a, "xlist" if W.cont_kind(node, "xlist") and "xlist" in names
                  and rng.random() < 0.45 else pick_cont()]
        elif k == "read":
            if "cdef" in names and rng.random() < 0.5:
                op = ["read", a, "cdef"]
            else:
                op = ["read", a, rng.choice(["lazy", "lazy", "cdef", "children", "cmap", "cset", "child"])]
        elif k == "add_trait":
            if add_pref and rng.random() < 0.75:
                op = ["add_trait", a, rng.choice(add_pref)]
            else:
                op = ["add_trait", a, rng.choice(["x0", "x0", "y0", "items", "items"])]
        elif k == "l":
            tr = "children"
            if W.cont_kind(node, "xlist") and rng.random() < (0.6 if "xlist" in names else 0.1):
                tr = "xlist"
            m = _wchoice(rng, L_METHODS)
            b = pick_b(a, False)
            if m == "append":
                op = ["l", a, tr, m, b]
            elif m in ("extend", "iadd"):
                op = ["l", a, tr, m, [b, b] if rng.random() < 0.5 else [b, pick_b(a, False)]]
            elif m in ("insert", "setitem"):
                op = ["l", a, tr, m, rng.randrange(6), b]
            elif m == "setslice":
                op = ["l", a, tr, m, rng.randrange(6), rng.randrange(6),
                      [pick_b(a, False) for _ in range(rng.randint(0, 3))]]
            elif m == "extslice":
                op = ["l", a, tr, m, [b, pick_b(a, False)]]
            elif m in ("delitem", "pop", "remove"):
                op = ["l", a, tr, m, rng.randrange(6)]
            elif m == "delslice":
                op = ["l", a, tr, m, rng.randrange(6), rng.randrange(6)]
            elif m == "imul":
                op = ["l", a, tr, m, rng.choice([0, 2, 2])]
            elif m == "reslice":
                op = ["l", a, tr, m, rng.randrange(6), rng.randrange(6),
                      rng.choice(["dup", "plus", "front", "tail", "uniq", "first"]), rng.randrange(4)]
            elif m == "extfirst":
                op = ["l", a, tr, m, rng.choice(["first", "shift"])]
            else:
                op = ["l", a, tr, m]
        elif k == "d":
            tr = "cmap"
            m = _wchoice(rng, D_METHODS)
            if m in ("set", "setdefault"):
                op = ["d", a, tr, m, rng.choice(KEYS), pick_b(a, False)]
            elif m in ("del", "pop"):
                op = ["d", a, tr, m, rng.choice(KEYS)]
            elif m in ("update", "ior"):
                op = ["d", a, tr, m, [[rng.choice(KEYS), pick_b(a, False)]
                                      for _ in range(rng.randint(1, 2))]]
            else:
                op = ["d", a, tr, m]
        else:
            tr = "cset"
            m = _wchoice(rng, S_METHODS)
            if m in ("add", "discard", "remove"):
                op = ["s", a, tr, m, pick_b(a, False)]
            elif m in ("pop", "clear"):
                op = ["s", a, tr, m]
            else:
                op = ["s", a, tr, m, [pick_b(a, False) for _ in range(rng.randint(1, 3))]]
        if not cyclic and W.would_cycle(op):
            continue
        if W.unread_default_assign(op):
            continue                   # drawn in stratum 'm' only (open finding)
        if not delpat and W.del_rehook_pattern(op):
            continue                   # drawn in strata 'x' / 'y' only (open finding)
        if W.touches_tainted(op):
            continue                   # nodes whose hooks a remove_trait left undefined
        return op
    return ["read", 0, "child"]


ALIAS_EXPRS = ["cmap.items.value", "cmap:items.value", "cmap.items", "cmap.items:value", "child.cmap.items.value",
               "cmap.items.*", "cmap.items.child.value", "children.items.value", "children:items.value",
               "children.items", "children.items.[value,m1]", "child.children.items.value",
               "children.items.cmap.items.value", "cset.items.value", "cset:items.value", "cset.items",
               "child.cset.items.value", "cmap.items.cset.items.value", "[children,cset].items.value",
               "groups.items.items.value", "groups:items.items.value", "rows.items.items.value",
               "dsets.items.items.value", "ldicts.items.items.value", "ldicts.items:items.value",
               "child.groups.items.items.value"]


def gen_alias_op(rng, W, names, cyclic):
    """One operation whose argument aliases what the container stores: flat containers,
    inner containers of containers, and the outer containers themselves (whose stored
    objects are the inner containers)."""
    n = len(W.pool)
    visited = {key[1] for m in W.models for key in m.depths if key[0] == "t"}
    vis = [i for i, p_ in enumerate(W.pool) if id(p_) in visited] or list(range(n))
    hooked = {key[1] for m in W.models for key in m.depths if key[0] == "c"}
    cands = []
    for i, p_ in enumerate(W.pool):
        if id(p_) in W.tainted:
            continue
        for nm, kd, c in W.conts_of(p_):
            w = (5 if id(c) in hooked else 1) * (3 if len(c) else 1)
            if nm in NESTED:
                cands.append((w, "no", i, nm, None, kd, c))
                for key, inner in (list(c.items()) if kd == "dict" else list(enumerate(c))):
                    if _ckind(inner):
                        w2 = (5 if id(inner) in hooked else 1) * (3 if len(inner) else 1)
                        cands.append((w2, "ni", i, nm, key, _ckind(inner), inner))
            else:
                cands.append((w, "flat", i, nm, None, kd, c))
    if not cands:
        return None

    def sel(at_ok=True, nodes=True):
        r = rng.random()
        if at_ok and r < 0.4:
            return ["at"]
        if r < 0.72:
            return ["own", rng.randrange(4)]
        if not nodes:
            return ["twin", rng.randrange(4)]
        return ["pool", rng.choice(vis) if rng.random() < 0.7 else rng.randrange(n)]
    for _ in range(10):
        x = rng.random() * sum(cd[0] for cd in cands)
        for w, route, a, tr, isel, kd, c in cands:
            x -= w
            if x < 0:
                break
        nodes = route != "no"
        if route == "flat" and tr in CONTS and rng.random() < 0.12 and (kd != "list" or 0 < len(c) <= 4):
            # `a.tr OP= a.tr` through the attribute
            op = ["aug", a, tr, "iadd" if kd == "list" else "ior" if kd == "dict" else
                  rng.choice(["ior", "iand", "isub", "ixor"]), "self"]
        else:
            if kd == "dict":
                key = rng.choice(list(c)) if len(c) and rng.random() < 0.8 else rng.choice(KEYS)
                m = _wchoice(rng, [("a_pop", 6), ("a_setdefault", 2), ("a_set", 3), ("a_getset", 2),
                                   ("a_update", 3), ("a_updsel", 2)])
                if m == "a_update":
                    args = [rng.choice(DICT_UPDATE_MODES)]
                elif m == "a_updsel":
                    args = [[[rng.choice(list(c)) if len(c) and rng.random() < 0.7 else rng.choice(KEYS),
                              sel(True, nodes)] for _ in range(rng.randint(1, 3))],
                            rng.choice(["update", "update", "ior", "pairs"])]
                else:
                    args = [key, ["none"] if m == "a_pop" and rng.random() < 0.1 else sel(True, nodes)]
            elif kd == "list":
                m = _wchoice(rng, [("a_append", 2), ("a_insert", 2), ("a_setitem", 4), ("a_remove", 4),
                                   ("a_extend", 2), ("a_self", 6)])
                if m in ("a_append", "a_remove"):
                    args = [sel(False, nodes)]
                elif m == "a_insert":
                    args = [rng.randrange(6), sel(False, nodes)]
                elif m == "a_setitem":
                    args = [rng.randrange(6), sel(True, nodes)]
                elif m == "a_extend":
                    args = [[sel(False, nodes) for _ in range(rng.randint(1, 3))],
                            rng.choice(["extend", "iadd", "slice"])]
                else:
                    args = [rng.choice(LIST_SELF_MODES), rng.randrange(6), rng.randrange(6)]
            else:
                m = _wchoice(rng, [("a_add", 2), ("a_discard", 3), ("a_remove", 2), ("a_self", 6)])
                args = [rng.choice(sorted(SET_SELF_MODES)), rng.randrange(4)] if m == "a_self" else \
                    [["own", rng.randrange(4)] if rng.random() < 0.7 else
                     ["pool", rng.choice(vis) if rng.random() < 0.7 else rng.randrange(n)]]
            if route == "flat":
                op = [{"list": "l", "dict": "d", "set": "s"}[kd], a, tr, m] + args
            elif route == "ni":
                op = ["ni", a, tr, isel, m] + args
            else:
                op = ["no", a, tr, m] + args
        if not cyclic and W.would_cycle(op):
            continue
        if W.touches_tainted(op):
            continue
        return op
    return None


def alias_cases(quick):
    """Stratum 'a' (enumerated): container mutators whose argument aliases a stored
    object - the object stored at the addressed key / position, another stored object,
    an outsider (equal twin in the all-equal flavour), the container itself, its own
    items - on observed dicts, lists, sets and containers of containers; afterwards the
    object that left is put back and taken out again."""
    out = []
    A, O0, O1, P4 = ["at"], ["own", 0], ["own", 1], ["pool", 4]
    dfam = [
        # (name, cmap contents, ops)
        ("pop-stored-default", [["x", 2], ["y", 3]],
         [["a_pop", "x", A], ["set", "z", 2], ["a_pop", "z", A], ["a_pop", "y", ["pool", 3]]]),
        ("pop-stored-default-dup", [["x", 2], ["y", 2]], [["a_pop", "x", A], ["a_pop", "y", ["pool", 2]]]),
        ("pop-other-stored", [["x", 2], ["y", 3]], [["a_pop", "x", O1], ["a_pop", "y", A]]),
        ("pop-absent-stored", [["x", 2], ["y", 3]], [["a_pop", "z", O0], ["a_pop", "x", ["none"]]]),
        ("pop-outsider", [["x", 2], ["y", 3]], [["a_pop", "x", P4], ["a_pop", "z", P4], ["set", "x", 4]]),
        ("setdefault-stored", [["x", 2], ["y", 3]],
         [["a_setdefault", "x", A], ["a_setdefault", "z", O0], ["del", "x"], ["del", "z"]]),
        ("set-same", [["x", 2], ["y", 3]], [["a_set", "x", A], ["a_set", "y", O0], ["del", "x"], ["del", "y"]]),
        ("getset", [["x", 2], ["y", 3]],
         [["a_getset", "x", O1], ["a_getset", "z", O1], ["del", "y"], ["del", "z"]]),
        ("updsel", [["x", 2], ["y", 3]],
         [["a_updsel", [["x", A], ["y", O0], ["z", O1]], "update"], ["del", "x"], ["del", "y"], ["del", "z"]]),
    ] + [("update-" + mode, [["x", 2], ["y", 3]], [["a_update", mode], ["del", "x"], ["a_pop", "y", A]])
         for mode in DICT_UPDATE_MODES]
    lfam = [
        ("append-stored", [2, 3], [["a_append", O0], ["delitem", 0], ["a_remove", ["pool", 2]]]),
        ("insert-stored", [2, 3], [["a_insert", 1, O1], ["a_remove", O1], ["a_remove", O1]]),
        ("setitem-same", [2, 3], [["a_setitem", 0, A], ["a_setitem", 1, O0], ["delitem", 0], ["delitem", 0]]),
        ("remove-dup", [2, 2, 3], [["a_remove", O0], ["a_remove", ["pool", 2]], ["append", 2]]),
        ("remove-outsider", [2, 3], [["a_remove", P4], ["a_append", P4], ["a_remove", P4]]),
        ("extend-stored", [2, 3], [["a_extend", [O0, O0, O1], "extend"], ["delslice", 0, 2], ["clear"]]),
        ("iadd-stored", [2, 3], [["a_extend", [O1], "iadd"], ["a_remove", O1], ["a_remove", O1]]),
        ("slice-append-stored", [2, 3], [["a_extend", [O0], "slice"], ["delitem", 0], ["delitem", 1]]),
    ] + [("self-" + mode, [2, 3, 2], [["a_self", mode, 1, 3], ["delitem", 0], ["a_remove", ["pool", 2]]])
         for mode in LIST_SELF_MODES]
    sfam = [
        ("add-stored", [2, 3], [["a_add", O0], ["a_discard", O0], ["add", 2]]),
        ("discard-stored", [2, 3], [["a_discard", O1], ["add", 3], ["a_remove", O1]]),
        ("remove-stored", [2, 3], [["a_remove", O0], ["a_add", ["pool", 2]], ["a_discard", ["pool", 2]]]),
        ("discard-outsider", [2, 3], [["a_discard", P4], ["a_add", P4], ["a_discard", P4]]),
    ] + [("self-" + mode, [2, 3], [["a_self", mode, 0], ["add", 2], ["discard", 2]])
         for mode in sorted(SET_SELF_MODES)]
    texts = {
        "d": [("cmap.items.value", 0), ("cmap:items.value", 0), ("cmap.items", 0), ("cmap.items:value", 0),
              ("child.cmap.items.value", 1), ("cmap.items.*", 0)],
        "l": [("children.items.value", 0), ("children:items.value", 0), ("children.items", 0),
              ("child.children.items.value", 1), ("children.items.[value,m1]", 0)],
        "s": [("cset.items.value", 0), ("cset:items.value", 0), ("cset.items", 0), ("child.cset.items.value", 1)],
    }
    for kk, fam, tr in (("d", dfam, "cmap"), ("l", lfam, "children"), ("s", sfam, "cset")):
        for ti, (text, own) in enumerate(texts[kk]):
            for fi, (vname, content, ops) in enumerate(fam):
                for form in ("text", "expr"):
                    if quick and (ti + fi + (form == "expr")) % 2:
                        continue
                    pre = ([["set", 0, "child", 1]] if own else []) + [["setcont", own, tr, content]]
                    acts = pre + [["observe", 0]] + [[kk, own, tr] + list(o) for o in ops]
                    out.append((text, kk + ":" + vname, form, acts))
    # containers of containers: the stored objects of the outer container are inner containers
    nfam = [
        ("groups.items.items.value", [["setnest", 0, "groups", [["x", [2]], ["y", [3]]]]],
         [("outer-pop-stored-default", [["no", 0, "groups", "a_pop", "x", A],
                                        ["no", 0, "groups", "set", "x", [2]],
                                        ["no", 0, "groups", "a_pop", "x", ["twin", 0]]]),
          ("outer-set-same", [["no", 0, "groups", "a_set", "x", A], ["no", 0, "groups", "a_set", "z", O1],
                              ["no", 0, "groups", "del", "x"], ["no", 0, "groups", "del", "z"]]),
          ("outer-setdefault", [["no", 0, "groups", "a_setdefault", "x", A],
                                ["no", 0, "groups", "a_setdefault", "z", O0], ["no", 0, "groups", "del", "x"]]),
          ("outer-update-self", [["no", 0, "groups", "a_update", "self"],
                                 ["no", 0, "groups", "a_update", "copy_ior"], ["no", 0, "groups", "del", "x"]]),
          ("inner-remove-stored", [["ni", 0, "groups", "x", "a_append", O0],
                                   ["ni", 0, "groups", "x", "a_remove", O0],
                                   ["ni", 0, "groups", "x", "a_remove", ["pool", 2]]]),
          ("inner-self", [["ni", 0, "groups", "x", "a_self", "ext_self", 0, 1],
                          ["ni", 0, "groups", "x", "a_self", "all_self", 0, 1],
                          ["ni", 0, "groups", "x", "delitem", 0]])]),
        ("rows.items.items.value", [["setnest", 0, "rows", [[2], [3]]]],
         [("outer-setitem-same", [["no", 0, "rows", "a_setitem", 0, A], ["no", 0, "rows", "a_setitem", 1, O0],
                                  ["no", 0, "rows", "delitem", 0]]),
          ("outer-append-stored", [["no", 0, "rows", "a_append", O0], ["no", 0, "rows", "a_remove", O0],
                                   ["no", 0, "rows", "a_remove", ["twin", 0]]]),
          ("outer-self", [["no", 0, "rows", "a_self", "ext_self", 0, 1],
                          ["no", 0, "rows", "a_self", "all_self", 0, 1], ["no", 0, "rows", "delitem", 0]])]),
        ("dsets.items.items.value", [["setnest", 0, "dsets", [["x", [2, 3]]]]],
         [("inner-set-self", [["ni", 0, "dsets", "x", "a_self", "isub_self", 0],
                              ["ni", 0, "dsets", "x", "add", 2], ["ni", 0, "dsets", "x", "a_discard", O0]]),
          ("outer-pop-stored-default", [["no", 0, "dsets", "a_pop", "x", A],
                                        ["no", 0, "dsets", "set", "x", [2]]])]),
        ("ldicts.items.items.value", [["setnest", 0, "ldicts", [[["x", 2], ["y", 3]]]]],
         [("inner-pop-stored-default", [["ni", 0, "ldicts", 0, "a_pop", "x", A],
                                        ["ni", 0, "ldicts", 0, "set", "z", 2],
                                        ["ni", 0, "ldicts", 0, "a_pop", "z", A]]),
          ("inner-update-self", [["ni", 0, "ldicts", 0, "a_update", "self"],
                                 ["ni", 0, "ldicts", 0, "a_pop", "y", O1]])]),
    ]
    for text, pre, variants in nfam:
        for conn in (".", ":"):
            t2 = text.replace(".items.items", "%sitems.items" % conn, 1)
            for vname, ops in variants:
                for form in ("text", "expr"):
                    out.append((t2, "n:" + vname, form, pre + [["observe", 0]] + [list(o) for o in ops]))
    return out


def names_in(ast, acc=None):
    acc = set() if acc is None else acc
    k = ast[0]
    if k in ("name", "opt"):
        acc.add(ast[1])
    elif k == "meta" and ast[1] == "link":
        acc.update(("child", "other"))
    elif k == "meta":
        acc.add("x0")
    elif k == "any":
        acc.update(("x0", "y0"))
    elif k == "items":
        acc.add("items")
    elif k == "par":
        for a in ast[1]:
            names_in(a, acc)
    elif k == "ser":
        names_in(ast[1], acc)
        names_in(ast[3], acc)
    return acc


def make_reg(rng, ast, root, cyc=False, pbound=0.3):
    obj_only = has_object_only(ast)
    if obj_only:
        form = rng.choice(OBJECT_FORMS)
        text = None
        show = describe_ast(ast)
    else:
        form = rng.choice(TEXT_FORMS + OBJECT_FORMS + ("text", "text", "expr"))
        if ast[0] == "par" and rng.random() < 0.35:
            form = "list"              # documented list-of-expressions form, one entry per member
        text = render(ast)
        show = repr(text) if form in TEXT_FORMS else describe_ast(ast)
        # the text must mean what the AST means (our parser is the reader of the text)
        if dedupe_paths(den(parse_text(text))) != dedupe_paths(den(ast)):
            raise RuntimeError("harness: render/parse mismatch for %r" % (text,))
    if form == "paths" and len(dedupe_paths(den(ast))) > MAX_FLAT_PATHS:
        form = "expr"              # every `items` multiplies the flattened spelling by four
    return {"root": root, "ast": ast, "text": text, "form": form, "show": show,
            "bound": rng.random() < pbound, "list_first": rng.choice(["text", "expr"])}


def pick_ast(rng, ctx, cyc):
    r = rng.random()
    maxdepth = ctx.scale(3, 4) if ctx is not None else 3
    if cyc and r < 0.5:
        return parse_text(rng.choice(CYCLE_PRONE))
    if r < 0.30:
        return parse_text(rng.choice(CATALOGUE))
    if r < 0.38:
        return rng.choice(OBJECT_ONLY)
    return gen_expr(rng, maxdepth, cyc)


def seed_ops(rng, paths, root, npool, cyc, pre=True):
    """Operations that build a chain of objects along one path of the
    denotation, so that registrations start on (and histories keep hitting)
    non-trivial reachable graphs."""
    path = rng.choice(paths)
    ops, cur, used = [], root, {root}
    i = 0

    def nxt():
        if cyc and rng.random() < 0.25:
            return rng.choice([root, cur])
        free = [j for j in range(npool) if j not in used]
        j = rng.choice(free) if free and rng.random() < 0.85 else rng.randrange(npool)
        used.add(j)
        return j
    while i < len(path):
        kind, arg = path[i][0], path[i][1]
        if kind == "meta" and arg == "link":
            kind, arg = "trait", rng.choice(["child", "other"])
        if kind != "trait":
            break
        if arg in LINKS or arg == "xlink":
            if arg == "lazy" and rng.random() < 0.4:
                ops.append(["read", cur, "lazy"] if pre or rng.random() < 0.5 else
                           ["snap", cur, rng.choice(["copy", "getstate", "trait_get"])])
                break
            if arg == "cdef":
                # constant default: mostly left to be materialised by a read AFTER observe()
                r = rng.random()
                if r < (0.15 if pre else 0.6):
                    ops.append(["read", cur, "cdef"])
                    cur = npool                    # index of the shared default node
                    used.add(cur)
                    i += 1
                    continue
                if r < 0.75:
                    break
            n = nxt()
            ops.append(["set", cur, arg, n])
            cur = n
            i += 1
        elif arg in NESTED:
            okind, ikind = NESTED[arg]
            n = nxt()
            extra = [nxt() for _ in range(rng.choice([0, 1, 2]))]

            def inner(ms):
                return [[KEYS[q % 3], b] for q, b in enumerate(ms)] if ikind == "dict" else list(ms)
            inners = [inner([n] + extra[:1])] + ([inner(extra[1:])] if rng.random() < 0.5 else [])
            rng.shuffle(inners)
            ops.append(["setnest", cur, arg, [[KEYS[q], sp] for q, sp in enumerate(inners)]
                        if okind == "dict" else inners])
            cur = n
            i += 1
            for _ in range(2):
                if i < len(path) and (path[i][0] in CONT_CLS or path[i][1] == "items"):
                    i += 1
        elif arg in CONTS or arg == "xlist":
            n = nxt()
            members = [n] + [nxt() for _ in range(rng.choice([0, 0, 1, 2]))]
            if len(members) > 1 and rng.random() < 0.3:
                members[1] = members[0]            # the same object twice
            rng.shuffle(members)
            if CONTS.get(arg, "list") == "dict":
                ops.append(["setcont", cur, arg, [[KEYS[q % 3], b] for q, b in enumerate(members)]])
            else:
                ops.append(["setcont", cur, arg, members])
            cur = n
            i += 1
            if i < len(path) and (path[i][0] in CONT_CLS or path[i][1] == "items"):
                i += 1
        else:
            break
    return ops


def gen_nested_expr(rng):
    """Expression through a container of containers (typed)."""
    def conn():
        return rng.choice("..:")
    tr = rng.choice(list(NESTED))
    okind, ikind = NESTED[tr]
    r = rng.random()
    explicit = rng.random() < 0.15          # dict_items()/list_items()/set_items() instead of `items`
    it1 = (okind + "_items", False) if explicit else ("items",)
    it2 = (ikind + "_items", False) if explicit else ("items",)
    if r < 0.06:
        body = ("name", tr)
    elif r < 0.14:
        body = ("ser", ("name", tr), conn(), it1)
    elif r < 0.30:
        body = ("ser", ("ser", ("name", tr), conn(), it1), conn(), it2)
    else:
        tail = rng.choice([("name", "value"), ("name", "value"), ("name", "value"),
                           ("par", [("name", "value"), ("name", "m1")]), ("any",), ("meta", "tag"),
                           ("ser", ("name", "child"), conn(), ("name", "value")),
                           ("ser", ("ser", ("name", "children"), conn(), ("items",)), conn(),
                            ("name", "value"))])
        body = ("ser", ("ser", ("ser", ("name", tr), conn(), it1), conn(), it2), conn(), tail)
    pre = rng.choice([None, None, None, ("name", "child"), ("name", "other"),
                      ("par", [("name", "child"), ("name", "other")]), ("name", "cdef"),
                      ("ser", ("name", "children"), conn(), ("items",))])
    return body if pre is None else ("ser", pre, conn(), body)


def gen_nested_op(rng, W, names, cyclic):
    """Operation on a container of containers: outer mutations (inner containers come
    and go) on the container object or through the attribute, inner mutations,
    assignment of a whole structure."""
    n = len(W.pool)
    visited = {key[1] for m in W.models for key in m.depths if key[0] == "t"}
    vis = [i for i, p_ in enumerate(W.pool) if id(p_) in visited]
    pref = [t for t in NESTED if t in names] or list(NESTED)

    def spec(ikind):
        ms = [rng.randrange(n) for _ in range(rng.randint(0, 3))]
        if len(ms) > 1 and rng.random() < 0.25:
            ms[1] = ms[0]
        return [[rng.choice(KEYS), b] for b in ms] if ikind == "dict" else ms
    for _ in range(10):
        a = rng.choice(vis) if vis and rng.random() < 0.7 else rng.randrange(n)
        tr = rng.choice(pref) if rng.random() < 0.85 else rng.choice(list(NESTED))
        okind, ikind = NESTED[tr]
        cur = W.pool[a].__dict__.get(tr)
        r = rng.random()
        if r < 0.10:
            k_ = rng.randint(0, 3)
            op = ["setnest", a, tr, [[KEYS[q % 3], spec(ikind)] for q in range(k_)] if okind == "dict"
                  else [spec(ikind) for _ in range(k_)]]
        elif r < 0.16:
            op = ["recont", a, tr]
        elif r < 0.62:
            route = "na" if rng.random() < 0.22 else "no"
            if okind == "dict":
                m = _wchoice(rng, [("ior", 4)] if route == "na" else
                             [("set", 3), ("setdefault", 1), ("update", 2), ("update_pairs", 1), ("ior", 4),
                              ("del", 2), ("pop", 1), ("clear", 1), ("popitem", 1)])
                if m in ("set", "setdefault"):
                    op = [route, a, tr, m, rng.choice(KEYS), spec(ikind)]
                elif m in ("update", "update_pairs", "ior"):
                    op = [route, a, tr, m, [[rng.choice(KEYS), spec(ikind)] for _ in range(rng.randint(1, 2))]]
                elif m in ("del", "pop"):
                    op = [route, a, tr, m, rng.choice(list(cur) if cur else KEYS)]
                else:
                    op = [route, a, tr, m]
            else:
                m = _wchoice(rng, [("iadd", 3), ("imul", 1)] if route == "na" else
                             [("append", 3), ("insert", 1), ("setitem", 2), ("extend", 2), ("iadd", 3),
                              ("setslice", 2), ("delitem", 2), ("pop", 1), ("imul", 1), ("reverse", 1),
                              ("clear", 1)])
                if m == "append":
                    op = [route, a, tr, m, spec(ikind)]
                elif m in ("insert", "setitem"):
                    op = [route, a, tr, m, rng.randrange(5), spec(ikind)]
                elif m in ("extend", "iadd"):
                    op = [route, a, tr, m, [spec(ikind) for _ in range(rng.randint(1, 2))]]
                elif m == "setslice":
                    op = [route, a, tr, m, rng.randrange(5), rng.randrange(5),
                          [spec(ikind) for _ in range(rng.randint(0, 2))]]
                elif m in ("delitem", "pop"):
                    op = [route, a, tr, m, rng.randrange(5)]
                elif m == "imul":
                    op = [route, a, tr, m, rng.choice([0, 2])]
                else:
                    op = [route, a, tr, m]
        else:
            sel = rng.choice(list(cur) if cur else KEYS) if okind == "dict" else rng.randrange(4)
            b = rng.randrange(n)
            if ikind == "list":
                m = _wchoice(rng, [("append", 4), ("extend", 2), ("iadd", 2), ("insert", 1), ("setitem", 2),
                                   ("delitem", 2), ("pop", 1), ("remove", 1), ("clear", 1), ("reverse", 1),
                                   ("imul", 1), ("reslice", 1)])
                args = {"append": [b], "extend": [[b, rng.randrange(n)]], "iadd": [[b]],
                        "insert": [rng.randrange(4), b], "setitem": [rng.randrange(4), b],
                        "delitem": [rng.randrange(4)], "pop": [rng.randrange(4)], "remove": [rng.randrange(4)],
                        "clear": [], "reverse": [], "imul": [rng.choice([0, 2])],
                        "reslice": [rng.randrange(4), rng.randrange(4), rng.choice(["dup", "tail", "plus"]), 0]}[m]
            elif ikind == "set":
                m = _wchoice(rng, [("add", 4), ("discard", 2), ("update", 2), ("op_ior", 2), ("op_ixor", 1),
                                   ("op_isub", 1), ("pop", 1), ("clear", 1)])
                args = [] if m in ("pop", "clear") else [b] if m in ("add", "discard") else \
                    [[b, rng.randrange(n)]]
            else:
                m = _wchoice(rng, [("set", 4), ("update", 2), ("ior", 2), ("del", 2), ("pop", 1), ("clear", 1),
                                   ("setdefault", 1)])
                key = rng.choice(KEYS)
                args = [key, b] if m in ("set", "setdefault") else [key] if m in ("del", "pop") else \
                    [] if m == "clear" else [[[key, b]]]
            op = ["ni", a, tr, sel, m] + args
        if not cyclic and W.would_cycle(op):
            continue
        if W.touches_tainted(op):
            continue
        return op
    return ["read", 0, "child"]


def gen_dyn_expr(rng, name, kind):
    """Ordinary (non-optional) expression naming the dynamic trait `name`;
    returns (ast, terminal) - terminal: nothing is observed below the name."""
    def conn():
        return rng.choice("..:")
    r = rng.random()
    if kind == "int" or r < 0.22:
        body, terminal = ("name", name), True
        if kind == "int" and rng.random() < 0.25:
            body = ("par", [("name", "value"), ("name", name)])
    elif kind == "link":
        tail = rng.choice([("name", "value"), ("name", "value"), ("par", [("name", "value"), ("name", "m1")]),
                           ("meta", "tag"), ("any",), ("ser", ("name", "child"), conn(), ("name", "value")),
                           ("ser", ("ser", ("name", "children"), conn(), ("items",)), conn(),
                            ("name", "value")),
                           ("ser", ("name", name), conn(), ("name", "value"))])
        body, terminal = ("ser", ("name", name), conn(), tail), False
    else:
        if r < 0.42:
            body = ("ser", ("name", name), conn(), ("items",))
        else:
            tail = rng.choice([("name", "value"), ("name", "value"),
                               ("par", [("name", "value"), ("name", "m1")]), ("any",),
                               ("ser", ("name", "child"), conn(), ("name", "value"))])
            body = ("ser", ("ser", ("name", name), conn(), ("items",)), conn(), tail)
        terminal = False
    pre = rng.choice([None, None, ("name", "child"), ("name", "child"), ("name", "other"),
                      ("par", [("name", "child"), ("name", "other")]), ("name", "cdef"),
                      ("ser", ("name", "children"), conn(), ("items",)),
                      ("ser", ("name", "child"), conn(), ("name", "child"))])
    ast = body if pre is None else ("ser", pre, conn(), body)
    return ast, terminal


def random_history(ctx, rng, stratum):
    cyc = stratum == "c"
    npool = rng.randint(5, 6)
    nreg = 1 if rng.random() < 0.7 else 2
    regs = []
    dyn = None
    if stratum == "r":
        # named dynamic traits: exist before observe(), removed and added again later
        dname = rng.choice(DYN_NAMES)
        dyn = {"name": dname, "kind": ADDABLE[dname][0], "terminal": True}
    for k in range(nreg):
        root = 0 if (k == 0 or rng.random() < 0.5) else rng.randrange(npool)
        if dyn and (k == 0 or rng.random() < 0.5):
            ast, terminal = gen_dyn_expr(rng, dyn["name"], dyn["kind"])
            dyn["terminal"] = dyn["terminal"] and terminal
        elif stratum == "k" and (k == 0 or rng.random() < 0.5):
            ast = gen_nested_expr(rng)
        elif stratum == "b" and (k == 0 or rng.random() < 0.5) and rng.random() < 0.65:
            ast = parse_text(rng.choice(ALIAS_EXPRS))
        else:
            ast = pick_ast(rng, ctx, cyc)
            if stratum == "o":
                # something long-lived must lie below the root
                for _ in range(6):
                    if max(len(p_) for p_ in den(ast)) >= 2:
                        break
                    ast = pick_ast(rng, ctx, cyc)
        regs.append(make_reg(rng, ast, root, cyc, 0.5 if stratum == "o" else 0.3))
    if regs[0]["form"] == "list" and regs[0]["ast"][0] == "par" and rng.random() < 0.7:
        # the members of a list-form registration are also observed on their own (other
        # handler): each registration must follow its own expression only
        member = rng.choice(regs[0]["ast"][1][:2])
        alone = make_reg(rng, member, regs[0]["root"], cyc)
        if alone["form"] == "list":
            alone["form"] = "text"
            alone["show"] = repr(alone["text"])
        regs[1:] = [alone]
        nreg = 2
    spec = {"alleq": rng.random() < 0.25, "npool": npool, "regs": regs, "stratum": stratum,
            "cflavour": rng.choice(["override", "any"])}
    if dyn:
        spec["dyn"] = dyn
    if rng.random() < 0.55:
        # metadata values of this history: True / other truthy / defined-but-falsy / None
        spec["mvals"] = {s_: rng.choice([0, 1, 2, 3, 3, 4, 4, 5, 6, 7, 8]) for s_ in sorted(META_SLOTS)
                         if rng.random() < 0.8}
    names = set()
    for rs in regs:
        names_in(rs["ast"], names)
    plan = []                                  # ('op', op) | ('observe', k) | ('rand',)

    def seeds(k, pre=True):
        rs = regs[k]
        paths = dedupe_paths(den(rs["ast"]))
        out = []
        for _ in range(rng.choice([0, 1, 1, 2])):
            out += [("op", o) for o in seed_ops(rng, paths, rs["root"], npool, cyc, pre)]
        return out
    plan += seeds(0)
    plan += [("rand",)] * rng.randint(0, 3)
    plan.append(("observe", 0))
    body = [("rand",)] * rng.randint(8, 16)
    if nreg == 2:
        at = rng.randint(0, 6)
        body[at:at] = seeds(1) + [("observe", 1)]
    elif rng.random() < (0.7 if names & {"cdef", "lazy"} else 0.3):
        at = rng.randint(0, len(body))
        body[at:at] = seeds(0, False)
    if stratum == "o":
        # the observed roots are dropped without unregistering and replaced, 1-3 times
        for _ in range(rng.choice([1, 2, 2, 3])):
            body.insert(rng.randint(0, len(body)), ("reroot",))
    plan += body

    def gen(W, i):
        if i >= len(plan):
            return None
        item = plan[i]
        if item[0] == "observe":
            return ["observe", item[1]]
        if item[0] == "op":
            op = item[1]
            if (not cyc and W.would_cycle(op)) or W.unread_default_assign(op) or W.touches_tainted(op):
                return ["read", op[1], "child"]
            return op
        if item[0] == "reroot":
            roots = sorted({r.spec["root"] for r in W.regs})
            if not roots:
                return ["read", 0, "child"]
            return ["reroot", rng.choice(roots), rng.choice(["before", "before", "after"])]
        if W.pending_readd:
            # a removed dynamic trait usually comes back (at once when an expression requires
            # it), under the same kind or - if nothing is observed below it - another one
            idx, nm, kd = W.pending_readd[0]
            if any(m.degraded for m in W.models) or rng.random() < 0.8:
                if nm in DYN_NAMES:
                    below = dyn is not None and not dyn["terminal"] and nm == dyn["name"]
                    if not below and rng.random() < 0.4:
                        kd = rng.choice(["int", "link", "list"])
                    W.after_readd = (idx, nm, kd)
                    return ["add_trait", idx, nm, kd]
                return ["add_trait", idx, nm]
            W.pending_readd.pop(0)
        if W.after_readd:
            # ... and is used again: assign / mutate through it
            (idx, nm, kd), W.after_readd = W.after_readd, None
            if rng.random() < 0.8 and kd in ("link", "list"):
                free = [j for j, n in enumerate(W.pool) if id(n) not in W.tainted and j != idx]
                rng.shuffle(free)
                for b in free[:4]:
                    op = ["set", idx, nm, b] if kd == "link" else \
                        rng.choice([["l", idx, nm, "append", b], ["setcont", idx, nm, [b]],
                                    ["l", idx, nm, "extend", [b, b]]])
                    if cyc or not W.would_cycle(op):
                        return op
        if W.last_redef is not None:
            # after re-defining a trait that holds a value: usually detach (part of) the value
            (o, nm), W.last_redef = W.last_redef, None
            idx = [j for j, n_ in enumerate(W.pool) if n_ is o]
            v = o.__dict__.get(nm)
            if idx and rng.random() < 0.75 and id(o) not in W.tainted:
                if isinstance(v, Node):
                    free = [j for j, n_ in enumerate(W.pool) if n_ is not v and id(n_) not in W.tainted]
                    op = ["set", idx[0], nm, rng.choice(free + [None])]
                    if cyc or not W.would_cycle(op):
                        return op
                elif _ckind(v) == "list" and len(v):
                    return rng.choice([["l", idx[0], nm, "delitem", rng.randrange(len(v))],
                                       ["l", idx[0], nm, "pop", rng.randrange(len(v))],
                                       ["setcont", idx[0], nm, []], ["recont", idx[0], nm]])
                elif _ckind(v) == "dict" and len(v):
                    return rng.choice([["d", idx[0], nm, "del", next(iter(v))], ["d", idx[0], nm, "clear"],
                                       ["setcont", idx[0], nm, []]])
                elif _ckind(v) == "set" and len(v):
                    return rng.choice([["s", idx[0], nm, "pop"], ["s", idx[0], nm, "clear"],
                                       ["setcont", idx[0], nm, []]])
        if W.last_rep is not None:
            # after a multiplicity-changing slice assignment: usually take one
            # occurrence of an involved object out of the list again
            objs, W.last_rep = W.last_rep, None
            if rng.random() < 0.75:
                for ai, n in enumerate(W.pool):
                    for tr, kd, c in W.conts_of(n):
                        if kd != "list" or id(n) in W.tainted:
                            continue
                        idxs = [j for j, x in enumerate(c) if any(x is o for o in objs)]
                        if idxs and any(c[j] is objs[0] for j in idxs):
                            return ["l", ai, tr, rng.choice(["delitem", "pop", "remove"]),
                                    rng.choice(idxs)]
        if stratum == "b":
            # arguments that alias stored objects; an object that left through such an op
            # is then put back and taken out again
            if W.alias_follow:
                op = W.alias_follow.pop(0)
                if not W.touches_tainted(op):
                    return op
            if rng.random() < 0.45:
                op = gen_alias_op(rng, W, names, cyc)
                if op is not None:
                    return op
        if stratum == "k" and rng.random() < 0.6:
            return gen_nested_op(rng, W, names, cyc)
        if stratum == "o":
            # nothing may point at an observed root: it is about to be dropped and collected
            roots = {r.spec["root"] for r in W.regs} | {0}
            for _ in range(8):
                op = gen_op(rng, W, names, cyc)
                if not (roots & set(W.targets(op))):
                    return op
            return ["read", 0, "child"]
        if stratum == "y":
            if rng.random() < 0.3:
                a = rng.randrange(len(W.pool))
                op = gen_del_op(rng, W, names, a, True)
                if not W.touches_tainted(op) and (cyc or not W.would_cycle(op)):
                    return op
            return gen_op(rng, W, names, cyc, True)
        return gen_op(rng, W, names, cyc)
    return spec, [], gen


def named_dynamic_cases():
    """Stratum 'n' (enumerated): a named dynamic trait that exists when an
    ordinary expression is observed is removed and added again (same or another
    kind), then used again."""
    out = []
    exprs = {
        "int": ["xint", "child.xint", "child:xint", "[value,xint]", "children.items.xint",
                "[child,other].xint"],
        "link": ["xlink", "child.xlink", "xlink.value", "child.xlink.value", "child:xlink:value",
                 "xlink:value", "children.items.xlink.value", "xlink.children.items.value",
                 "child.xlink.*"],
        "list": ["xlist", "xlist.items", "xlist.items.value", "child.xlist.items.value",
                 "child:xlist:items:value", "child.xlist"],
    }
    for kind, texts in exprs.items():
        name = "x" + kind
        for text in texts:
            terminal = text.endswith(name) or text.endswith(name + "]")
            if text.startswith("child") and not text.startswith("children"):
                pre, own = [["set", 0, "child", 1]], 1
            elif text.startswith("[child"):
                pre, own = [["set", 0, "child", 1], ["set", 0, "other", 1]], 1
            elif text.startswith("children"):
                pre, own = [["setcont", 0, "children", [1, 2]]], 1
            else:
                pre, own = [], 0
            use1 = {"int": [], "link": [["set", own, name, 3]],
                    "list": [["setcont", own, name, [3, 4]]]}[kind]
            use2 = {"int": [], "link": [["set", own, name, 4], ["set", own, name, None]],
                    "list": [["l", own, name, "append", 4], ["l", own, name, "delitem", 0]]}[kind]
            flows = [("same", [["remove_trait", own, name], ["add_trait", own, name, kind]] + use2),
                     ("twice", [["remove_trait", own, name], ["add_trait", own, name, kind],
                                ["remove_trait", own, name], ["add_trait", own, name, kind]] + use2),
                     ("unset", None)]
            if terminal:
                other = {"int": "link", "link": "list", "list": "int"}[kind]
                flows.append(("other-kind", [["remove_trait", own, name], ["add_trait", own, name, other]]
                              + {"int": [], "link": [["set", own, name, 4]],
                                 "list": [["setcont", own, name, [4]]]}[other]))
            for fname, post in flows:
                for form in ("text", "expr"):
                    if post is None:      # the trait was never given a value before the removal
                        acts = pre + [["observe", 0], ["remove_trait", own, name],
                                      ["add_trait", own, name, kind]] + use1
                    else:
                        acts = pre + use1 + [["observe", 0]] + post
                    out.append((kind, name, terminal, text, fname, form, acts))
    return out


def redefine_snapshot_cases():
    """Strata 'f' and 's' (enumerated).  f: add_trait over an already defined name
    that holds a value on the path of the expression, then the value (or an item) is
    detached.  s: a state snapshot (copy.copy / __getstate__ / trait_get) materialises
    never-read defaults after observe(), then the defaults are used."""
    out = []
    redef = [
        ("child", None, ["child.value", "child:value", "child.child.value", "child.*"],
         [["set", 0, "child", 1], ["set", 1, "child", 2]],
         [["set", 0, "child", 3], ["set", 0, "child", None]]),
        ("children", None, ["children.items.value", "children:items:value", "children.items",
                            "children.items.child.value"],
         [["setcont", 0, "children", [1, 2]]],
         [["l", 0, "children", "delitem", 0], ["setcont", 0, "children", [3]]]),
        ("cmap", None, ["cmap.items.value", "cmap:items:value"],
         [["setcont", 0, "cmap", [["x", 1], ["y", 2]]]],
         [["d", 0, "cmap", "del", "x"], ["setcont", 0, "cmap", [["x", 3]]]]),
        ("cset", None, ["cset.items.value", "cset:items:value"],
         [["setcont", 0, "cset", [1, 2]]],
         [["s", 0, "cset", "discard", 1], ["setcont", 0, "cset", [3]]]),
        ("xlink", "link", ["xlink.value", "xlink:value", "child.xlink.value"],
         [["set", 0, "child", 0], ["set", 0, "xlink", 1]],
         [["set", 0, "xlink", 3], ["set", 0, "xlink", None]]),
        ("xlist", "list", ["xlist.items.value", "xlist:items:value"],
         [["setcont", 0, "xlist", [1, 2]]],
         [["l", 0, "xlist", "delitem", 0], ["setcont", 0, "xlist", [3]]]),
        ("value", None, ["value", "child.value"], [["set", 0, "child", 1]], []),
    ]
    for name, dkind, texts, pre, post in redef:
        for text in texts:
            if name == "xlink" and text.startswith("child"):
                pre_ = [["set", 0, "child", 1], ["set", 1, "xlink", 2]]
                post_ = [["set", 1, "xlink", 3], ["set", 1, "xlink", None]]
                own = 1
            else:
                pre_, post_ = [p_ for p_ in pre if p_ != ["set", 0, "child", 0]], post
                own = 1 if (name == "value" and text.startswith("child")) else 0
            for form in ("text", "expr"):
                for twice in (False, True):
                    acts = pre_ + [["observe", 0]] + [["redefine", own, name]] * (2 if twice else 1) + post_
                    out.append(("f", name, dkind, text, form, acts))
    snaps = [
        ("lazy.value", [], 0, [["set", 0, "lazy", 2]]),
        ("lazy:value", [], 0, []),
        ("children.items.value", [], 0, [["l", 0, "children", "append", 2], ["l", 0, "children", "delitem", 0]]),
        ("children.items", [], 0, [["l", 0, "children", "append", 2]]),
        ("cmap.items.value", [], 0, [["d", 0, "cmap", "set", "x", 2], ["d", 0, "cmap", "del", "x"]]),
        ("cset.items.value", [], 0, [["s", 0, "cset", "add", 2], ["s", 0, "cset", "discard", 2]]),
        ("cdef.value", [], 0, [["set", 0, "cdef", 2]]),
        ("child.lazy.value", [["set", 0, "child", 1]], 1, []),
        ("child.children.items.value", [["set", 0, "child", 1]], 1, [["l", 1, "children", "append", 2]]),
        ("children.items.lazy.value", [["setcont", 0, "children", [1, 2]]], 2, [["snap", 1, "copy"]]),
        ("lazy.lazy.value", [], 0, [["snap", 5, "getstate"]]),
    ]
    for text, pre, own, post in snaps:
        for how in ("copy", "getstate", "trait_get"):
            for form in ("text", "expr"):
                out.append(("s", how, None, text, form, pre + [["observe", 0], ["snap", own, how]] + post))
    return out


def nested_route_cases():
    """Stratum 'g' (enumerated): a container enters a container of containers (or an
    item a flat container) by every in-place route - on the container object held in
    a variable and as an augmented assignment through the attribute - then is used."""
    out = []
    for tr, (okind, ikind) in NESTED.items():
        def sp(*idx):
            return [[KEYS[q], b] for q, b in enumerate(idx)] if ikind == "dict" else list(idx)
        texts = ["%s.items.items.value" % tr, "%s:items:items:value" % tr, "%s.items.items" % tr,
                 "child.%s.items.items.value" % tr]
        if okind == "dict":
            pre0 = [["setnest", 0, tr, [["x", sp(1, 2)]]]]
            routes = [("set", ["no", 0, tr, "set", "y", sp(3)]),
                      ("setdefault", ["no", 0, tr, "setdefault", "y", sp(3)]),
                      ("update", ["no", 0, tr, "update", [["y", sp(3)]]]),
                      ("update-pairs", ["no", 0, tr, "update_pairs", [["y", sp(3)]]]),
                      ("ior-new-key", ["no", 0, tr, "ior", [["y", sp(3)]]]),
                      ("ior-old-key", ["no", 0, tr, "ior", [["x", sp(3)]]]),
                      ("ior-both", ["no", 0, tr, "ior", [["x", sp(1)], ["z", sp(3)]]]),
                      ("attr-ior", ["na", 0, tr, "ior", [["y", sp(3)]]])]
            sel, drop = {"ior-old-key": "x", "ior-both": "z"}, "del"
        else:
            pre0 = [["setnest", 0, tr, [sp(1, 2)]]]
            routes = [("append", ["no", 0, tr, "append", sp(3)]),
                      ("insert", ["no", 0, tr, "insert", 0, sp(3)]),
                      ("setitem", ["no", 0, tr, "setitem", 0, sp(3)]),
                      ("extend", ["no", 0, tr, "extend", [sp(3), sp(2)]]),
                      ("iadd", ["no", 0, tr, "iadd", [sp(3)]]),
                      ("setslice", ["no", 0, tr, "setslice", 0, 1, [sp(3), sp(1)]]),
                      ("imul", ["no", 0, tr, "imul", 2]),
                      ("attr-iadd", ["na", 0, tr, "iadd", [sp(3)]]),
                      ("attr-imul", ["na", 0, tr, "imul", 2])]
            sel, drop = {}, "delitem"
        use = {"list": ["append", 4], "set": ["add", 4], "dict": ["set", "z", 4]}[ikind]
        for text in texts:
            child = text.startswith("child")
            for rname, rop in routes:
                for form in ("text", "expr"):
                    if form == "expr" and text != texts[0]:
                        continue
                    own = 1 if child else 0
                    fix = lambda o: [o[0], own] + o[2:]               # noqa: E731
                    s_ = sel.get(rname, "y") if okind == "dict" else (0 if rname in ("insert", "setitem",
                                                                                     "setslice") else -1)
                    acts = ([["set", 0, "child", 1]] if child else []) + [fix(o) for o in pre0] \
                        + [["observe", 0], fix(rop), ["ni", own, tr, s_] + use,
                           ["no", own, tr, drop, s_ if okind == "dict" else s_ % 2]]
                    out.append((tr, rname, text, form, acts))
    # explicit (non-optional) item observers through the nested dict of lists
    ast = ("ser", ("ser", ("ser", ("name", "groups"), ".", ("dict_items", False)), ".",
                   ("list_items", False)), ".", ("name", "value"))
    for rname, rop in (("ior-new-key", ["no", 0, "groups", "ior", [["y", [3]]]]),
                       ("attr-ior", ["na", 0, "groups", "ior", [["y", [3]]]]),
                       ("update", ["no", 0, "groups", "update", [["y", [3]]]])):
        out.append(("groups", rname, ast, "expr",
                    [["setnest", 0, "groups", [["x", [1, 2]]]], ["observe", 0], rop,
                     ["ni", 0, "groups", "y", "append", 4]]))
    # flat containers: the operators themselves, on the object and through the attribute
    flat = [("cmap", "cmap.items.value", [["setcont", 0, "cmap", [["x", 1]]]],
             [["d", 0, "cmap", "ior", [["y", 3]]], ["aug", 0, "cmap", "ior", [["z", 4]]],
              ["d", 0, "cmap", "del", "y"]]),
            ("cset", "cset.items.value", [["setcont", 0, "cset", [1, 2]]],
             [["s", 0, "cset", "op_ior", [3]], ["s", 0, "cset", "op_ixor", [3, 4]],
              ["aug", 0, "cset", "ior", [3]], ["aug", 0, "cset", "isub", [1]], ["s", 0, "cset", "op_iand", [2]]]),
            ("children", "children.items.value", [["setcont", 0, "children", [1]]],
             [["aug", 0, "children", "iadd", [3, 3]], ["aug", 0, "children", "imul", 2],
              ["l", 0, "children", "delitem", 0], ["aug", 0, "children", "imul", 0]])]
    for tr, text, pre, post in flat:
        for form in ("text", "expr"):
            for quiet in (False, True):
                t = text.replace(".items.", ":items:") if quiet else text
                out.append((tr, "flat-operators", t, form, pre + [["observe", 0]] + post))
    return out


def list_form_cases():
    """Stratum 'l' (enumerated): the documented list-of-expressions form, then the
    members observed on their own by other handlers (same root, other root)."""
    out = []
    pairs = [("child.value", "other.m1"), ("value", "children.items.value"),
             ("cmap.items.value", "cset.items:m1"), ("lazy.value", "m1"), ("child.*", "other.+tag"),
             ("children.items", "child.children.items.value")]
    pre = [["set", 0, "child", 1], ["set", 0, "other", 2], ["setcont", 0, "children", [3]],
           ["setcont", 0, "cmap", [["x", 3]]], ["setcont", 0, "cset", [4]], ["set", 4, "child", 1],
           ["set", 4, "other", 3], ["setcont", 1, "children", [2]]]
    post = [["set", 0, "other", 4], ["l", 0, "children", "append", 2], ["s", 0, "cset", "add", 1]]
    for e, f in pairs:
        for first in ("text", "expr"):
            for alone_form in ("text", "expr", "parse", "func", "graphs"):
                for root2 in (0, 4):
                    regs = [("%s, %s" % (e, f), "list", 0, first), (e, alone_form, root2, "text"),
                            (f, alone_form, 0, "text")]
                    out.append((e, f, regs, pre + [["observe", 0], ["observe", 1], ["observe", 2]] + post))
    return out


def multiplicity_cases():
    """Stratum 'm' (enumerated): (1) one list event with the same object on both
    sides a different number of times, then one occurrence leaves the list;
    (2) a constant default that is itself observable, materialised by a read
    after observe(), then replaced."""
    out = []
    lists = [
        ("grow", [["setcont", 0, "children", [1, 2]]],
         [["l", 0, "children", "reslice", 0, 1, "dup", 0], ["l", 0, "children", "delitem", 0]]),
        ("shrink", [["setcont", 0, "children", [1, 1, 2]]],
         [["l", 0, "children", "reslice", 0, 2, "tail", 0], ["l", 0, "children", "remove", 0]]),
        ("plus-pop", [["setcont", 0, "children", [2, 1]]],
         [["l", 0, "children", "reslice", 1, 2, "plus", 0], ["l", 0, "children", "pop", 2]]),
        ("uniq", [["setcont", 0, "children", [1, 2, 1]]],
         [["l", 0, "children", "reslice", 0, 3, "uniq", 0], ["l", 0, "children", "delitem", 0]]),
        ("first3", [["setcont", 0, "children", [1, 2]]],
         [["l", 0, "children", "reslice", 0, 2, "first", 3], ["l", 0, "children", "delslice", 0, 2]]),
        ("ext-first", [["setcont", 0, "children", [1, 2, 3]]],
         [["l", 0, "children", "extfirst", "first"], ["l", 0, "children", "delitem", 0]]),
        ("ext-shift", [["setcont", 0, "children", [1, 2, 3, 2, 4]]],
         [["l", 0, "children", "extfirst", "shift"], ["l", 0, "children", "delitem", 2]]),
        ("imul-dup", [["setcont", 0, "children", [1, 1]]],
         [["l", 0, "children", "imul", 2], ["l", 0, "children", "delslice", 0, 3]]),
        ("sort-dup", [["setcont", 0, "children", [1, 2, 1]]],
         [["l", 0, "children", "sort"], ["l", 0, "children", "delitem", 0]]),
        ("reverse-dup", [["setcont", 0, "children", [1, 1, 2]]],
         [["l", 0, "children", "reverse"], ["l", 0, "children", "remove", 2]]),
    ]
    lexprs = [parse_text(t) for t in ("children.items.value", "children:items:value",
                                      "children.items.[value,m1]", "children.items.*")] \
        + [OBJECT_ONLY[0]]
    for ast in lexprs:
        for vname, pre, post in lists:
            for form in (("text", "expr", "paths") if not has_object_only(ast) else ("expr", "paths")):
                out.append(("mult", ast, vname, form, "override", pre + [["observe", 0]] + post))
    # constant default: shared node has pool index 5 (npool == 5)
    consts = [
        ("read-then-replace", [], [["read", 0, "cdef"], ["set", 5, "child", 1], ["set", 0, "cdef", 2]]),
        ("replace-unread", [], [["set", 0, "cdef", 2], ["set", 0, "cdef", None]]),
        ("read-before", [["read", 0, "cdef"]], [["set", 0, "cdef", 2], ["set", 0, "cdef", 5]]),
        ("self-assign-unread", [], [["set", 0, "cdef", 5], ["set", 0, "cdef", 2]]),
    ]
    for text in ("cdef.value", "cdef:value", "cdef.*", "cdef.child.value", "cdef.+tag"):
        for vname, pre, post in consts:
            for form in ("text", "expr", "paths"):
                for flav in ("override", "any"):
                    out.append(("const", parse_text(text), vname, form, flav,
                                pre + [["observe", 0]] + post))
    for flav in ("override", "any"):
        out.append(("const", parse_text("child.cdef.value"), "nested-read", "text", flav,
                    [["set", 0, "child", 1], ["observe", 0], ["read", 1, "cdef"], ["set", 0, "child", 2],
                     ["read", 2, "cdef"], ["set", 1, "cdef", None]]))
        out.append(("const", parse_text("children.items.cdef:value"), "unread-assign-shared-hooked",
                    "text", flav,
                    [["setcont", 0, "children", [1, 2]], ["read", 2, "cdef"], ["observe", 0],
                     ["set", 1, "cdef", 2]]))
        out.append(("const", parse_text("[child,other].cdef.value"), "unread-assign-shared-hooked",
                    "expr", flav,
                    [["set", 0, "child", 1], ["set", 0, "other", 2], ["observe", 0], ["read", 1, "cdef"],
                     ["set", 2, "cdef", None]]))
        out.append(("const", parse_text("children.items.cdef:value"), "items-read", "expr", flav,
                    [["setcont", 0, "children", [1, 2]], ["observe", 0], ["read", 2, "cdef"],
                     ["read", 1, "cdef"], ["l", 0, "children", "delitem", 0]]))
    return out


def metadata_value_cases(quick):
    """Stratum 'v' (enumerated): metadata expressions over traits whose metadata VALUE is
    every kind of defined value (True, other truthy, False, 0, '', (), 0.0) or None
    (= undefined, not matched): class-level traits, traits added later, links that are
    followed through a metadata step."""
    out = []
    texts = ["+tag", "child.+tag", "+link.value", "+link:+tag", "children.items.+tag",
             "+link.+link.value", "+link", "+link:value", "[child,other].+tag"]
    pre = [["set", 0, "child", 1], ["set", 0, "other", 2], ["setcont", 0, "children", [3]],
           ["set", 1, "child", 3], ["set", 2, "other", 4]]
    post = [["add_trait", 0, "x0"], ["add_trait", 1, "x0"], ["add_trait", 3, "x0"],
            ["add_trait", 0, "items"], ["set", 0, "items", 4], ["add_trait", 4, "x0"],
            ["set", 0, "other", 4], ["set", 0, "child", None], ["set", 0, "items", None]]
    variants = [("uniform-%d" % vi, {s_: vi for s_ in META_SLOTS}) for vi in range(2, 9)]
    variants += [("mixed-a", {"child": 0, "other": 3, "m1": 4, "x0": 5, "items": 7}),
                 ("mixed-b", {"child": 8, "other": 4, "m1": 8, "x0": 3, "items": 6}),
                 ("mixed-c", {"child": 5, "other": 8, "m1": 6, "x0": 8, "items": 3})]
    for ti, text in enumerate(texts):
        for vj, (vname, mvals) in enumerate(variants):
            for form in ("text", "expr"):
                if quick and (ti + vj + (form == "expr")) % 2:
                    continue
                out.append((text, vname, mvals, form, pre + [["observe", 0]] + post))
    return out


def reroot_cases(quick):
    """Stratum 'w' (enumerated): a root observing long-lived shared sub-objects is dropped
    WITHOUT unregistering and collected; a new root created right away takes over the
    sub-objects and observes the same expression with the same (still alive) handler -
    twice in a row; then the links are mutated."""
    out = []
    fam = [
        ("child.value", [["set", 0, "child", 1]], [["set", 0, "child", 2], ["set", 0, "child", None]]),
        ("child:value", [["set", 0, "child", 1]], [["set", 0, "child", 2]]),
        ("child.*", [["set", 0, "child", 1]], [["set", 0, "child", 2]]),
        ("child.+tag", [["set", 0, "child", 1]], [["add_trait", 1, "x0"], ["set", 0, "child", 2]]),
        ("child.child.value", [["set", 0, "child", 1], ["set", 1, "child", 2]],
         [["set", 1, "child", 3], ["set", 0, "child", 3]]),
        ("[child,other].value", [["set", 0, "child", 1], ["set", 0, "other", 1]], [["set", 0, "other", 2]]),
        ("children.items.value", [["setcont", 0, "children", [1, 2, 1]]],
         [["l", 0, "children", "delitem", 0], ["l", 0, "children", "append", 3]]),
        ("cmap.items.value", [["setcont", 0, "cmap", [["x", 1], ["y", 2]]]], [["d", 0, "cmap", "del", "x"]]),
        ("cset.items.value", [["setcont", 0, "cset", [1, 2]]], [["s", 0, "cset", "discard", 1]]),
        ("child.children.items.value", [["set", 0, "child", 1], ["setcont", 1, "children", [2, 3]]],
         [["l", 1, "children", "append", 4], ["l", 1, "children", "delitem", 0]]),
        ("child.cmap.items.cset.items.value",
         [["set", 0, "child", 1], ["setcont", 1, "cmap", [["x", 2]]], ["setcont", 2, "cset", [3, 4]]],
         [["s", 2, "cset", "discard", 3], ["d", 1, "cmap", "set", "y", 4]]),
        ("lazy.value", [["read", 0, "lazy"]], [["set", 0, "lazy", 2]]),
        ("cdef.value", [["read", 0, "cdef"]], [["set", 5, "child", 1], ["set", 0, "cdef", 2]]),
        ("groups.items.items.value", [["setnest", 0, "groups", [["x", [1, 2]]]]],
         [["ni", 0, "groups", "x", "append", 3]]),
        ("+link.value", [["set", 0, "child", 1], ["set", 0, "other", 2]], [["set", 0, "other", 3]]),
    ]
    for fi, (text, pre, post) in enumerate(fam):
        for bound in (False, True):
            for mode in ("before", "after"):
                for form in ("text", "expr"):
                    if quick and (fi + bound + (mode == "after") + (form == "expr")) % 2:
                        continue
                    acts = pre + [["observe", 0], ["reroot", 0, mode], ["reroot", 0, mode]] + post \
                        + [["reroot", 0, "before"]]
                    out.append((text, bound, mode, form, acts))
    return out


def del_cases(quick):
    """Stratum 'x' (enumerated): `del obj.name` / reset_traits as the mutation of an
    observed link, container or leaf - holding an assigned value, a materialised
    default, or nothing - then the trait is used again and the value replaced."""
    out = []
    fam = [
        # (expression, owner, trait, pre, use-after)
        ("child.value", 0, "child", [["set", 0, "child", 1]], [["set", 0, "child", 2], ["set", 0, "child", None]]),
        ("child:value", 0, "child", [["set", 0, "child", 1]], [["set", 0, "child", 2]]),
        ("child.value", 0, "child", [], [["set", 0, "child", 2]]),
        ("child.child.value", 1, "child", [["set", 0, "child", 1], ["set", 1, "child", 2]],
         [["set", 1, "child", 3]]),
        ("[child,other].value", 0, "other", [["set", 0, "child", 1], ["set", 0, "other", 1]],
         [["set", 0, "other", 2]]),
        ("lazy.value", 0, "lazy", [["read", 0, "lazy"]], [["set", 0, "lazy", 2], ["set", 0, "lazy", None]]),
        ("lazy.value", 0, "lazy", [["set", 0, "lazy", 1]], [["set", 0, "lazy", 2]]),
        ("lazy:value", 0, "lazy", [], [["read", 0, "lazy"], ["set", 0, "lazy", 2]]),
        ("cdef.value", 0, "cdef", [["read", 0, "cdef"]], [["set", 0, "cdef", 2], ["set", 0, "cdef", None]]),
        ("cdef.value", 0, "cdef", [["read", 0, "cdef"], ["set", 0, "cdef", 1]], [["set", 0, "cdef", 2]]),
        ("child.cdef.value", 1, "cdef", [["set", 0, "child", 1], ["read", 1, "cdef"]], [["set", 1, "cdef", 2]]),
        ("children.items.value", 0, "children", [["setcont", 0, "children", [1, 2]]],
         [["l", 0, "children", "append", 3], ["setcont", 0, "children", [4]]]),
        ("children:items:value", 0, "children", [["setcont", 0, "children", [1]]],
         [["l", 0, "children", "append", 3], ["setcont", 0, "children", [4]]]),
        ("children.items", 0, "children", [["read", 0, "children"]],
         [["l", 0, "children", "append", 3], ["setcont", 0, "children", [4]]]),
        ("children", 0, "children", [["setcont", 0, "children", [1]]], [["setcont", 0, "children", [4]]]),
        ("child.children.items.value", 1, "children", [["set", 0, "child", 1], ["setcont", 1, "children", [2]]],
         [["l", 1, "children", "append", 3], ["recont", 1, "children"]]),
        ("cmap.items.value", 0, "cmap", [["setcont", 0, "cmap", [["x", 1]]]],
         [["d", 0, "cmap", "set", "y", 2], ["setcont", 0, "cmap", [["x", 3]]]]),
        ("cset.items.value", 0, "cset", [["setcont", 0, "cset", [1, 2]]],
         [["s", 0, "cset", "add", 3], ["setcont", 0, "cset", [4]]]),
        ("groups.items.items.value", 0, "groups", [["setnest", 0, "groups", [["x", [1]]]]],
         [["no", 0, "groups", "set", "y", [2]], ["setnest", 0, "groups", [["x", [3]]]]]),
        ("value", 0, "value", [], []),
        ("child.value", 1, "value", [["set", 0, "child", 1]], []),
        ("child.+tag", 1, "m1", [["set", 0, "child", 1]], []),
        ("child.*", 1, "child", [["set", 0, "child", 1], ["set", 1, "child", 2]], [["set", 1, "child", 3]]),
        ("children.items.*", 1, "m1", [["setcont", 0, "children", [1, 1]]], []),
    ]
    for fi, (text, own, tr, pre, use) in enumerate(fam):
        for hj, how in enumerate(("del", "reset", "reset-many")):
            for form in ("text", "expr"):
                if quick and (fi + hj + (form == "expr")) % 2:
                    continue
                if how == "del":
                    op = ["del", own, tr]
                elif how == "reset":
                    op = ["reset", own, [tr]]
                else:
                    op = ["reset", own, ["value", tr, "other", "cset"]]
                out.append((text, tr, how, form, pre + [["observe", 0], op] + use + [op, op]))
    return out


def _rs(text, form, bound=False, root=0):
    ast = parse_text(text)
    return {"root": root, "ast": ast, "text": text, "form": form, "bound": bound,
            "show": repr(text) if form in TEXT_FORMS else describe_ast(ast)}


def directed_cases():
    """Enumerated cycle-through-root patterns: for every cycle-prone expression
    and every way of closing a cycle through the root at its first step, close
    the cycle, then re-point the slot at an outsider (probes after each)."""
    out = []
    for text in CYCLE_PRONE:
        ast = parse_text(text)
        firsts = sorted({p[0][1] for p in den(ast) if p[0][0] == "trait"}
                        | ({"child", "other"} if any(p[0][0] == "meta" for p in den(ast)) else set()))
        for first in firsts:
            if first in LINKS:
                variants = [("assign", [["set", 0, first, 1]],
                             [["set", 0, first, 0], ["set", 0, first, 4]]),
                            ("assign-none", [["set", 0, first, 1]],
                             [["set", 0, first, 0], ["set", 0, first, None]])]
            elif first == "children":
                variants = [
                    ("setitem", [["setcont", 0, first, [1]]],
                     [["l", 0, first, "setitem", 0, 0], ["l", 0, first, "setitem", 0, 4]]),
                    ("append-pop", [["setcont", 0, first, [1]]],
                     [["l", 0, first, "append", 0], ["l", 0, first, "pop", 1]]),
                    ("reassign", [["setcont", 0, first, [1]]],
                     [["setcont", 0, first, [0]], ["setcont", 0, first, [4]]]),
                    ("slice", [["setcont", 0, first, [1, 2]]],
                     [["l", 0, first, "setslice", 0, 2, [0]], ["l", 0, first, "clear"]]),
                    # the replaced object stays in the list through a second occurrence
                    ("dup-setitem", [["setcont", 0, first, [1, 1]]],
                     [["l", 0, first, "setitem", 0, 0], ["l", 0, first, "setitem", 0, 4]]),
                ]
            elif first == "cmap":
                variants = [
                    ("setitem", [["setcont", 0, first, [["x", 1]]]],
                     [["d", 0, first, "set", "x", 0], ["d", 0, first, "set", "x", 4]]),
                    ("add-del", [["setcont", 0, first, [["x", 1]]]],
                     [["d", 0, first, "set", "y", 0], ["d", 0, first, "del", "y"]]),
                    ("dup-setitem", [["setcont", 0, first, [["x", 1], ["y", 1]]]],
                     [["d", 0, first, "set", "x", 0], ["d", 0, first, "set", "x", 4]]),
                    ("reassign", [["setcont", 0, first, [["x", 1]]]],
                     [["setcont", 0, first, [["x", 0]]], ["setcont", 0, first, [["x", 4]]]]),
                ]
            elif first == "cset":
                variants = [
                    ("add-discard", [["setcont", 0, first, [1]]],
                     [["s", 0, first, "add", 0], ["s", 0, first, "discard", 0]]),
                    ("reassign", [["setcont", 0, first, [1]]],
                     [["setcont", 0, first, [0]], ["setcont", 0, first, [4]]]),
                ]
            else:
                continue
            for vname, pre, post in variants:
                for form in ("text", "expr", "paths"):
                    for when in ("before", "after"):
                        # 'before': observe, then close the cycle; 'after': close it, then observe
                        acts = list(pre)
                        if when == "before":
                            acts += [["observe", 0]] + post
                        else:
                            acts += [post[0], ["observe", 0]] + post[1:]
                        out.append((text, first, vname, form, when, acts))
    return out


# ---------------------------------------------------------------------------
# driver
# ---------------------------------------------------------------------------


def report(ctx, spec, actions, res, case_desc):
    key = res["key"]
    full = list(actions[:res["at"] + 1])
    small = full
    if ctx.viol_per_key.get(key, 0) < 1:
        small = shrink(spec, full, key)
        again = execute(spec, list(small), NullSink())
        if again["key"] == key:
            res = dict(again, world=None)
        else:
            small = full
    regs = [{"root": "n%d" % r["root"], "expression": r["show"], "form": r["form"],
             "bound_method_handler": bool(r.get("bound"))} for r in spec["regs"]]
    wit = {"stratum": spec.get("stratum"), "all_nodes_equal": spec["alleq"], "npool": spec["npool"],
           "registrations": regs, "actions": small, "script": script(spec, small),
           "original_length": len(full), "complaint": res["what"], "info": res["info"],
           "case": case_desc}
    ctx.violation(key, "%s\n  history: %s" % (res["msg"], "; ".join(script(spec, small)[2:])), wit)


def self_check():
    """The model's schema knowledge must describe the harness class."""
    n = Node(ser=0)
    if set(n.traits()) != set(CLASS_TRAITS):
        raise RuntimeError("harness schema out of date: %r" % sorted(n.traits()))
    for name, metas in CLASS_META.items():
        for mname in metas:
            if getattr(n.trait(name), mname) is None:
                raise RuntimeError("harness schema: metadata %s of %s" % (mname, name))
    for text in CATALOGUE + CYCLE_PRONE:
        ast = parse_text(text)
        if dedupe_paths(den(parse_text(render(ast)))) != dedupe_paths(den(ast)):
            raise RuntimeError("harness: render/parse mismatch for %r" % (text,))


def run(ctx):
    self_check()
    _tapi.push_exception_handler(handler=_legacy_exc, reraise_exceptions=False, main=True)
    oapi.push_exception_handler(handler=_observer_exc, reraise_exceptions=False)
    # ---- stratum d: enumerated cycle-through-root patterns ----------------------
    cases = directed_cases()
    for ci, (text, first, vname, form, when, acts) in enumerate(cases):
        if not ctx.mine(ci):
            continue
        cid = "d:%d" % ci
        if not ctx.begin(cid, {"expr": text, "slot": first, "variant": vname, "form": form,
                               "observe": when}):
            continue
        try:
            ast = parse_text(text)
            for alleq in (False, True):
                rs = {"root": 0, "ast": ast, "text": text, "form": form,
                      "show": repr(text) if form == "text" else describe_ast(ast), "bound": False}
                spec = {"alleq": alleq, "npool": 5, "regs": [rs], "stratum": "d"}
                actions = [list(a) for a in acts]
                res = execute(spec, actions, ctx)
                ctx.count("histories_directed")
                if res["world"].multi:
                    ctx.count("multi_level_histories")
                if res["key"]:
                    report(ctx, spec, actions, res, cid)
        finally:
            ctx.end()
    # ---- stratum m: multiplicity-changing list events, observable constant defaults ----
    for mi, (grp, ast, vname, form, flav, acts) in enumerate(multiplicity_cases()):
        if not ctx.mine(mi):
            continue
        cid = "m:%d" % mi
        if not ctx.begin(cid, {"group": grp, "variant": vname, "form": form, "cdef": flav}):
            continue
        try:
            for alleq in (False, True):
                text = None if has_object_only(ast) else render(ast)
                rs = {"root": 0, "ast": ast, "text": text, "form": form,
                      "show": repr(text) if form == "text" else describe_ast(ast), "bound": False}
                spec = {"alleq": alleq, "npool": 5, "regs": [rs], "stratum": "m", "cflavour": flav}
                actions = [list(a) for a in acts]
                res = execute(spec, actions, ctx)
                ctx.count("histories_multiplicity" if grp == "mult" else "histories_const_default")
                if res["key"]:
                    report(ctx, spec, actions, res, cid)
        finally:
            ctx.end()
    # ---- stratum n: named dynamic traits removed and added again (enumerated) -----------
    for ni, (kind, name, terminal, text, fname, form, acts) in enumerate(named_dynamic_cases()):
        if not ctx.mine(ni):
            continue
        cid = "n:%d" % ni
        if not ctx.begin(cid, {"expr": text, "flow": fname, "form": form}):
            continue
        try:
            ast = parse_text(text)
            for alleq in (False, True):
                rs = {"root": 0, "ast": ast, "text": text, "form": form,
                      "show": repr(text) if form == "text" else describe_ast(ast), "bound": False}
                spec = {"alleq": alleq, "npool": 5, "regs": [rs], "stratum": "n",
                        "dyn": {"name": name, "kind": kind, "terminal": terminal}}
                actions = [list(a) for a in acts]
                res = execute(spec, actions, ctx)
                ctx.count("histories_named_dynamic")
                if res["key"]:
                    report(ctx, spec, actions, res, cid)
        finally:
            ctx.end()
    # ---- strata f / s: re-definition of defined traits, state snapshots (enumerated) -------
    for fi, (grp, name, dkind, text, form, acts) in enumerate(redefine_snapshot_cases()):
        if not ctx.mine(fi):
            continue
        cid = "%s:%d" % (grp, fi)
        if not ctx.begin(cid, {"group": grp, "what": name, "expr": text, "form": form}):
            continue
        try:
            ast = parse_text(text)
            for alleq in (False, True):
                rs = {"root": 0, "ast": ast, "text": text, "form": form,
                      "show": repr(text) if form == "text" else describe_ast(ast), "bound": False}
                spec = {"alleq": alleq, "npool": 5, "regs": [rs], "stratum": grp}
                if dkind:
                    spec["dyn"] = {"name": name, "kind": dkind, "terminal": False}
                actions = [list(a) for a in acts]
                res = execute(spec, actions, ctx)
                ctx.count("histories_redefine" if grp == "f" else "histories_snapshot")
                if res["key"]:
                    report(ctx, spec, actions, res, cid)
        finally:
            ctx.end()
    # ---- stratum l: list-of-expressions form, members observed on their own -------------
    for li, (e, f, rdefs, acts) in enumerate(list_form_cases()):
        if not ctx.mine(li):
            continue
        cid = "l:%d" % li
        if not ctx.begin(cid, {"list": [e, f], "alone": rdefs[1][1], "root2": rdefs[1][2]}):
            continue
        try:
            regs = []
            for text, form, root, first in rdefs:
                ast = parse_text(text)
                regs.append({"root": root, "ast": ast, "text": text, "form": form, "bound": False,
                             "show": repr(text) if form in TEXT_FORMS else describe_ast(ast),
                             "list_first": first})
            spec = {"alleq": False, "npool": 5, "regs": regs, "stratum": "l"}
            actions = [list(a) for a in acts]
            res = execute(spec, actions, ctx)
            ctx.count("histories_list_form")
            if res["key"]:
                report(ctx, spec, actions, res, cid)
        finally:
            ctx.end()
    # ---- stratum g: every in-place route into (nested) containers (enumerated) ------------
    for gi, (tr, rname, text, form, acts) in enumerate(nested_route_cases()):
        if not ctx.mine(gi):
            continue
        cid = "g:%d" % gi
        if not ctx.begin(cid, {"trait": tr, "route": rname, "expr": repr(text)[:80], "form": form}):
            continue
        try:
            ast = text if isinstance(text, tuple) else parse_text(text)
            txt = None if isinstance(text, tuple) else text
            for alleq in (False, True):
                rs = {"root": 0, "ast": ast, "text": txt, "form": form,
                      "show": repr(txt) if form == "text" else describe_ast(ast), "bound": False}
                spec = {"alleq": alleq, "npool": 5, "regs": [rs], "stratum": "g"}
                actions = [list(a) for a in acts]
                res = execute(spec, actions, ctx)
                ctx.count("histories_routes")
                if res["key"]:
                    report(ctx, spec, actions, res, cid)
        finally:
            ctx.end()
    # ---- stratum e: equal twins in an observed set (enumerated) ---------------------
    ei = 0
    for text in ("cset.items", "cset.items.value", "cset:items.value", "child.cset.items.value",
                 "cset.items.cset.items", "cset.items.*"):
        for method in ("discard", "remove"):
            for form in ("text", "expr", "paths"):
                ei += 1
                if not ctx.mine(ei):
                    continue
                cid = "e:%d" % ei
                if not ctx.begin(cid, {"expr": text, "method": method, "form": form}):
                    continue
                try:
                    ast = parse_text(text)
                    rs = {"root": 0, "ast": ast, "text": text, "form": form,
                          "show": repr(text) if form == "text" else describe_ast(ast), "bound": False}
                    spec = {"alleq": "twin", "npool": 4, "regs": [rs], "stratum": "e"}
                    pre = [["set", 0, "child", 1]] if text.startswith("child") else []
                    own = 1 if pre else 0
                    actions = pre + [["setcont", own, "cset", [2]], ["observe", 0],
                                     ["s", own, "cset", method, 3], ["s", own, "cset", "add", 3]]
                    res = execute(spec, actions, ctx)
                    ctx.count("histories_twin")
                    if res["key"]:
                        report(ctx, spec, actions, res, cid)
                finally:
                    ctx.end()
    # ---- stratum v: metadata values (enumerated) -----------------------------------
    for vi, (text, vname, mvals, form, acts) in enumerate(metadata_value_cases(ctx.quick)):
        if not ctx.mine(vi):
            continue
        cid = "v:%d" % vi
        if not ctx.begin(cid, {"expr": text, "metadata_values": vname, "form": form}):
            continue
        try:
            for alleq in (False, True):
                spec = {"alleq": alleq, "npool": 5, "regs": [_rs(text, form)], "stratum": "v",
                        "mvals": dict(mvals)}
                actions = [list(a) for a in acts]
                res = execute(spec, actions, ctx)
                ctx.count("histories_meta_values")
                if res["key"]:
                    report(ctx, spec, actions, res, cid)
        finally:
            ctx.end()
    # ---- stratum w: observed root dropped, collected, replaced (enumerated) ----------
    for wi, (text, bound, mode, form, acts) in enumerate(reroot_cases(ctx.quick)):
        if not ctx.mine(wi):
            continue
        cid = "w:%d" % wi
        if not ctx.begin(cid, {"expr": text, "bound_handler": bound, "mode": mode, "form": form}):
            continue
        try:
            for alleq in (False, True):
                spec = {"alleq": alleq, "npool": 5, "regs": [_rs(text, form, bound)], "stratum": "w"}
                actions = [list(a) for a in acts]
                res = execute(spec, actions, ctx)
                ctx.count("histories_reroot_directed")
                if res["key"]:
                    report(ctx, spec, actions, res, cid)
        finally:
            ctx.end()
    # ---- stratum x: del / reset_traits of observed traits (enumerated) ----------------
    for xi, (text, tr, how, form, acts) in enumerate(del_cases(ctx.quick)):
        if not ctx.mine(xi):
            continue
        cid = "x:%d" % xi
        if not ctx.begin(cid, {"expr": text, "trait": tr, "how": how, "form": form}):
            continue
        try:
            for alleq in (False, True):
                spec = {"alleq": alleq, "npool": 5, "regs": [_rs(text, form)], "stratum": "x"}
                actions = [list(a) for a in acts]
                res = execute(spec, actions, ctx)
                ctx.count("histories_del_directed")
                if res["world"].delsig:
                    ctx.count("histories_del_rehook_pattern")
                if res["key"]:
                    report(ctx, spec, actions, res, cid)
        finally:
            ctx.end()
    # ---- stratum a: arguments that alias stored objects (enumerated) -------------------
    for ai, (text, vname, form, acts) in enumerate(alias_cases(ctx.quick)):
        if not ctx.mine(ai):
            continue
        cid = "a:%d" % ai
        if not ctx.begin(cid, {"expr": text, "variant": vname, "form": form}):
            continue
        try:
            for alleq in (False, True):
                spec = {"alleq": alleq, "npool": 5, "regs": [_rs(text, form)], "stratum": "a"}
                actions = [list(a) for a in acts]
                res = execute(spec, actions, ctx)
                ctx.count("histories_alias_directed")
                if res["key"]:
                    report(ctx, spec, actions, res, cid)
        finally:
            ctx.end()
    # ---- strata t / c: random histories ------------------------------------------
    for stratum, nh in (("t", ctx.scale(1600, 60000)), ("c", ctx.scale(600, 20000)),
                        ("r", ctx.scale(400, 12000)), ("k", ctx.scale(400, 12000)),
                        ("o", ctx.scale(240, 8000)), ("y", ctx.scale(200, 6000)),
                        ("b", ctx.scale(320, 10000))):
        for h in range(nh):
            if not ctx.mine(h):
                continue
            cid = "%s:%d" % (stratum, h)
            if not ctx.begin(cid):
                continue
            try:
                rng = ctx.rng(stratum, h)
                spec, actions, gen = random_history(ctx, rng, stratum)
                res = execute(spec, actions, ctx, gen)
                W = res["world"]
                ctx.count({"t": "histories_acyclic", "c": "histories_cyclic",
                           "r": "histories_dynamic", "k": "histories_nested",
                           "o": "histories_reroot", "y": "histories_del",
                           "b": "histories_alias"}[stratum])
                if W.delsig:
                    ctx.count("histories_del_rehook_pattern")
                if W.multi:
                    ctx.count("multi_level_histories")
                    if stratum == "t":
                        ctx.count("acyclic_stratum_multi_level")
                elif W.was_cyclic:
                    ctx.count("cyclic_nonmulti_histories")
                if res["key"]:
                    report(ctx, spec, actions, res, cid)
                if h < 2 * ctx.nshards and stratum == "t" or h < ctx.nshards:
                    ctx.sample({"stratum": stratum, "registrations":
                                [(r["root"], r["show"], r["form"]) for r in spec["regs"]],
                                "all_nodes_equal": spec["alleq"], "history": script(spec, actions)[:8]})
            finally:
                ctx.end()
    _tapi.pop_exception_handler()
    oapi.pop_exception_handler()
