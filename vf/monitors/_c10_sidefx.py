"""C10 stratum "sidefx": the computation of a default has SIDE EFFECTS on the very object.

Statement: "the first read of a trait that was never assigned returns its declared default (...
factory result, or the result of the _name_default method, which runs at most once per instance and
attribute) and reaches no change handler; later reads return the same object.  No sequence of
operations on one instance ... changes the values ... observable on another instance".  In the main
histories (and in the strata 'wildcard' / 'failhook') the code that computes a default is pure.
Here it is not: while the default of `x` is being computed, user code (the default method, a
factory, a callable default, an item validator of a static container default) does something to
the SAME object, once per never-assigned period:

  effects (ENUMERATED, every one against every default kind and listener set-up it applies to)
    none                                control
    assign-self/equal | different       assigns x itself (a fresh equal value / another value), then
                                        returns the default
    assign-self/return-stored           assigns x, then returns what reading x now yields
    fill-helper                         a "fill several related traits at once" helper: y, z and x
    sibling/static-handler-writes-x     assigns sibling y whose static _y_changed handler assigns x
    sibling/otc-handler-writes-x        ... an on_trait_change handler of y assigns x
    sibling/observe-handler-writes-x    ... an observe handler of y assigns x
    sibling/plain                       assigns siblings y and z, nothing writes back
    sibling/handler-reads-x             y's static handler READS x (re-entrant read of the trait
                                        being defaulted)
    read-sibling-default                reads w, whose own default method reads v, whose ... (chain)
    mutual-guarded                      reads w, whose default method reads x (mutually recursive
                                        defaults; the effect fires once, so the recursion ends)
    register/otc-name | observe-name | otc-items | observe-items | otc-anytrait
                                        registers a listener for x / its items / every trait
    reset/self-absent                   reset_traits(['x']) / del x while x is still unassigned
    reset/assign-then-del               assigns x and deletes it again
    reset/all-after-sibling             assigns y, then reset_traits() of everything
  default kinds of x: _x_default on List / Dict / Set / Any (fresh list) / Int / Instance / a trait type
    with a post_setattr hook,
    Any(factory=..), a List subclass with a DefaultValue.callable default, List(item, [1, 2]) whose
    item validator carries the effect
  listeners present on x BEFORE the period starts: none, on_trait_change('x'), observe('x'), static
    _x_changed, on_trait_change('x_items'), observe('x.items'), on_trait_change() of every trait
  periods: never assigned since construction; assigned then `del`; assigned then reset_traits(['x'])
  inner assignments go through setattr / trait_set / trait_setq (drawn); a sibling instance B of the
  same class does the same (armed or not, hooked or not), a third instance C is only read at the end.

Judged per (instance, unassigned period), by the laws of the main monitor only:
  * every read that returns -- the first one and all later ones, also after the sibling took its
    turn -- returns ONE object;
  * that object is the declared default (what the default computation returned);
  * the default computation ran at most once, plus once for every operation of the effect code that
    itself needs the value of x while x is unassigned (a re-entrant read; an assignment or deletion of x
    while x has listeners: the notification needs the old / new value);
  * silent: handlers for x are reached at most once per assignment / deletion of x the effect code
    performed (and once by the del / reset_traits that started the period); the object such a
    del / reset notification announces is the object later reads return;
  * the object a post_setattr hook was last given is the object reads return;
  * default containers are bound to the instance they were read from;
  * the sibling and the third instance are untouched: own defaults, own objects, no handler of one
    instance is reached by an operation on another.
Values of the siblings y / z / w are not judged beyond these laws (what an assignment inside a default
method leaves behind is not part of the statement).

Mechanism keys: sidefx/<what>/<effect>/<default family>/<listener class>/<fresh | after-del-or-reset>.
"""
import warnings

from traits.api import HasTraits, Any, Int, Str, List, Dict, Set, Instance, TraitType
from traits.constants import DefaultValue

from vf.util import short

NOTHING = ("<nothing>",)


class Foo(HasTraits):
    z = Int(4)


def norm(v):
    if isinstance(v, Foo):
        return ("Foo", v.__dict__.get("z", 4))
    if isinstance(v, list):
        return [norm(x) for x in v]
    if isinstance(v, dict):
        return {k: norm(x) for k, x in v.items()}
    if isinstance(v, (set, frozenset)):
        return set(v)
    return v


class PostSetAny(TraitType):
    def post_setattr(self, obj, name, value):
        HUB.ps.append((HUB.tag(obj), value))


# kind -> (family, via, trait factory, type name of the default, plain default,
#          fresh default, fresh equal value, other value, plain of the other value, stored value)
KINDS = {
    "method-list": ("method", "method", lambda: List(Int), "TraitListObject", [1, 2],
                    lambda: [1, 2], lambda: [1, 2], lambda: [5], [5], lambda: [8, 8]),
    "method-dict": ("method", "method", lambda: Dict(Str, Int), "TraitDictObject", {"a": 1},
                    lambda: {"a": 1}, lambda: {"a": 1}, lambda: {"q": 5}, {"q": 5}, lambda: {"v": 8}),
    "method-set": ("method", "method", lambda: Set(Int), "TraitSetObject", {1},
                   lambda: {1}, lambda: {1}, lambda: {5}, {5}, lambda: {8}),
    "method-any-list": ("method", "method", lambda: Any(), "list", [1, 2],
                        lambda: [1, 2], lambda: [1, 2], lambda: [5], [5], lambda: [8, 8]),
    "method-int": ("method", "method", lambda: Int(), "int", 11,
                   lambda: 11, lambda: 11, lambda: 5, 5, lambda: 8),
    "method-instance": ("method", "method", lambda: Instance(Foo), "Foo", ("Foo", 4),
                        lambda: Foo(), lambda: Foo(), lambda: Foo(z=5), ("Foo", 5), lambda: Foo(z=8)),
    # a trait type with a post_setattr hook: the hook is told which object was stored
    "method-post-setattr": ("method", "method", lambda: PostSetAny(), "list", [1, 2],
                            lambda: [1, 2], lambda: [1, 2], lambda: [5], [5], lambda: [8, 8]),
    "factory-any-list": ("callable-and-args", "factory", None, "list", [1, 2],
                         lambda: [1, 2], lambda: [1, 2], lambda: [5], [5], lambda: [8, 8]),
    "callable-list": ("callable", "callable", None, "TraitListObject", [1, 2],
                      lambda: [1, 2], lambda: [1, 2], lambda: [5], [5], lambda: [8, 8]),
    "static-list-validator": ("container-object", "validator", None, "TraitListObject", [1, 2],
                              None, lambda: [1, 2], lambda: [5], [5], lambda: [8, 8]),
}
IMMUTABLE = ("int",)

EFFECTS = (
    "none",
    "assign-self/equal", "assign-self/different", "assign-self/return-stored", "fill-helper",
    "sibling/static-handler-writes-x", "sibling/otc-handler-writes-x", "sibling/observe-handler-writes-x",
    "sibling/plain", "sibling/handler-reads-x",
    "read-sibling-default", "mutual-guarded",
    "register/otc-name", "register/observe-name", "register/otc-items", "register/observe-items",
    "register/otc-anytrait",
    "reset/self-absent", "reset/assign-then-del", "reset/all-after-sibling",
)
LISTENERS = ("none", "otc", "observe", "static", "otc-items", "observe-items", "otc-anytrait")
# listeners that put a notifier on x itself (an assignment / deletion of x then needs the old / new value)
HOOKING = ("otc", "observe", "static", "observe-items", "otc-anytrait")
PERIODS = ("fresh", "after-del", "after-reset")
ROUTES = ("setattr", "trait_set", "trait_setq")


def listener_class(listener):
    return "no-listener" if listener == "none" else \
        "items-listener" if listener == "otc-items" else "listener-on-x"


def cases():
    out = []
    for kind in KINDS:
        via = KINDS[kind][1]
        container = KINDS[kind][3].startswith("Trait")
        for effect in EFFECTS:
            if via == "validator" and effect == "assign-self/return-stored":
                continue                # an item validator does not choose the default
            if effect in ("register/otc-items", "register/observe-items") and not container:
                continue
            for listener in LISTENERS:
                if listener in ("otc-items", "observe-items") and not container:
                    continue
                for period in PERIODS:
                    out.append((kind, effect, listener, period))
    return out


class Hub:
    def reset(self, kind, effect, rng):
        self.kind, self.plan, self.rng = kind, effect, rng
        self.K = KINDS[kind]
        self.tags = {}
        self.runs = {}
        self.armed = set()
        self.fired = []
        self.reentries = {}
        self.inner_x_ops = {}
        self.hooked = set()
        self.ps = []              # (object tag, value) of every post_setattr call
        self.needs_old = kind == "method-post-setattr"     # every assignment of x asks for the old value
        self.events = []          # (owner tag, mechanism, object tag, name, old, new)
        self.reader = None
        self.expect = {}
        self.trace = []
        self.route = rng.choice(ROUTES)
        self.counts = {}

    def count(self, name):
        self.counts[name] = self.counts.get(name, 0) + 1

    def tag(self, obj):
        return self.tags.get(id(obj), "?")

    def run(self, obj):
        t = self.tag(obj)
        self.runs[t] = self.runs.get(t, 0) + 1

    def reentry(self, obj):
        t = self.tag(obj)
        self.reentries[t] = self.reentries.get(t, 0) + 1

    # -- what the effect code does to x --------------------------------------------------------
    def assign_x(self, obj, value):
        t = self.tag(obj)
        if "x" not in obj.__dict__ and (t in self.hooked or self.needs_old):
            self.reentry(obj)       # the notification / post_setattr of this assignment needs the old value
        self.inner_x_ops[t] = self.inner_x_ops.get(t, 0) + 1
        self.trace.append((t, "inner-assign-x", self.route))
        self.count("self_assignments")
        if self.route == "setattr":
            obj.x = value
        elif self.route == "trait_set":
            obj.trait_set(x=value)
        else:
            obj.trait_setq(x=value)

    def del_x(self, obj):
        t = self.tag(obj)
        if "x" in obj.__dict__ and t in self.hooked:
            self.reentry(obj)       # the notification of this deletion needs the new value
        self.inner_x_ops[t] = self.inner_x_ops.get(t, 0) + 1
        self.trace.append((t, "inner-del-x"))
        self.count("resets_in_default")
        if self.rng.random() < 0.5:
            del obj.x
        else:
            obj.reset_traits(["x"])

    def read_x(self, obj):
        if "x" not in obj.__dict__:
            self.reentry(obj)
        self.trace.append((self.tag(obj), "inner-read-x"))
        self.count("reentrant_reads")
        return obj.x

    # -- hooks of the class -----------------------------------------------------------------------
    def effect(self, obj):
        t = self.tag(obj)
        if t not in self.armed:
            return NOTHING
        self.armed.discard(t)
        self.fired.append(t)
        self.count("effects_fired")
        self.trace.append((t, "effect", self.plan))
        return self.perform(obj, t)

    def perform(self, obj, t):
        plan = self.plan
        K = self.K
        if plan == "none":
            return NOTHING
        if plan == "assign-self/equal":
            self.assign_x(obj, K[6]())
        elif plan == "assign-self/different":
            self.assign_x(obj, K[7]())
        elif plan == "assign-self/return-stored":
            self.assign_x(obj, K[7]())
            self.expect[t] = K[8]
            return obj.x
        elif plan == "fill-helper":
            obj.y = [3]
            obj.z = 5
            self.assign_x(obj, K[6]())
        elif plan.startswith("sibling/"):
            obj.y = [3]             # whatever listens to y does the rest
            if plan == "sibling/plain":
                obj.z = 5
        elif plan in ("read-sibling-default", "mutual-guarded"):
            obj.w
        elif plan.startswith("register/"):
            self.count("listener_registrations_in_default")
            what = plan.split("/")[1]
            if what == "otc-name":
                obj.on_trait_change(self.otc_handler(t, "late-otc"), "x")
            elif what == "observe-name":
                obj.observe(self.obs_handler(t, "late-observe"), "x")
            elif what == "otc-items":
                obj.on_trait_change(self.otc_handler(t, "late-otc-items"), "x_items")
            elif what == "observe-items":
                if "x" not in obj.__dict__:
                    self.reentry(obj)       # hooking the items means reading x
                obj.observe(self.obs_handler(t, "late-observe-items"), "x.items")
            else:
                obj.on_trait_change(self.otc_handler(t, "late-otc-anytrait"))
            if what != "otc-items":
                self.hooked.add(t)
        elif plan == "reset/self-absent":
            self.count("resets_in_default")
            if self.rng.random() < 0.5:
                obj.reset_traits(["x"])
            else:
                try:
                    del obj.x
                except AttributeError:
                    pass
        elif plan == "reset/assign-then-del":
            self.assign_x(obj, K[7]())
            self.del_x(obj)
        elif plan == "reset/all-after-sibling":
            self.count("resets_in_default")
            obj.y = [3]
            obj.reset_traits()
        else:
            raise AssertionError(plan)
        return NOTHING

    def y_changed(self, obj):
        if self.plan == "sibling/static-handler-writes-x":
            self.count("sibling_writebacks")
            self.assign_x(obj, self.K[7]())
        elif self.plan == "sibling/handler-reads-x":
            self.read_x(obj)

    def y_dynamic(self, obj):
        self.count("sibling_writebacks")
        self.assign_x(obj, self.K[7]())

    def w_default(self, obj):
        if self.plan == "mutual-guarded":
            self.read_x(obj)
            return [3]
        if self.plan == "read-sibling-default":
            self.count("chained_default_reads")
            return [obj.v]
        return [3]

    # -- recorders ------------------------------------------------------------------------------------
    def otc_handler(self, owner, mech):
        def handler(obj, name, old, new):
            self.events.append((owner, mech, self.tag(obj), name, old, new))
        return handler

    def obs_handler(self, owner, mech):
        def handler(event):
            name = getattr(event, "name", "x.items")
            self.events.append((owner, mech, self.tag(getattr(event, "object", None)), name,
                                getattr(event, "old", None), getattr(event, "new", getattr(event, "added", None))))
        return handler

    def static_x(self, obj, old, new):
        t = self.tag(obj)
        self.events.append((t, "static", t, "x", old, new))


HUB = Hub()


def build(kind, effect, listener):
    """A fresh Owner class for one case."""
    hub = HUB
    K = KINDS[kind]
    via = K[1]

    def compute(obj):
        hub.run(obj)
        r = hub.effect(obj)
        return K[5]() if r is NOTHING else r

    ns = {}
    if via == "method":
        ns["x"] = K[2]()
        ns["_x_default"] = lambda self: compute(self)
    elif via == "factory":
        ns["x"] = Any(factory=lambda: compute(hub.reader))
    elif via == "callable":
        class CallableList(List):
            def get_default_value(self):
                return (DefaultValue.callable, compute)
        ns["x"] = CallableList(Int)
    else:
        class SideInt(TraitType):
            default_value = 0

            def validate(self, object, name, value):
                if type(value) is not int:
                    self.error(object, name, value)
                if value == 1:
                    hub.effect(object)
                return value
        ns["x"] = List(SideInt, [1, 2])
    ns["y"] = List(Int)
    ns["z"] = Int(0)
    ns["w"] = List(Int)
    ns["v"] = Int()
    ns["_w_default"] = lambda self: hub.w_default(self)
    ns["_v_default"] = lambda self: 7
    if effect in ("sibling/static-handler-writes-x", "sibling/handler-reads-x"):
        ns["_y_changed"] = lambda self, new: hub.y_changed(self)
    if listener == "static":
        ns["_x_changed"] = lambda self, old, new: hub.static_x(self, old, new)
    with warnings.catch_warnings():
        warnings.simplefilter("ignore")
        return type(HasTraits)("Owner", (HasTraits,), ns)


class Violation(Exception):
    pass


class Case:
    def __init__(self, ctx, kind, effect, listener, period, rng):
        self.ctx = ctx
        self.kind, self.effect, self.listener, self.period, self.rng = kind, effect, listener, period, rng
        self.fam = KINDS[kind][0]
        self.counted = KINDS[kind][1] != "validator"

    def fail(self, what, msg, **extra):
        key = "sidefx/%s/%s/%s/%s/%s" % (what, self.effect, self.fam, listener_class(self.listener),
                                         "fresh" if self.period == "fresh" else "after-del-or-reset")
        w = {"kind": self.kind, "effect": self.effect, "listener": self.listener, "period": self.period,
             "route": HUB.route, "trace": HUB.trace[:60]}
        w.update(extra)
        self.ctx.violation(key, "%s | effect %s while the default of x (%s) is computed, listener %s, %s, inner "
                           "assignments by %s" % (msg, self.effect, self.kind, self.listener, self.period, HUB.route), w)
        raise Violation(key)

    # -- set-up ------------------------------------------------------------------------------------------
    def new(self, Owner, tag):
        o = Owner()
        HUB.tags[id(o)] = tag
        self.wire(o)
        return o

    def hook(self, o, tag):
        """Put the case's listener on x of o (before the period starts).  For 'observe-items' this
        reads x: on a fresh object the registration IS the first read."""
        L = self.listener
        HUB.reader = o
        if L == "otc":
            o.on_trait_change(HUB.otc_handler(tag, "otc"), "x")
        elif L == "observe":
            o.observe(HUB.obs_handler(tag, "observe"), "x")
        elif L == "otc-items":
            o.on_trait_change(HUB.otc_handler(tag, "otc-items"), "x_items")
        elif L == "observe-items":
            o.observe(HUB.obs_handler(tag, "observe-items"), "x.items")
        elif L == "otc-anytrait":
            o.on_trait_change(HUB.otc_handler(tag, "otc-anytrait"))
        if L in HOOKING:
            HUB.hooked.add(tag)

    def wire(self, o):
        """The listeners of the sibling trait y that write x back (part of the effect, on every instance)."""
        if self.effect == "sibling/otc-handler-writes-x":
            o.on_trait_change(lambda: HUB.y_dynamic(o), "y")
        elif self.effect == "sibling/observe-handler-writes-x":
            o.observe(lambda event: HUB.y_dynamic(o), "y")

    def start(self, o, tag, armed, hooked):
        """Start the unassigned period of o.x that is judged.  Returns (index of the first event of
        the period, events the start itself may legitimately produce, did the start raise)."""
        ctx = self.ctx
        HUB.reader = o
        period = self.period
        if period != "fresh":
            if hooked:
                self.hook(o, tag)
            try:
                o.x = KINDS[self.kind][9]()
            except Exception as e:
                self.fail("set-up-raised/%s" % type(e).__name__, "assigning %s.x raised %r" % (tag, e), who=tag)
        if armed:
            HUB.armed.add(tag)
        self.runs0[tag] = HUB.runs.get(tag, 0)
        self.reent0[tag] = HUB.reentries.get(tag, 0)
        self.inner0[tag] = HUB.inner_x_ops.get(tag, 0)
        e0 = len(HUB.events)
        self.ps0[tag] = len(HUB.ps)
        own = 0
        raised = False
        try:
            if period == "fresh":
                if hooked:
                    self.hook(o, tag)
            elif period == "after-del":
                own = 1 if hooked and self.listener in HOOKING else 0
                del o.x
            else:
                own = 1 if hooked and self.listener in HOOKING else 0
                left = o.reset_traits(["x"])
                if left:
                    self.fail("reset-refused", "%s.reset_traits(['x']) left %r" % (tag, left), who=tag)
        except Violation:
            raise
        except Exception as e:
            raised = True
            HUB.trace.append((tag, "start-raised", type(e).__name__))
            ctx.count("sidefx_starts_raised")
            ctx.count("sidefx_starts_raised/%s/%s" % (self.effect, type(e).__name__))
        return e0, own, raised

    def read(self, o, tag, got):
        HUB.reader = o
        try:
            v = o.x
        except Exception as e:
            HUB.trace.append((tag, "read-raised", type(e).__name__))
            self.ctx.count("sidefx_reads_raised")
            self.ctx.count("sidefx_reads_raised/%s/%s" % (self.effect, type(e).__name__))
            return False
        HUB.trace.append((tag, "read-ok"))
        got.append(v)
        self.ctx.count("sidefx_reads_returned")
        return True

    # -- verdict of one (instance, period) ---------------------------------------------------------------------
    def judge(self, o, tag, got, e0, e1, own, start_raised):
        ctx = self.ctx
        K = KINDS[self.kind]
        runs = HUB.runs.get(tag, 0) - self.runs0[tag]
        allowed = 1 + HUB.reentries.get(tag, 0) - self.reent0[tag]
        if self.counted and runs > allowed:
            self.fail("default-computed-more-than-once",
                      "the default of %s.x was computed %d times in one never-assigned period (%d operation(s) of "
                      "the effect code needed the value meanwhile)" % (tag, runs, allowed - 1), who=tag)
        for i, v in enumerate(got):
            if v is not got[0]:
                self.fail("later-read-not-identical",
                          "read %d of %s.x returned another object than the first read (%s %s, first %s %s)"
                          % (i + 1, tag, type(v).__name__, short(norm(v), 40), type(got[0]).__name__,
                             short(norm(got[0]), 40)), who=tag)
        if got:
            want = HUB.expect.get(tag, K[4])
            if norm(got[0]) != want or type(got[0]).__name__ != K[3]:
                self.fail("wrong-default", "%s.x reads %s %s, the default computation returned %s %s"
                          % (tag, type(got[0]).__name__, short(norm(got[0]), 40), K[3], short(want, 40)), who=tag)
            ref = getattr(got[0], "__dict__", None)
            ref = ref.get("object") if isinstance(ref, dict) and isinstance(got[0], (list, dict, set)) else None
            owner = ref() if callable(ref) else None
            if owner is not None and owner is not o:
                self.fail("container-owned-by-another-instance",
                          "the default container of %s.x is bound to instance %s" % (tag, HUB.tag(owner)), who=tag)
        given = HUB.ps[self.ps0[tag]:self.ps1[tag]]
        for e in given:
            if e[0] != tag:
                self.fail("foreign-hook-reached", "an operation on %s reached post_setattr for %s" % (tag, e[0]), who=tag)
        if given and got:
            ctx.count("sidefx_post_setattr_identity_checks")
            if given[-1][1] is not got[0]:
                self.fail("hook-was-given-another-object",
                          "post_setattr of %s.x was last given %s, reads return another object (%s)"
                          % (tag, short(norm(given[-1][1]), 40), short(norm(got[0]), 40)), who=tag)
        # handlers: only what the effect code's own assignments / deletions of x (and the del that
        # started the period) account for; nobody else's recorder
        mine = [e for e in HUB.events[e0:e1]]
        for e in mine:
            if e[0] != tag or e[2] not in (tag, "?"):
                self.fail("foreign-handler-reached",
                          "an operation on %s reached a recorder of %s about %s: %r"
                          % (tag, e[0], e[2], (e[1], e[3])), who=tag)
        xev = [e for e in mine if e[3] == "x"]
        per_mech = {}
        for e in xev:
            per_mech[e[1]] = per_mech.get(e[1], 0) + 1
        budget = own + HUB.inner_x_ops.get(tag, 0) - self.inner0[tag]
        for mech, n in per_mech.items():
            if n > budget:
                self.fail("default-read-not-silent",
                          "the %s handler of %s.x was reached %d times; the effect code assigned / deleted x %d "
                          "time(s)%s" % (mech, tag, n, budget - own, ", the period started with a del" if own else ""),
                          who=tag)
        if own and got and not start_raised and K[3] not in IMMUTABLE:
            told = [e for e in xev if e[1] in ("otc", "observe", "static", "otc-anytrait")]
            if told:
                ctx.count("sidefx_reset_identity_checks")
                if told[-1][5] is not got[0]:
                    self.fail("reset-announced-another-object",
                              "the %s handler of %s.x was last told the value reverts to %s, reads return "
                              "another object (%s)" % (told[-1][1], tag, short(norm(told[-1][5]), 40),
                                                       short(norm(got[0]), 40)), who=tag)
        ctx.ev()
        ctx.count("sidefx_period_checks")

    def run(self):
        ctx = self.ctx
        rng = self.rng
        HUB.reset(self.kind, self.effect, rng)
        Owner = build(self.kind, self.effect, self.listener)
        self.runs0, self.reent0, self.inner0, self.ps0, self.ps1 = {}, {}, {}, {}, {}
        A = self.new(Owner, "A")
        B = self.new(Owner, "B")
        sib_armed = rng.random() < 0.6
        sib_hooked = rng.random() < 0.5 or self.listener == "static"
        got_a, got_b = [], []
        # A's turn
        ea0, own_a, raised_a = self.start(A, "A", True, True)
        first_ok = self.read(A, "A", got_a)
        if not first_ok:
            ctx.count("sidefx_first_reads_raised")
        for _ in range(rng.randint(1, 3)):
            self.read(A, "A", got_a)
        ea1 = len(HUB.events)
        self.ps1["A"] = len(HUB.ps)
        if "A" in HUB.fired:
            ctx.count("sidefx_effects_in_reset_or_registration" if own_a or (
                self.listener == "observe-items" and self.period == "fresh") else "sidefx_effects_in_first_read")
        # the sibling in between
        eb0, own_b, raised_b = self.start(B, "B", sib_armed, sib_hooked)
        for _ in range(2):
            self.read(B, "B", got_b)
        eb1 = len(HUB.events)
        self.ps1["B"] = len(HUB.ps)
        for _ in range(2):
            self.read(A, "A", got_a)
        if len(HUB.events) != eb1:
            self.fail("later-read-not-silent", "a later read of A.x reached a handler: %r"
                      % (HUB.events[eb1][:4],), who="A")
        if not got_a or not got_b:
            # every effect fires once, so nothing recurses for ever: a read that raises is a read
            # that did not return the default
            self.fail("read-raised", "no read of %s.x returned (%r)"
                      % ("A" if not got_a else "B", [t for t in HUB.trace if "raised" in t[1]][:3]))
        self.judge(A, "A", got_a, ea0, ea1, own_a, raised_a)
        self.judge(B, "B", got_b, eb0, eb1, own_b, raised_b)
        # a third instance nobody touched: its own, plain default
        C = self.new(Owner, "C")
        self.runs0["C"], self.reent0["C"], self.inner0["C"], self.ps0["C"] = 0, 0, 0, len(HUB.ps)
        got_c = []
        ec0 = len(HUB.events)
        for _ in range(2):
            self.read(C, "C", got_c)
        if not got_c:
            self.fail("read-raised", "no read of C.x returned")
        self.ps1["C"] = len(HUB.ps)
        self.judge(C, "C", got_c, ec0, len(HUB.events), 0, False)
        if KINDS[self.kind][3] not in IMMUTABLE:
            for (p, q, who) in ((got_a, got_b, "A and B"), (got_a, got_c, "A and C"), (got_b, got_c, "B and C")):
                if p[0] is q[0]:
                    self.fail("shared-default-between-instances", "%s read the same object for x" % who)
        if "B" in HUB.fired and sib_armed is False:
            self.fail("effect-on-unarmed-instance", "harness: B's effect fired although it was not armed")
        for name, n in HUB.counts.items():
            ctx.count("sidefx_" + name, n)
        ctx.count("sidefx_cases")
        ctx.count("sidefx_cases/" + self.effect)
        ctx.count("sidefx_cases/kind/" + self.kind)
        ctx.count("sidefx_cases/listener/" + self.listener)
        if self.effect != "none" and listener_class(self.listener) == "listener-on-x":
            ctx.count("sidefx_cases_effect_with_listener_on_x")
        ctx.sig("sidefx", self.kind, self.effect, self.listener, self.period, HUB.route, sib_armed, sib_hooked,
                tuple(t[1:] for t in HUB.trace)[:16])


def run(ctx, excs):
    """excs: callable returning the list the exception handlers installed by c10.run append to."""
    allc = cases()
    reps = ctx.scale(1, 10)
    k = 0
    for rep in range(reps):
        for ci, (kind, effect, listener, period) in enumerate(allc):
            k += 1
            if not ctx.mine(k):
                continue
            if not ctx.begin("sidefx:%d:%s:%s:%s:%s" % (rep, kind, effect, listener, period)):
                continue
            try:
                C = Case(ctx, kind, effect, listener, period, ctx.rng("sidefx", rep, ci))
                try:
                    C.run()
                    if excs():
                        C.fail("notification-exception", "an exception was raised inside a notification: %r"
                               % (excs()[0],))
                except Violation:
                    pass
                except Exception as e:
                    import traceback
                    try:
                        C.fail("unexpected-exception/%s" % type(e).__name__, "%r escaped" % (e,),
                               traceback=traceback.format_exc()[-1500:])
                    except Violation:
                        pass
                del excs()[:]
                if rep == 0 and ci % 499 == 0:
                    ctx.sample({"stratum": "sidefx", "case": [kind, effect, listener, period],
                                "trace": HUB.trace[:10]})
            finally:
                ctx.end()
