"""C19 -- a failing user callback never leaves an object half-updated.

Fault enumeration.  For every generated history (about 10 operations on one
object graph) a fault-free twin is run first; it learns, for every operation
j, the number n_j of user-callback invocations ("ticks"), the kind of each
tick and its *role*: at every tick the twin compares a side-effect-free
snapshot of the graph with the pre-operation snapshot; a tick that still sees
the pre-state is *pre-commit* (the callback decides the outcome), a tick that
sees the operation's effect is *post-commit* (notification phase).  Then every
(j, k <= n_j, E in {TraitError, ValueError, AttributeError, RuntimeError}) is
injected into a graph rebuilt by deterministic replay of the prefix and judged
as DESIGN.md section 4 / C19 says, and the remaining history is run on the
faulted graph and compared op by op with the twin that never saw the failure.

Mechanism keys
  pre-commit/<callback-kind>/<op-kind>/<complaint>   complaint in wrong-exception:<type|none>,
      state-changed, census-changed, notified, cache-stale
  post-commit/<callback-kind>/<complaint>            complaint in exception-reached-caller,
      operation-incomplete, other-handler-skipped, log-differs, exception-vanished,
      secondary-exception, cache-stale
      (a deciding callback of a NESTED assignment, e.g. the partner's validator while sync_trait
      forwards: exception-reached-caller, differs-from-rejection, cache-stale)
  afterwards/<callback-kind>/<op-kind>/diverged
  harness/nondeterministic-replay                    (replay did not rebuild the twin's state)

Default-handling strata (run first, before the harness pushes its own exception handlers; helper
_c19_shapes.py).  The enumeration above runs with the harness's handlers on both exception-handler
stacks and injects E("message").  Histories of the family 'default' (case ids dflt:<n>, counters
dflt:*) run with NOTHING pushed: a failing change handler is funnelled into the library's own default
handlers, which are observed through the logging module (a capturing handler at the root of the logging
hierarchy, the only one while the strata run; the console fallback sys.__stderr__ is swallowed and counted).  Their exceptions come
from a catalogue of SHAPES of the four classes: no argument, string / empty / str-subclass, a non-string
first argument (int, None, bytes, object, dict), a tuple, an exception instance, several arguments, a
__cause__, the standard subclasses (NotImplementedError, RecursionError incl. the one the interpreter
really raises and the recursion message, UnicodeDecode/EncodeError, AttributeError(name=, obj=),
DelegationError) and user subclasses with a raising __str__ or an __init__ that passes nothing on;
8 shapes per change-handler tick, TraitError("message") + 1 shape per other tick, walking a per-history
shuffle of the catalogue.  Same oracle and same keys (that the failure is *logged* is counted, not
required).  Family 'hostile' (case ids hostile:<n>, counters hostile:*) injects, at change-handler ticks
only, first arguments whose `==` raises or has no truth value; it never stops at a violation and its keys
are post-commit/<kind>/handler-failure-not-contained/<class>(eq-hostile-first-argument) (the failure
reached the caller, or an enclosing notification contained it after handlers were skipped).
"""
import gc
import warnings
import weakref

from traits.api import (
    HasTraits, MetaHasTraits, TraitType, TraitError, Trait, Int, Str, Any, List, Dict, Set,
    Tuple, Union, Either, Instance, Supports, AdaptsTo, Property, PrototypedFrom, DelegatesTo, Interface, provides, cached_property,
    push_exception_handler, pop_exception_handler,
)
from traits.adaptation.api import (
    AdaptationManager, get_global_adaptation_manager, set_global_adaptation_manager,
)
from traits.observation import api as obsapi
from traits.trait_notifiers import get_change_event_tracers, set_change_event_tracers
from traits.observation.events import (
    TraitChangeEvent, ListChangeEvent, DictChangeEvent, SetChangeEvent,
)
from traits.trait_list_object import TraitList, TraitListEvent
from traits.trait_dict_object import TraitDict, TraitDictEvent
from traits.trait_set_object import TraitSet, TraitSetEvent

import sys

from vf.monitors import _c19_shapes as shapes

# every kind of user callback the harness hands to traits (each calls FP.tick(kind) first)
_KINDS = ("validator-function", "validator-traittype", "alt-function", "alt-traittype", "alt-item",
          "tuple-member", "item-validator", "key-validator", "value-validator", "prop-validator",
          "default-method", "default-factory", "getter", "cached-getter", "setter",
          "adapter-factory", "handler-static", "handler-otc", "handler-observe")

def _default_handling_gates(m, mh):
    """Gates of the default-handling strata (quick values; thorough = x m, hostile x mh)."""
    g = {"dflt:histories": 48, "dflt:faults_injected": 6000, "dflt:postcommit_judged": 5000,
         "dflt:precommit_judged": 900, "dflt:followup_ops_compared": 26000,
         "dflt:faults:handler-static": 1800, "dflt:faults:handler-otc": 1700,
         "dflt:faults:handler-observe": 1200,
         "dflt:injected_exception_logged_by_default_handler": 5000,
         "dflt:handler-faults:subclass-instance": 1600}
    for fam in ("TraitError", "ValueError", "AttributeError", "RuntimeError"):
        g["dflt:family:" + fam] = 1200
    for mech in ("static", "otc", "observe"):
        for grp in ("noargs", "tuple", "exception", "custom-init"):
            g["dflt:handler-shape:%s:%s" % (mech, grp)] = 40
        for grp in ("str", "non-str", "several", "chained", "subclass", "hostile-str"):
            g["dflt:handler-shape:%s:%s" % (mech, grp)] = 90
    g = {k: v * m for k, v in g.items()}
    h = {"hostile:histories": 8, "hostile:faults_injected": 1600,
         "hostile:handler-shape:static:eq-hostile": 500, "hostile:handler-shape:otc:eq-hostile": 600,
         "hostile:handler-shape:observe:eq-hostile": 400}
    g.update({k: v * mh for k, v in h.items()})
    return g


META = {
    "level": "fault_enumeration",
    "rule": ("cases = histories of ~10 operations (assignments to Int/Str/function-validator/"
             "TraitType traits, Union/Either/Tuple-of-Union members with custom validators, "
             "List/Dict/Set mutators with multi-item arguments and custom item/key/value "
             "validators, whole-container assignment, first reads of defaults (factory, "
             "_x_default, validated default), property get/set incl. cached observed and "
             "depends_on properties (cached and uncached), Supports/Instance/AdaptsTo assignment in "
             "both adaptation modes (adapt='yes' and adapt='default') through a private global "
             "AdaptationManager with two-step and conditional adapter chains, nested "
             "Instance child, quiet and notifying multi-name sets (trait_setq / trait_set(trait_change_"
             "notify=False) / trait_set), a second object linked by sync_trait(mutual=True) on a "
             "scalar and a List trait with operations on either side; strata: 50% general, 20% "
             "property, 10% adaptation, 10% quiet-set, 10% sync, with listeners forced on the traits "
             "concerned; plus 10% deferred-traits stratum (PrototypedFrom / DelegatesTo over a prototype with "
             "fault-pointed validators: assign via the deferring attribute, change the prototype, delete "
             "the local value), an object-lifetime stratum (bound-method / target= listener objects and "
             "observed Child objects that the history lets go of; weak references after gc.collect() are "
             "part of the snapshot); strata are drawn by (history index // 16) % 12: general 5/12, "
             "property 2/12, each other 1/12) x a random set of static / on_trait_change / observe handlers. "
             "Per history the fault space is ENUMERATED: every operation j x every user-callback "
             "tick k <= n_j (learnt from a fault-free twin) x E in {TraitError, ValueError, "
             "AttributeError, RuntimeError}. distinct_nontrivial = distinct (operation kind, "
             "callback kind, role, E, outcome class) signatures of injected faults. "
             "PLUS default-handling strata, run with nothing pushed on either exception-handler stack of "
             "the library (its default handlers observed through a capturing logging handler at the "
             "root of the logging hierarchy): family 'default' = histories of the same generator (strata general / "
             "sync / property / lifetime / deferred / quiet / adapt, each shard starting the cycle "
             "elsewhere) whose injected exceptions walk a catalogue of 100 shapes of the four classes "
             "(no argument; str / empty / str subclass; non-str first argument int, None, bytes, object, "
             "dict; tuple; exception instance; several arguments; __cause__ set; NotImplementedError, "
             "RecursionError (really raised by the interpreter, with the recursion message, bare, int), "
             "RuntimeError with the recursion message, UnicodeDecodeError / UnicodeEncodeError, "
             "AttributeError(name=, obj=), DelegationError; user subclasses with a raising __str__ or an "
             "__init__ passing nothing to BaseException): 8 shapes per change-handler tick, "
             "TraitError(str) + 1 shape per other tick; family 'hostile' = change-handler ticks x 5 "
             "classes x first arguments whose == raises / has no truth value (numpy-like), with a "
             "second-argument control, never truncated by a violation (own keys)."),
    "phases": [{"name": "main", "flavour": "P", "shards": 16}],
    "gates": {
        "quick": dict({"faults:" + k: 60 for k in _KINDS}, **{
            "histories": 200, "histories:property": 35, "histories:adapt": 15,
            "histories:quiet": 20, "histories:sync": 15, "histories:deferred": 20,
            "histories:lifetime": 15, "faults:listener-owned-handler:legacy": 100,
            "listener_drops_after_its_handler_failed": 30,
            "reclaimed_after_fault_observed": 1500,
            "faults:deferred-assignment": 200,
            "prototype_sets_after_failed_deferred_assignment": 250,
            "faults_injected": 15000, "precommit_judged": 8000,
            "postcommit_judged": 5000, "followup_ops_compared": 60000,
            "postcommit_getter_faults": 300, "postcommit_getter_faults:dp": 200,
            "postcommit_getter_faults:cp": 200,
            "cached_property_renotified_after_fault:dp": 100,
            "cached_property_renotified_after_fault:cp": 100,
            "faults:adapter-factory:default-mode": 300,
            "faults:adapter-factory:default-mode:holding-value": 80,
            "alt_twin_compared": 80, "alt_natural_reject_compared": 50,
            "faults:default-factory": 50,
            # quiet / multi-name sets
            "faults:in-quiet-set": 600, "faults:in-multi-set:later-name": 500,
            "notifications_after_failed_quiet_set": 2000,
            # nested deciding callbacks (sync_trait forwarding)
            "nested_deciding_judged": 400, "nested_rejection_twin_compared": 300,
            "nested_followup_ops_compared": 1400}, **_default_handling_gates(1, 1)),
        "thorough": dict({"faults:" + k: 1000 for k in _KINDS}, **{
            "histories": 3000, "histories:property": 500, "histories:adapt": 250,
            "histories:quiet": 300, "histories:sync": 250, "histories:deferred": 300,
            "histories:lifetime": 250, "faults:listener-owned-handler:legacy": 1600,
            "listener_drops_after_its_handler_failed": 500,
            "reclaimed_after_fault_observed": 25000,
            "faults:deferred-assignment": 3000,
            "prototype_sets_after_failed_deferred_assignment": 3800,
            "faults_injected": 250000, "precommit_judged": 140000,
            "postcommit_judged": 80000, "followup_ops_compared": 1000000,
            "postcommit_getter_faults": 5000, "postcommit_getter_faults:dp": 3000,
            "postcommit_getter_faults:cp": 3000,
            "cached_property_renotified_after_fault:dp": 1500,
            "cached_property_renotified_after_fault:cp": 1500,
            "faults:adapter-factory:default-mode": 4500,
            "faults:adapter-factory:default-mode:holding-value": 1200,
            "alt_twin_compared": 1200, "alt_natural_reject_compared": 800,
            "faults:default-factory": 800,
            "faults:in-quiet-set": 9000, "faults:in-multi-set:later-name": 8000,
            "notifications_after_failed_quiet_set": 30000,
            "nested_deciding_judged": 6000, "nested_rejection_twin_compared": 4500,
            "nested_followup_ops_compared": 21000}, **_default_handling_gates(8, 10)),
    },
    "exhaustive_parts": ("for each generated history, all (operation j, callback tick k, exception "
                         "type E) fault positions are enumerated (k capped at 40 per operation; "
                         "the cap is counted in ticks_capped)"),
    "assumptions": [
        "user callbacks of the harness are pure apart from their declared effect (validators "
        "return, setters write one shadow trait, handlers only log)",
        "the commit point of an operation is the first tick at which the side-effect-free "
        "snapshot (instance __dict__ values, container contents, notifier census) differs from "
        "the pre-operation snapshot modulo default materialisation, or a notification has "
        "already been delivered",
        "the warnings filter is pinned to 'ignore' (an AttributeError from a default is "
        "accompanied by a UserWarning)",
        "a change handler is post-commit by definition (an operation may notify without a visible "
        "change, e.g. lst[0] = the item already there); every other callback's role is measured",
        "instance traits created lazily by the notification machinery (_trait(name, 2)) are not "
        "state: the census counts notifiers per name through _trait(name, 0)",
        "a multi-name set is one assignment per name in order (documented, not atomic across names): "
        "a failing deciding callback of the m-th name must leave exactly what the same call restricted "
        "to the first m-1 names leaves, and the history must continue like that twin",
        "a deciding callback of a nested assignment made by traits itself during notification (the "
        "partner's validator while sync_trait forwards) has traits as its caller, which documents "
        "'the partner rejects': nothing may reach the outer caller and the run and everything after "
        "it must equal the run in which that callback rejected with TraitError (whether the injected "
        "exception is also reported on an exception channel is not compared)",
        "object lifetime is observable behaviour ('every subsequent operation behaves exactly as on an "
        "object that never saw the failure'): a listener owner or observed object the history lets go of "
        "must be reclaimed (weakref dead after gc.collect()) exactly when it is in the never-faulted twin; "
        "the harness itself keeps no reference to injected exceptions, tracebacks or replaced values",
        "a cached property already stale before the operation (a quiet set invalidates nothing) is "
        "not held against the operation",
        "default-handling strata: the library's default exception handlers are those in force in a "
        "fresh process before anything is pushed (the strata run first); what they log "
        "(any logger) with exc_info is the exception channel there; that a contained failure is logged at all "
        "is counted (injected_exception_logged_by_default_handler), not required",
        "an exception instance of a subclass of one of the four classes, or with any argument tuple, is "
        "an exception of that class in the sense of the quantifier; 'reaches the caller unchanged' is "
        "judged on the concrete type",
        "notifications whose subject is a property whose getter was faulted post-commit are exempt, "
        "and so is the `old` value of the next notification of a cached property whose cache could "
        "not be refilled (both rules verified necessary and sufficient on the unchanged tree)",
    ],
    "case_timeout": 300,
}

# exception *shapes* (vf/monitors/_c19_shapes.py): .cls, .__name__, .label, .make(n, kind) -> fresh instance.
# The enumeration under the harness's own exception handlers injects E("message") of the four classes;
# the default-handling strata draw from the whole catalogue of argument shapes and subclasses.
EXCS = shapes.PLAIN
TE_PLAIN = EXCS[0]          # TraitError("message"): "this alternative / the partner rejects"
TICK_CAP = 40
# default-handling strata: shapes injected per change-handler tick / per other tick (after TE_PLAIN)
SHAPES_PER_HANDLER_TICK = 8
SHAPES_PER_OTHER_TICK = 1
DEFAULT_STRATA = ("general", "sync", "property", "lifetime", "general", "deferred", "quiet", "adapt")
HOSTILE_STRATA = ("general", "sync", "lifetime", "property")
# Oracle rules of DESIGN.md C19/N (switchable so that their necessity can be re-verified):
# notifications whose subject is a property whose getter was faulted post-commit are exempt ...
EXEMPT_FAULTED_PROPERTY = True
# ... and, for a *cached* property, so is the `old` value its next notification reports (the
# cache could not be refilled, so `old` is Undefined instead of the value never computed)
RELAX_OLD_OF_FAULTED_CACHED_PROPERTY = True


# ---------------------------------------------------------------------------
# fault point
# ---------------------------------------------------------------------------
class FP:
    """Counts user-callback ticks of the current operation; LEARN mode probes
    the commit state at every tick, ARMED mode raises at tick k."""
    OFF, LEARN, ARMED = 0, 1, 2

    def __init__(self):
        self.mode = 0
        self.n = 0
        self.k = None
        self.exc = None
        self.kinds = []
        self.subj = []
        self.post = []
        self.nat = set()
        self.why = {}
        self.probe = None
        self.raised = None
        self.fired = False

    def off(self):
        self.mode = 0

    def learn(self, probe):
        self.mode = 1
        self.n = 0
        self.kinds = []
        self.subj = []
        self.post = []
        self.nat = set()
        self.why = {}
        self.probe = probe
        self.raised = None

    def arm(self, k, exc):
        self.fired = False
        self.mode = 2
        self.n = 0
        self.k = k
        self.exc = exc
        self.kinds = []
        self.subj = []
        self.raised = None

    def tick(self, kind, subj=None):
        m = self.mode
        if m == 0:
            return 0
        self.n = n = self.n + 1
        self.kinds.append(kind)
        self.subj.append(subj)
        if m == 1:
            self.post.append(self.probe())
        elif n == self.k:
            self.fired = True
            # the instance is marked, not remembered: a reference from the harness would pin its
            # traceback, the handler frames and the objects whose lifetime is being compared
            e = self.exc.make(n, kind)
            e._vf_injected = True
            raise e
        return n

    def natural(self):
        """A validator is about to reject on its own (LEARN mode bookkeeping)."""
        if self.mode == 1:
            self.nat.add(self.n)


class Env:
    """Per-history recorder state shared by every callback of the history."""

    def __init__(self):
        self.fp = FP()
        self.log = []        # (tick, mech, subject-object, name, old, new)
        self.chan = []       # (channel, exception type name, is-the-injected-instance)
        self.depth = 0       # depth of static / on_trait_change handler dispatch (change event tracers)

    def reset(self):
        self.fp.off()
        self.depth = 0
        del self.log[:]
        del self.chan[:]


_CUR = [None]      # the Env the two (process-global) exception channels report to


def _legacy_exc(obj, name, old, new):
    env = _CUR[0]
    e = sys.exc_info()[1]
    if env is not None:
        env.chan.append(("legacy", type(e).__name__, getattr(e, "_vf_injected", False)))


def _logged_exc(e):
    # default-handling strata: what the library's own default handlers log
    env = _CUR[0]
    if env is not None:
        env.chan.append(("log", type(e).__name__, getattr(e, "_vf_injected", False)))


def _pre_tracer(obj, name, old, new, handler):
    env = _CUR[0]
    if env is not None:
        env.depth += 1


def _post_tracer(obj, name, old, new, handler, exception=None):
    env = _CUR[0]
    if env is not None and env.depth > 0:
        env.depth -= 1


def _obs_exc(event):
    env = _CUR[0]
    e = sys.exc_info()[1]
    if env is not None:
        env.chan.append(("observe", type(e).__name__, getattr(e, "_vf_injected", False)))


# ---------------------------------------------------------------------------
# structural encodings (logs and snapshots never hold live traits objects)
# ---------------------------------------------------------------------------
def _skey(x):
    return repr(x)


def enc(v):
    t = type(v)
    if t is int or t is str or v is None:
        return repr(v)
    if isinstance(v, TraitList):
        return "L" + repr(list(v))
    if isinstance(v, TraitDict):
        return "D" + repr(sorted(v.items(), key=_skey))
    if isinstance(v, TraitSet):
        return "S" + repr(sorted(v, key=_skey))
    if isinstance(v, (set, frozenset)):
        return "s" + repr(sorted(v, key=_skey))
    if isinstance(v, dict):
        return "d" + repr(sorted(v.items(), key=_skey))
    if t is TraitListEvent:
        return "LE(%r,%s,%s)" % (v.index, enc_seq(v.removed), enc_seq(v.added))
    if t is TraitDictEvent:
        return "DE(%s,%s,%s)" % (enc(v.removed), enc(v.added), enc(v.changed))
    if t is TraitSetEvent:
        return "SE(%s,%s)" % (enc(v.removed), enc(v.added))
    return t.__name__ + ":" + repr(v)


def enc_seq(xs):
    return "[" + ",".join(enc(x) for x in xs) + "]"


class Box:
    def __repr__(self):
        return "Box()"


class IFoo(Interface):
    pass


class _Tagged(HasTraits):
    tag = Any()
    adaptee = Any()
    cond = Any(False)

    def __repr__(self):
        d = self.__dict__
        a = d.get("adaptee")
        return "%s#%s%s" % (type(self).__name__, d.get("tag"),
                            "" if a is None else "(%r)" % (a,))


class Src(_Tagged):
    pass


class Mid(_Tagged):
    pass


class Alt(_Tagged):
    pass


@provides(IFoo)
class Foo(_Tagged):
    pass


# ---------------------------------------------------------------------------
# the world: classes are built per history (they close over the history's Env)
# ---------------------------------------------------------------------------
class VT(TraitType):
    """TraitType whose validate() is a fault point of a given kind.  Accepts ints (and,
    with strs=True, strings); `offset` makes the accepting alternative visible in the
    stored value."""
    default_value = 0

    def __init__(self, env=None, kind="validator-traittype", strs=False, offset=0, **md):
        super().__init__(**md)
        self.env = env
        self.kind = kind
        self.strs = strs
        self.offset = offset

    def validate(self, obj, name, value):
        fp = self.env.fp
        fp.tick(self.kind)
        if type(value) is int:
            return value + self.offset
        if self.strs and type(value) is str:
            return value
        fp.natural()
        self.error(obj, name, value)


# declared names, their class (for operation kinds) and structural defaults
MAIN_TRAITS = {
    # name: (attr class, encoded default)
    "i": ("scalar", "0"), "s": ("scalar", "''"), "f": ("scalar", "0"), "t": ("scalar", "0"),
    "un": ("compound", "0"), "ei": ("compound", "0"), "tu": ("compound", "tuple:(0, 0)"),
    "lst": ("container", "L[]"), "lu": ("container", "L[]"), "lazy": ("container", "L[1]"),
    "dct": ("container", "D[]"), "st": ("container", "S[]"),
    "dyn": ("dynamic", "5"), "dv": ("dynamic", "15"), "box": ("dynamic", "Box:Box()"),
    "_p": ("scalar", "0"), "sup": ("adapt", "None"), "child": ("instance", "None"),
    # adaptation mode 2 (adapt='default': a value that cannot be adapted silently becomes the default)
    "supd": ("adapt", "None"), "insd": ("adapt", "None"), "ada": ("adapt", "None"),
    # shadow attributes written by Supports/AdaptsTo.post_setattr (plain __dict__ entries)
    "sup_": ("shadow", "None"), "supd_": ("shadow", "None"), "ada_": ("shadow", "None"),
}
# deferred traits (only declared in the deferred stratum's classes): a local value of a
# PrototypedFrom trait lives in __dict__ and shadows the prototype; absent = follows it
MAIN_TRAITS.update({"proto": ("instance", "None"), "px": ("deferred", "<follows the prototype>"),
                    "py": ("deferred", "<follows the prototype>"),
                    "dx": ("deferred", "<follows the prototype>")})
DEFERRED = ("px", "py", "dx")
PROTO_TRAITS = {"x": ("scalar", "0"), "y": ("scalar", "0"), "tag": ("scalar", "None")}
ADAPT_DEFAULT_MODE = ("supd", "insd", "ada")
PROPS = ("p", "cp", "dp", "dn")
EXTRA_CENSUS = PROPS + ("lst_items", "lu_items", "lazy_items", "dct_items", "st_items", "trait_added")
CHILD_TRAITS = {"v": ("scalar", "0"), "w": ("scalar", "0"), "tag": ("scalar", "None")}

STATIC_CANDS = ["i", "t", "f", "un", "ei", "tu", "lst", "lst_items", "lu_items", "dct", "dct_items",
                "st_items", "dyn", "dv", "lazy_items", "p", "cp", "dp", "dn", "sup", "supd", "insd", "ada", "child", "_p", "box"]
OTC_CANDS = ["i", "t", "f", "s", "un", "ei", "tu", "lst", "lst_items", "lu_items", "dct_items",
             "st", "st_items", "dyn", "dv", "lazy", "lazy_items", "p", "cp", "dp", "dn", "sup", "supd", "insd", "ada", "child",
             "child.v", "_p", "box"]
OBS_CANDS = ["i", "t", "f", "s", "un", "ei", "tu", "lst", "lst.items", "lu.items", "dct.items",
             "dct", "st.items", "dyn", "dv", "lazy.items", "lazy", "p", "cp", "dp", "dn", "sup", "supd", "insd", "ada", "child",
             "child.v", "child:v", "_p", "box"]


def make_classes(env, cfg):
    fp = env.fp
    log = env.log

    def vfun(obj, name, value):
        fp.tick("validator-function")
        if type(value) is int:
            return value
        fp.natural()
        raise TraitError("int expected")

    def mfun(obj, name, value):
        fp.tick("alt-function")
        if type(value) is int:
            return value + 1000
        fp.natural()
        raise TraitError("int expected")

    def mfun2(obj, name, value):
        fp.tick("alt-function")
        if type(value) is int:
            return value + 2000
        if type(value) is str:
            return value.upper()
        fp.natural()
        raise TraitError("int or str expected")

    def ifun(obj, name, value):
        fp.tick("item-validator")
        if type(value) is int:
            return value
        fp.natural()
        raise TraitError("int expected")

    def mkbox():
        fp.tick("default-factory")
        return Box()

    def static(nm):
        def h(self, name, old, new):
            n = fp.tick("handler-static")
            log.append((n, "static:" + nm, repr(self), name, enc(old), enc(new)))
        h.__name__ = "_%s_changed" % nm
        return h

    def _dyn_default(self):
        fp.tick("default-method")
        return 5

    def _dv_default(self):
        fp.tick("default-method")
        return 5

    def _lazy_default(self):
        fp.tick("default-method")
        return [1]

    def _get_p(self):
        fp.tick("getter", (repr(self), "p"))
        return self._p + self.t

    def _set_p(self, v):
        fp.tick("setter")
        self._p = v

    def _get_cp(self):
        fp.tick("cached-getter", (repr(self), "cp"))
        return self.t * 2

    def _get_dp(self):
        fp.tick("cached-getter", (repr(self), "dp"))
        return self.i * 3

    def _get_dn(self):
        fp.tick("getter", (repr(self), "dn"))
        return self.i + 7

    cns = {
        "v": VT(env, "validator-traittype"),
        "w": Int(0),
        "tag": Any(),
        "__repr__": lambda self: "Child#%s" % (self.__dict__.get("tag"),),
    }
    if cfg["child_static"]:
        cns["_v_changed"] = static("v")
    Child = MetaHasTraits("Child", (HasTraits,), cns)
    Proto = None
    if cfg.get("deferred"):
        pns = {
            "x": VT(env, "validator-traittype"),
            "y": Trait(0, vfun),
            "tag": Any(),
            "__repr__": lambda self: "Proto#%s" % (self.__dict__.get("tag"),),
        }
        if cfg["child_static"]:
            pns["_x_changed"] = static("proto-x")
        Proto = MetaHasTraits("Proto", (HasTraits,), pns)

    ns = {
        "i": Int(0),
        "s": Str(""),
        "f": Trait(0, vfun),
        "t": VT(env, "validator-traittype"),
        "un": Union(VT(env, "alt-traittype"), VT(env, "alt-traittype", strs=True, offset=100)),
        "ei": Either(Trait(0, mfun), Trait(0, mfun2)),
        "tu": Tuple(Union(VT(env, "alt-traittype"), VT(env, "alt-traittype", strs=True, offset=100)),
                    VT(env, "tuple-member")),
        "lst": List(VT(env, "item-validator")),
        "lu": List(Union(VT(env, "alt-item"), VT(env, "alt-item", strs=True, offset=100))),
        "lazy": List(VT(env, "item-validator")),
        "dct": Dict(VT(env, "key-validator"), VT(env, "value-validator")),
        "st": Set(Trait(0, ifun)),
        "dyn": Int(),
        # coercing, so that the validated default (15) differs from the raw one (5)
        "dv": VT(env, "validator-traittype", offset=10),
        "box": Instance(Box, factory=mkbox),
        "p": Property(VT(env, "prop-validator"), observe="_p,t"),
        "_p": Int(0),
        "cp": Property(observe="t"),
        "dp": Property(depends_on="i"),          # legacy depends_on, cached
        "dn": Property(depends_on="i"),          # legacy depends_on, not cached
        "sup": Supports(IFoo),
        "supd": Supports(IFoo, adapt="default"),
        "insd": Instance(IFoo, adapt="default"),
        "ada": AdaptsTo(IFoo, adapt="default"),
        "child": Instance(Child),
        "_dyn_default": _dyn_default,
        "_dv_default": _dv_default,
        "_lazy_default": _lazy_default,
        "_get_p": _get_p,
        "_set_p": _set_p,
        "_get_cp": cached_property(_get_cp),
        "_get_dp": cached_property(_get_dp),
        "_get_dn": _get_dn,
        "__repr__": lambda self: self.__dict__.get("_vf_name", "W"),
    }
    if Proto is not None:
        ns["proto"] = Instance(Proto)
        ns["px"] = PrototypedFrom("proto", "x")
        ns["py"] = PrototypedFrom("proto", "y")
        ns["dx"] = DelegatesTo("proto", "x")
    for nm in cfg["static"]:
        ns["_%s_changed" % nm] = static(nm)
    if cfg["anytrait"]:
        def anyh(self, name, old, new):
            n = fp.tick("handler-static")
            log.append((n, "static:any", repr(self), name, enc(old), enc(new)))
        ns["_anytrait_changed"] = anyh
    W = MetaHasTraits("W", (HasTraits,), ns)

    # adapter factories (Src -> Mid -> IFoo preferred; Src -> Alt -> IFoo when f1 declines)
    def f1(a):
        fp.tick("adapter-factory")
        if a.__dict__.get("cond"):
            return None
        return Mid(tag=1, adaptee=a)

    def f2(a):
        fp.tick("adapter-factory")
        return Foo(tag=2, adaptee=a)

    def g1(a):
        fp.tick("adapter-factory")
        return Alt(tag=3, adaptee=a)

    def g2(a):
        fp.tick("adapter-factory")
        return Foo(tag=4, adaptee=a)

    am = AdaptationManager()
    am.register_factory(f1, Src, Mid)
    am.register_factory(f2, Mid, IFoo)
    am.register_factory(g1, Src, Alt)
    am.register_factory(g2, Alt, IFoo)
    return W, Child, am, Proto


def cache_stale(ws):
    """C12's never-stale law on the two cached properties: the set of (object, property)
    whose cache entry disagrees with its dependencies (empty = fine)."""
    out = None
    for o in ws:
        d = o.__dict__
        if "_traits_cache_cp" in d and d["_traits_cache_cp"] != d.get("t", 0) * 2:
            out = (out or frozenset()) | {(repr(o), "cp")}
        if "_traits_cache_dp" in d and d["_traits_cache_dp"] != d.get("i", 0) * 3:
            out = (out or frozenset()) | {(repr(o), "dp")}
    return out or frozenset()


def newly_stale(r_stale, *refs):
    """Stale caches of the faulted graph that none of the references has (a quiet set
    invalidates nothing, so a twin may legitimately carry a stale cache)."""
    x = set(r_stale)
    for ref in refs:
        if ref:
            x -= set(ref)
    return sorted(x)


class Listener:
    """A plain object whose bound methods are change handlers.  traits holds bound-method
    handlers (and target= objects) weakly: once the harness drops its only strong reference the
    listener must be reclaimed, its handlers unregistered and never called again."""

    def __init__(self, env, tag):
        self.env = env
        self.tag = tag

    def on_change(self, obj, name, old, new):
        env = self.env
        n = env.fp.tick("handler-otc", ("listener", self.tag))
        env.log.append((n, "otc:L%d" % self.tag, repr(obj), name, enc(old), enc(new)))

    def on_event(self, event):
        env = self.env
        n = env.fp.tick("handler-observe", ("listener", self.tag))
        env.log.append((n, "obs:L%d" % self.tag, repr(event.object), event.name,
                        enc(event.old), enc(event.new)))


def _target_handler(env, tag):
    # registered with target=<listener>: must not reference the listener itself
    def h(obj, name, old, new):
        n = env.fp.tick("handler-otc", ("listener", tag))
        env.log.append((n, "otc-target:L%d" % tag, repr(obj), name, enc(old), enc(new)))
    return h


class Graph:
    """One object graph, rebuilt from scratch for every replay."""

    def __init__(self, env, W, Child, cfg, Proto=None):
        env.reset()
        self.env = env
        self.cfg = cfg
        self.Child = Child
        self.main = W()
        self.pool = [("W", self.main, MAIN_TRAITS)]   # (key, object or weakref.ref, declared names)
        self.track_life = bool(cfg.get("lifetime"))
        self.tracked = {}     # key -> weakref of an object whose lifetime is part of the snapshot
        self.lsn = {}         # index -> listener object (the harness's only strong reference)
        self.ws = [self.main]
        self.b = None
        self.Proto = Proto
        if Proto is not None:
            p0 = Proto(tag=0)
            self.pool.append(("Proto#0", p0, PROTO_TRAITS))
            self.main.proto = p0
        if cfg.get("sync"):
            # a second object of the same class, mutually synchronised on some traits
            self.b = W()
            self.b.__dict__["_vf_name"] = "W2"
            self.pool.append(("W2", self.b, MAIN_TRAITS))
            self.ws.append(self.b)
            if cfg["sync_first"]:
                for nm in cfg["sync"]:
                    self.main.sync_trait(nm, self.b, mutual=True)
        fp = env.fp
        log = env.log

        def otc(label):
            def h(obj, name, old, new):
                n = fp.tick("handler-otc")
                log.append((n, "otc:" + label, repr(obj), name, enc(old), enc(new)))
            return h

        def obs(label):
            def h(event):
                n = fp.tick("handler-observe")
                t = type(event)
                if t is TraitChangeEvent:
                    log.append((n, "obs:" + label, repr(event.object), event.name,
                                enc(event.old), enc(event.new)))
                elif t is ListChangeEvent:
                    log.append((n, "obs:" + label, "list", repr(event.index),
                                enc_seq(event.removed), enc_seq(event.added)))
                elif t is DictChangeEvent:
                    log.append((n, "obs:" + label, "dict", "", enc(event.removed), enc(event.added)))
                elif t is SetChangeEvent:
                    log.append((n, "obs:" + label, "set", "", enc(event.removed), enc(event.added)))
                else:
                    log.append((n, "obs:" + label, t.__name__, "", "", ""))
            return h
        self.keep = []
        self.cont = None     # Res of the ops after the injected one, once run
        for nm in cfg["otc"]:
            h = otc(nm)
            self.keep.append(h)
            self.main.on_trait_change(h, nm)
        for ex in cfg["obs"]:
            h = obs(ex)
            self.keep.append(h)
            self.main.observe(h, ex)
        if self.b is not None:
            for nm in cfg["b_otc"]:
                h = otc("b:" + nm)
                self.keep.append(h)
                self.b.on_trait_change(h, nm)
            for ex in cfg["b_obs"]:
                h = obs("b:" + ex)
                self.keep.append(h)
                self.b.observe(h, ex)
            if not cfg["sync_first"]:
                for nm in cfg["sync"]:
                    self.main.sync_trait(nm, self.b, mutual=True)
        if cfg["obj_otc"]:
            h = otc("*")
            self.keep.append(h)
            self.main.on_trait_change(h)
        if self.track_life:
            for i in range(3):
                lsn = Listener(env, i)
                self.lsn[i] = lsn
                self.tracked["L%d" % i] = weakref.ref(lsn)
            for (i, mech, where, nm) in cfg["lsn"]:
                if where == "main":
                    self.hook(self.lsn[i], mech, self.main, nm)
            lsn = None

    def hook(self, lsn, mech, obj, nm):
        if mech == "otc":
            obj.on_trait_change(lsn.on_change, nm)
        elif mech == "obs":
            obj.observe(lsn.on_event, nm)
        else:
            obj.on_trait_change(_target_handler(self.env, lsn.tag), nm, target=lsn)

    # -- values ------------------------------------------------------------
    def val(self, d):
        if type(d) is tuple and d and d[0] == "@":
            kind = d[1]
            if kind == "box":
                return Box()
            if kind == "src":
                return Src(tag=d[2])
            if kind == "cond":
                return Src(tag=d[2], cond=True)
            if kind == "foo":
                return Foo(tag=d[2])
            if kind == "proto":
                c = self.Proto(tag=d[2])
                self.pool.append(("Proto#%s" % d[2], c, PROTO_TRAITS))
                return c
            if kind == "child":
                c = self.Child(tag=d[2])
                if self.track_life:
                    # the graph is the only owner: once main.child lets go of it, it must die
                    self.pool.append(("Child#%s" % d[2], weakref.ref(c), CHILD_TRAITS))
                    self.tracked["Child#%s" % d[2]] = weakref.ref(c)
                    for (i, mech, where, nm) in self.cfg["lsn"]:
                        if where == "child" and i in self.lsn:
                            self.hook(self.lsn[i], mech, c, nm)
                else:
                    self.pool.append(("Child#%s" % d[2], c, CHILD_TRAITS))
                return c
            raise AssertionError(d)
        if type(d) is list:
            return list(d)
        if type(d) is dict:
            return dict(d)
        if type(d) is set:
            return set(d)
        return d

    # -- operations --------------------------------------------------------
    def do(self, op, a=None):
        if not self.track_life:
            return self._do(op, a)
        try:
            return self._do(op, a)
        finally:
            k = op[0]
            if k == "drop-listener" or (k == "set" and op[1] in ("child", "box")):
                # lifetimes are compared after a full collection (traits objects sit in cycles)
                gc.collect()

    def _do(self, op, a=None):
        if a is None:
            a = self.main
        k = op[0]
        if k == "drop-listener":
            self.lsn.pop(op[1], None)
            return None
        if k == "on-b":
            return self.do(op[1], self.b)
        if k == "multi":
            d = {n: self.val(v) for n, v in op[2]}
            if op[1] == "setq":
                a.trait_setq(**d)
            elif op[1] == "quiet":
                a.trait_set(trait_change_notify=False, **d)
            else:
                a.trait_set(**d)
            return None
        if k == "set":
            setattr(a, op[1], self.val(op[2]))
            return None
        if k == "get":
            return enc(getattr(a, op[1]))
        if k == "proto-set":
            c = a.proto
            if c is None:
                return "noproto"
            setattr(c, op[1], op[2])
            return None
        if k == "del":
            delattr(a, op[1])
            return None
        if k == "child-set":
            c = a.child
            if c is None:
                return "nochild"
            setattr(c, op[1], op[2])
            return None
        if k.startswith("list-"):
            x = getattr(a, op[1])
            m = k[5:]
            if m == "append":
                return x.append(op[2])
            if m == "extend":
                return x.extend(list(op[2]))
            if m == "insert":
                return x.insert(op[2], op[3])
            if m == "setitem":
                x[op[2]] = op[3]
                return None
            if m == "setslice":
                x[slice(*op[2])] = list(op[3])
                return None
            if m == "iadd":
                x += list(op[2])
                return None
            if m == "delitem":
                del x[op[2]]
                return None
            if m == "delslice":
                del x[slice(*op[2])]
                return None
            if m == "pop":
                return enc(x.pop())
            if m == "clear":
                return x.clear()
            if m == "sort":
                return x.sort(key=repr)
            if m == "reverse":
                return x.reverse()
            if m == "imul":
                x *= op[2]
                return None
            if m == "remove":
                return x.remove(op[2])
        if k.startswith("dict-"):
            x = getattr(a, op[1])
            m = k[5:]
            if m == "update":
                return x.update(dict(op[2]))
            if m == "update-pairs":
                return x.update(list(op[2]))
            if m == "setitem":
                x[op[2]] = op[3]
                return None
            if m == "ior":
                x |= dict(op[2])
                return None
            if m == "setdefault":
                return enc(x.setdefault(op[2], op[3]))
            if m == "pop":
                return enc(x.pop(op[2], None))
            if m == "delitem":
                del x[op[2]]
                return None
            if m == "clear":
                return x.clear()
            if m == "popitem":
                return enc(x.popitem())
        if k.startswith("set-"):
            x = getattr(a, op[1])
            m = k[4:]
            if m == "update":
                return x.update(*[list(i) for i in op[2]])
            if m == "ior":
                x |= set(op[2])
                return None
            if m == "add":
                return x.add(op[2])
            if m == "discard":
                return x.discard(op[2])
            if m == "remove":
                return x.remove(op[2])
            if m == "ixor":
                x ^= set(op[2])
                return None
            if m == "iand":
                x &= set(op[2])
                return None
            if m == "isub":
                x -= set(op[2])
                return None
            if m == "symdiff":
                return x.symmetric_difference_update(set(op[2]))
            if m == "intersection":
                return x.intersection_update(set(op[2]))
            if m == "difference":
                return x.difference_update(set(op[2]))
            if m == "clear":
                return x.clear()
        raise AssertionError(op)

    # -- snapshot ----------------------------------------------------------
    def snap(self):
        """Side-effect-free snapshot: (values, census, ids).  values[(obj, name)] is
        None when the trait has no entry in __dict__ (default not materialised), else
        (encoded value, container census or None)."""
        vals = {}
        cen = {}
        ids = {}
        for key, o, names in self.pool:
            if type(o) is weakref.ref:
                o = o()
                if o is None:
                    continue          # reclaimed: its keys vanish from the snapshot
            d = o.__dict__
            for n in names:
                if n in d:
                    v = d[n]
                    if isinstance(v, (TraitList, TraitDict, TraitSet)):
                        vals[key, n] = (enc(v), len(v.notifiers))
                    else:
                        vals[key, n] = (enc(v), None)
                    ids[key, n] = v
                else:
                    vals[key, n] = None
                t = o._trait(n, 0)
                if t is not None:
                    x = t._notifiers(False)
                    cen[key, n] = len(x) if x else 0
            inst = o._instance_traits()
            for n in inst:
                if n not in names:
                    t = o._trait(n, 0)
                    x = t._notifiers(False)
                    cen[key, n] = len(x) if x else 0
            if names is MAIN_TRAITS:
                for n in EXTRA_CENSUS:
                    if n not in inst:
                        t = o._trait(n, 0)
                        x = t._notifiers(False)
                        cen[key, n] = len(x) if x else 0
            x = o._notifiers(False)
            cen[key, ""] = len(x) if x else 0
        o = None
        for key, ref in self.tracked.items():
            vals["life", key] = ("alive" if ref() is not None else "reclaimed", None)
        return vals, cen, ids


def diff_values(a, b, same_graph_ids=None):
    """Keys whose readable value differs, modulo default materialisation."""
    out = []
    for k in a.keys() | b.keys():
        if k not in a or k not in b:
            out.append(k)
            continue
        x, y = a[k], b[k]
        if x == y:
            continue
        if x is None or y is None:
            present = y if x is None else x
            spec = (MAIN_TRAITS if k[0].startswith("W") else PROTO_TRAITS if k[0].startswith("Proto")
                    else CHILD_TRAITS)
            if present[0] == spec[k[1]][1]:
                continue          # the declared default, merely materialised
        out.append(k)
    if same_graph_ids is not None:
        i0, i1 = same_graph_ids
        for k in i0:
            if k in i1 and i0[k] is not i1[k] and k not in out:
                out.append(k)
    return sorted(out)


def diff_census(a, b):
    return sorted(k for k in a.keys() | b.keys() if a.get(k) != b.get(k))


# ---------------------------------------------------------------------------
# history generation
# ---------------------------------------------------------------------------
def op_kind(op):
    k = op[0]
    if k == "on-b":
        return "partner:" + op_kind(op[1])
    if k == "multi":
        return "multi-" + op[1]
    if k == "drop-listener":
        return "drop-listener"
    if k == "proto-set":
        return "prototype-set"
    if k == "del":
        return "del-deferred"
    if k == "set":
        if op[1] in PROPS:
            return "assign-property"
        return "assign-" + MAIN_TRAITS[op[1]][0]
    if k == "get":
        if op[1] in PROPS:
            return "read-property"
        c = MAIN_TRAITS[op[1]][0]
        return "read-default" if c == "dynamic" or op[1] == "lazy" else "read-plain"
    return k


def gen_config(rng):
    def pick(cands, lo, hi):
        n = rng.randint(lo, hi)
        return sorted(rng.sample(cands, min(n, len(cands))))
    return {
        "static": pick(STATIC_CANDS, 0, 6),
        "anytrait": rng.random() < 0.2,
        "child_static": rng.random() < 0.5,
        "otc": pick(OTC_CANDS, 1, 8),
        "obs": pick(OBS_CANDS, 1, 8),
        "obj_otc": rng.random() < 0.12,
        "sync": [], "sync_first": rng.random() < 0.5, "b_otc": [], "b_obs": [], "deferred": False,
        "lifetime": False, "lsn": [],
    }


def _int(rng):
    return rng.randrange(10)


def _item(rng, strs_ok=False):
    r = rng.random()
    if r < 0.14:
        return "x" if not strs_ok else 1.5      # naturally rejected
    if strs_ok and r < 0.4:
        return rng.choice(["a", "b"])
    return _int(rng)


def _items(rng, lo, hi, strs_ok=False):
    return [_item(rng, strs_ok) for _ in range(rng.randint(lo, hi))]


def gen_op(rng, idx):
    c = rng.randrange(100)
    if c < 14:      # scalar assignments
        a = rng.choice(["i", "s", "f", "t", "t", "f", "dyn", "dv", "dv", "_p", "box", "box"])
        if a == "s":
            v = rng.choice(["a", "b", "", 3])
        elif a == "box":
            v = rng.choice([("@", "box"), ("@", "box"), 5])
        else:
            v = rng.choice([_int(rng), _int(rng), _int(rng), "x"])
        return ("set", a, v)
    if c < 26:      # compound members
        a = rng.choice(["un", "ei", "tu", "tu"])
        if a == "tu":
            v = rng.choice([(_int(rng), _int(rng)), ("a", _int(rng)), (_int(rng), "b"), ("a", "b"),
                            (1.5, 2), (1,), (_int(rng), _int(rng))])
        else:
            v = rng.choice([_int(rng), _int(rng), "abc", "de", 1.5, None])
        return ("set", a, v)
    if c < 34:      # whole-container assignment
        a = rng.choice(["lst", "lu", "lazy", "dct", "st"])
        if a == "dct":
            return ("set", a, {_item(rng): _item(rng) for _ in range(rng.randint(0, 3))})
        if a == "st":
            return ("set", a, set(_items(rng, 0, 3)))
        return ("set", a, _items(rng, 0, 3, strs_ok=(a == "lu")))
    if c < 52:      # list mutators
        a = rng.choice(["lst", "lst", "lu", "lazy"])
        so = a == "lu"
        m = rng.randrange(16)
        if m < 3:
            return ("list-extend", a, _items(rng, 1, 4, so))
        if m < 5:
            return ("list-setslice", a, rng.choice([(0, 2, None), (1, None, None), (None, None, 2),
                                                    (0, 0, None), (None, None, None)]),
                    _items(rng, 0, 3, so))
        if m == 5:
            return ("list-append", a, _item(rng, so))
        if m == 6:
            return ("list-insert", a, rng.randint(-1, 3), _item(rng, so))
        if m == 7:
            return ("list-setitem", a, rng.randint(-1, 2), _item(rng, so))
        if m == 8:
            return ("list-iadd", a, _items(rng, 1, 3, so))
        if m == 9:
            return ("list-delitem", a, rng.randint(-1, 2))
        if m == 10:
            return ("list-delslice", a, rng.choice([(0, 2, None), (None, None, 2)]))
        if m == 11:
            return ("list-pop", a)
        if m == 12:
            return (rng.choice(["list-clear", "list-reverse", "list-sort"]), a)
        if m == 13:
            return ("list-imul", a, rng.choice([0, 2]))
        if m == 14:
            return ("list-remove", a, _int(rng))
        return ("list-extend", a, _items(rng, 2, 3, so))
    if c < 64:      # dict mutators
        m = rng.randrange(11)
        if m < 3:
            return ("dict-update", "dct", {_item(rng): _item(rng) for _ in range(rng.randint(1, 3))})
        if m == 3:
            return ("dict-update-pairs", "dct", [(_item(rng), _item(rng)) for _ in range(rng.randint(1, 3))])
        if m < 6:
            return ("dict-ior", "dct", {_item(rng): _item(rng) for _ in range(rng.randint(1, 3))})
        if m == 6:
            return ("dict-setitem", "dct", _item(rng), _item(rng))
        if m == 7:
            return ("dict-setdefault", "dct", _item(rng), _item(rng))
        if m == 8:
            return ("dict-pop", "dct", _int(rng))
        if m == 9:
            return ("dict-delitem", "dct", _int(rng))
        return (rng.choice(["dict-clear", "dict-popitem"]), "dct")
    if c < 75:      # set mutators
        m = rng.randrange(11)
        if m < 3:
            return ("set-update", "st", [_items(rng, 1, 2) for _ in range(rng.randint(1, 2))])
        if m < 5:
            return ("set-ior", "st", set(_items(rng, 1, 3)))
        if m == 5:
            return ("set-add", "st", _item(rng))
        if m == 6:
            return (rng.choice(["set-discard", "set-remove"]), "st", _int(rng))
        if m == 7:
            return (rng.choice(["set-ixor", "set-symdiff"]), "st", set(_items(rng, 1, 3)))
        if m == 8:
            return (rng.choice(["set-iand", "set-intersection"]), "st", set(_items(rng, 1, 3)))
        if m == 9:
            return (rng.choice(["set-isub", "set-difference"]), "st", set(_items(rng, 1, 3)))
        return ("set-clear", "st")
    if c < 83:      # reads (defaults, properties)
        return ("get", rng.choice(["dyn", "dv", "dv", "lazy", "lazy", "box", "box", "box", "box", "box", "p", "cp", "cp", "dp",
                                   "dp", "dn", "lst", "sup", "supd", "ada", "t"]))
    if c < 89:      # property set
        return ("set", "p", rng.choice([_int(rng), _int(rng), _int(rng), "x"]))
    if c < 95:      # adaptation
        return gen_adapt_op(rng, idx)
    if c < 97:
        return ("set", "child", rng.choice([("@", "child", idx), ("@", "child", idx), None]))
    if c < 98:
        return gen_multi_op(rng, idx)
    return ("child-set", rng.choice(["v", "v", "w"]), rng.choice([_int(rng), _int(rng), "x"]))


def gen_adapt_op(rng, idx):
    return ("set", rng.choice(["sup", "sup", "supd", "supd", "insd", "insd", "ada"]),
            rng.choice([("@", "src", idx), ("@", "src", idx), ("@", "cond", idx), ("@", "foo", idx),
                        ("@", "foo", idx), None, 5]))


def gen_prop_op(rng, idx):
    """Operations around the four properties and their dependencies."""
    c = rng.randrange(20)
    if c < 4:
        return ("get", "dp")
    if c < 7:
        return ("get", "cp")
    if c < 9:
        return ("get", rng.choice(["p", "dn"]))
    if c < 13:
        return ("set", "i", rng.choice([_int(rng), _int(rng), _int(rng), _int(rng), "x"]))
    if c < 17:
        return ("set", "t", rng.choice([_int(rng), _int(rng), _int(rng), _int(rng), "x"]))
    if c < 19:
        return ("set", rng.choice(["p", "_p"]), _int(rng))
    return gen_op(rng, idx)


MULTI_NAMES = ["f", "t", "dv", "p", "i", "un", "ei", "dyn", "s", "lst", "_p", "tu"]


def _multi_value(rng, n):
    if n == "s":
        return rng.choice(["a", "b", "", 3])
    if n == "lst":
        return _items(rng, 0, 3)
    if n == "tu":
        return rng.choice([(_int(rng), _int(rng)), ("a", _int(rng)), (_int(rng), "b"), (1,)])
    if n in ("un", "ei"):
        return rng.choice([_int(rng), _int(rng), "abc", 1.5])
    return "x" if rng.random() < 0.12 else _int(rng)


def gen_multi_op(rng, idx):
    """trait_setq(**several) / trait_set(trait_change_notify=False, **several) / trait_set(**several):
    documented as one assignment per name, in order (not atomic across names)."""
    mode = rng.choice(["setq", "setq", "quiet", "quiet", "notify"])
    names = rng.sample(MULTI_NAMES, rng.randint(2, 3))
    return ("multi", mode, tuple((n, _multi_value(rng, n)) for n in names))


def gen_quiet_stratum_op(rng, idx):
    c = rng.randrange(20)
    if c < 8:
        return gen_multi_op(rng, idx)
    if c < 17:
        n = rng.choice(MULTI_NAMES)
        return ("set", n, _multi_value(rng, n))
    return gen_op(rng, idx)


def gen_sync_stratum_op(rng, idx, synced):
    """Assignments and list mutations on either side of a mutual sync_trait link."""
    c = rng.randrange(20)
    if c < 7:
        op = ("set", "t", rng.choice([_int(rng), _int(rng), _int(rng), _int(rng), "x"]))
    elif c < 9:
        op = ("set", "f", rng.choice([_int(rng), _int(rng), "x"]))
    elif c < 17:
        m = rng.randrange(10)
        if m < 2:
            op = ("list-append", "lst", _item(rng))
        elif m < 4:
            op = ("list-extend", "lst", _items(rng, 1, 3))
        elif m == 4:
            op = ("list-setitem", "lst", rng.randint(-1, 1), _item(rng))
        elif m == 5:
            op = ("list-setslice", "lst", rng.choice([(0, 2, None), (1, None, None), (0, 0, None)]),
                  _items(rng, 0, 3))
        elif m == 6:
            op = ("list-iadd", "lst", _items(rng, 1, 2))
        elif m == 7:
            op = ("list-insert", "lst", rng.randint(0, 2), _item(rng))
        elif m == 8:
            op = rng.choice([("list-delitem", "lst", 0), ("list-pop", "lst")])
        else:
            op = rng.choice([("list-clear", "lst"), ("list-reverse", "lst")])
    elif c < 18:
        op = ("set", "lst", _items(rng, 0, 3))
    else:
        return gen_op(rng, idx)
    return ("on-b", op) if rng.random() < 0.5 else op


def gen_deferred_stratum_op(rng, idx):
    """PrototypedFrom / DelegatesTo attributes: assign through the deferring attribute (the
    prototype trait's validator decides), change the prototype, delete the local value."""
    c = rng.randrange(20)
    if c < 6:
        return ("set", rng.choice(["px", "px", "py", "dx"]), rng.choice([_int(rng), _int(rng), _int(rng), "x"]))
    if c < 12:
        return ("proto-set", rng.choice(["x", "x", "y"]), rng.choice([_int(rng), _int(rng), _int(rng), "x"]))
    if c < 14:
        return ("del", rng.choice(["px", "px", "py", "dx"]))
    if c < 16:
        return ("get", rng.choice(DEFERRED))
    if c < 17:
        return ("set", "proto", ("@", "proto", idx))
    return gen_op(rng, idx)


def gen_lifetime_stratum_op(rng, idx):
    """Changes heard by bound-method listeners, and letting go of listeners / observed objects."""
    c = rng.randrange(20)
    if c < 7:
        a = rng.choice(["t", "t", "i", "f", "s"])
        return ("set", a, rng.choice(["a", "b", 3]) if a == "s" else rng.choice([_int(rng), _int(rng), _int(rng), "x"]))
    if c < 10:
        return ("child-set", rng.choice(["v", "v", "w"]), rng.choice([_int(rng), _int(rng), "x"]))
    if c < 12:
        return ("set", "child", ("@", "child", idx))
    if c < 13:
        return ("set", "child", None)
    if c < 17:
        return ("drop-listener", rng.randrange(3))
    if c < 18:
        return ("set", "box", ("@", "box"))
    return gen_op(rng, idx)


def watched(cfg):
    """Attributes whose change reaches at least one user handler."""
    if cfg["anytrait"] or cfg["obj_otc"]:
        return None
    w = set()
    for n in cfg["static"] + cfg["otc"] + cfg["obs"]:
        n = n.replace("_items", "").replace(".items", "")
        if n in ("child.v", "child:v"):
            w.update(("child", "v"))
        elif n != "_p" and n.endswith("_p"):
            w.add(n)
        else:
            w.add(n)
    if cfg["child_static"]:
        w.add("v")
    if "p" in w:
        w.update(("_p", "t"))
    if "cp" in w:
        w.add("t")
    if "dp" in w or "dn" in w:
        w.add("i")
    return w


def _force(rng, cfg, names, mechs=("static", "otc", "obs")):
    """Give every name in `names` at least one listener (of a random mechanism)."""
    for nm in names:
        for m in rng.sample(mechs, rng.randint(1, len(mechs))):
            if nm not in cfg[m]:
                cfg[m] = sorted(cfg[m] + [nm])


def gen_history(rng, stratum="general"):
    """Strata: 'general' draws from the whole alphabet; 'property' concentrates on the cached /
    uncached, observe= / depends_on= properties and their dependencies (fill the cache, change
    a dependency, read again ... with listeners of every mechanism on the properties);
    'adapt' on Supports/Instance/AdaptsTo in both adaptation modes with listeners attached."""
    cfg = gen_config(rng)
    n = rng.randint(8, 12)
    ops = []
    if stratum == "property":
        _force(rng, cfg, ["dp", "cp"])
        _force(rng, cfg, rng.sample(["p", "dn", "i", "t"], 2))
        while len(ops) < n:
            ops.append(gen_prop_op(rng, len(ops)))
        return cfg, ops
    if stratum == "lifetime":
        cfg["lifetime"] = True
        regs = []
        for i in range(3):
            for _ in range(rng.randint(1, 3)):
                where = rng.choice(["main", "main", "child"])
                nm = rng.choice(["t", "t", "t", "i", "f", "s", "child", "box"]) if where == "main" \
                    else rng.choice(["v", "v", "w"])
                regs.append((i, rng.choice(["otc", "otc", "obs", "target"]), where, nm))
        cfg["lsn"] = sorted(set(regs))
        ops.append(("set", "child", ("@", "child", 0)))
        while len(ops) < n:
            ops.append(gen_lifetime_stratum_op(rng, len(ops)))
        return cfg, ops
    if stratum == "deferred":
        cfg["deferred"] = True
        _force(rng, cfg, ["px"], ("static",))
        _force(rng, cfg, ["px"], ("otc",))
        _force(rng, cfg, ["px"], ("obs",))
        _force(rng, cfg, ["py", "dx"])
        if rng.random() < 0.5:
            cfg["otc"] = sorted(cfg["otc"] + ["proto.x"])
        if rng.random() < 0.5:
            cfg["obs"] = sorted(cfg["obs"] + [rng.choice(["proto.x", "proto:y", "proto"])])
        while len(ops) < n:
            ops.append(gen_deferred_stratum_op(rng, len(ops)))
        return cfg, ops
    if stratum == "quiet":
        _force(rng, cfg, rng.sample(MULTI_NAMES, 5))
        while len(ops) < n:
            ops.append(gen_quiet_stratum_op(rng, len(ops)))
        return cfg, ops
    if stratum == "sync":
        cfg["sync"] = ["t", "lst"] + (["f"] if rng.random() < 0.5 else [])
        cfg["b_otc"] = sorted(rng.sample(["t", "lst_items", "f", "lst"], rng.randint(1, 3)))
        cfg["b_obs"] = sorted(rng.sample(["t", "lst.items", "f"], rng.randint(0, 2)))
        _force(rng, cfg, ["t"], ("static", "otc", "obs"))
        _force(rng, cfg, ["lst_items"], ("static", "otc"))
        while len(ops) < n:
            ops.append(gen_sync_stratum_op(rng, len(ops), cfg["sync"]))
        return cfg, ops
    if stratum == "adapt":
        _force(rng, cfg, ["supd", "insd"])
        _force(rng, cfg, rng.sample(["sup", "ada"], 1))
        while len(ops) < n:
            ops.append(gen_adapt_op(rng, len(ops)) if rng.random() < 0.65 else gen_op(rng, len(ops)))
        return cfg, ops
    w = watched(cfg)
    # a child early in a third of the histories so nested observers have a target
    if rng.random() < 0.35 or (w is not None and "v" in w and rng.random() < 0.8):
        ops.append(("set", "child", ("@", "child", 0)))
    while len(ops) < n:
        op = gen_op(rng, len(ops))
        if w is not None and op[1] not in w and rng.random() < 0.6:
            op = gen_op(rng, len(ops))        # second draw: bias towards watched attributes
        ops.append(op)
    return cfg, ops


def stratum_of(h):
    r = (h // 16) % 12          # independent of the shard (h % 16): every shard sees every stratum
    return {3: "property", 7: "property", 5: "adapt", 1: "quiet", 9: "sync", 0: "deferred",
            11: "lifetime"}.get(r, "general")


# ---------------------------------------------------------------------------
# running one operation and collecting what the oracle needs
# ---------------------------------------------------------------------------
class Res:
    __slots__ = ("out", "exc_type", "exc_repr", "vals", "cen", "ids", "log", "chan", "stale", "kinds", "subj")


def strip(log):
    return [e[1:] for e in log]


def run_op(g, op, keep_ids=False):
    """Run op on graph g with the FP in whatever mode the caller set; returns Res."""
    env = g.env
    env.depth = 0
    l0, c0 = len(env.log), len(env.chan)
    r = Res()
    r.exc_type = None
    r.exc_repr = None
    try:
        r.out = ("ok", g.do(op))
    except Exception as e:       # noqa: BLE001 - outcome classification
        r.out = ("exc", type(e).__name__)
        # the exception instance itself is NOT kept: its traceback would pin the frames and
        # with them the objects whose lifetime the monitor compares
        r.exc_type = type(e)
        r.exc_repr = repr(e)
    fp = env.fp
    r.kinds = fp.kinds
    r.subj = fp.subj
    fp.off()
    fp.raised = None
    r.vals, r.cen, r.ids = g.snap()
    if not keep_ids:
        r.ids = None
    r.log = env.log[l0:]
    r.chan = env.chan[c0:]
    r.stale = cache_stale(g.ws)
    return r


_SKIP = object()


class Trace:
    """A fault-free run of a history.  `replace` = {index: op or _SKIP} runs a variant of the
    history (an op left out, or a multi-set truncated to its first names); `count_at` counts
    the user-callback ticks of that op (self.nticks)."""

    def __init__(self, env, classes, cfg, ops, replace=None, learn=False, count_at=None):
        W, Child, am, Proto = classes
        g = Graph(env, W, Child, cfg, Proto)
        self.pre = []         # snapshot before op m
        self.res = []         # Res after op m (None for a skipped op)
        self.post_flags = []  # per op: list of bools (tick is post-commit)
        self.nat = []
        self.why = []         # per op: {tick: what the commit detector saw}
        self.nticks = None
        cur = g.snap()[:2] + (None,)
        for m, op in enumerate(ops):
            self.pre.append(cur)
            if replace is not None and m in replace:
                op = replace[m]
                if op is _SKIP:
                    self.res.append(None)
                    self.post_flags.append([])
                    self.nat.append(set())
                    self.why.append({})
                    continue
            if learn:
                env.fp.learn(make_probe(env, g, cur[0], cur[1]))
            elif m == count_at:
                env.fp.learn(_never)
            r = run_op(g, op)
            if m == count_at:
                self.nticks = len(r.kinds)
            self.res.append(r)
            self.post_flags.append(roles_of(env.fp.post, r.kinds) if learn else [])
            self.nat.append(set(env.fp.nat) if learn else set())
            self.why.append(dict(env.fp.why) if learn else {})
            cur = (r.vals, r.cen, None)


def _never():
    return False


def make_probe(env, g, pv, pc):
    """Commit detector: has the graph left the state (pv, pc), or was anything notified?"""
    l0, c0 = len(env.log), len(env.chan)

    def probe():
        # inside the dispatch of a static / on_trait_change notifier (traits' documented change
        # event tracers): the notification phase has begun even if nothing changed visibly
        fp = env.fp
        if env.depth or len(env.log) != l0 or len(env.chan) != c0:
            fp.why[fp.n] = "a notification is being / has been delivered"
            return True
        v, c, _ = g.snap()
        dv, dc = diff_values(pv, v), diff_census(pc, c)
        if dv or dc:
            fp.why[fp.n] = "visible change: values %r, notifier census %r" % (
                [(k, pv.get(k), v.get(k)) for k in dv[:3]], [(k, pc.get(k), c.get(k)) for k in dc[:3]])
            return True
        return False
    return probe


def roles_of(post, kinds):
    # a change handler runs in the notification phase by definition (an operation such as
    # lst[0] = <the item already there> notifies without a visible change); every other
    # callback's role is the measured commit point
    return [p or kd.startswith("handler-") for p, kd in zip(post, kinds)]


def replay_prefix(env, classes, cfg, ops, j):
    W, Child, am, Proto = classes
    g = Graph(env, W, Child, cfg, Proto)
    for op in ops[:j]:
        try:
            g.do(op)
        except Exception:        # noqa: BLE001 - the prefix may contain naturally failing ops
            pass
    return g


# ---------------------------------------------------------------------------
# the oracle
# ---------------------------------------------------------------------------
class Base:
    """What a failing deciding callback must leave behind: for an ordinary operation the
    pre-state and no notification; for the m-th name of a multi-set (documented: one
    assignment per name, earlier names stay assigned) the outcome of the same call
    restricted to the first m-1 names."""
    __slots__ = ("vals", "cen", "ids", "log", "chan", "stale")

    def __init__(self, vals, cen, ids, log, chan, stale=None):
        self.vals, self.cen, self.ids, self.log, self.chan = vals, cen, ids, log, chan
        self.stale = stale      # a cache already stale there (a quiet set invalidates nothing)


def first_pre_complaint(E, r, base):
    """Clause (i) of the pre-commit rule; returns (complaint or None, detail)."""
    pv, pc = base.vals, base.cen
    same = (base.ids, r.ids) if base.ids is not None else None
    if r.out[0] == "ok":
        dv = diff_values(pv, r.vals, same)
        return "wrong-exception:none", ("the operation returned normally; state changed: %r; notifications: %r"
                                        % ([(k, pv.get(k), r.vals.get(k)) for k in dv[:4]], strip(r.log)[:4]))
    if not (r.exc_type is E.cls or issubclass(r.exc_type, TraitError)):
        return "wrong-exception:" + r.exc_type.__name__, "caller saw %s" % (r.exc_repr,)
    dv = diff_values(pv, r.vals, same)
    if dv:
        return "state-changed", "changed: %r" % [(k, pv.get(k), r.vals.get(k)) for k in dv[:4]]
    dc = diff_census(pc, r.cen)
    if dc:
        return "census-changed", "census: %r" % [(k, pc.get(k), r.cen.get(k)) for k in dc[:4]]
    if strip(r.log) != base.log or [c[:2] for c in r.chan] != base.chan:
        return "notified", "log %r channels %r (expected %r %r)" % (strip(r.log)[:4], r.chan[:4],
                                                                    base.log[:4], base.chan[:4])
    if newly_stale(r.stale, base.stale):
        return "cache-stale", "cached property %s is stale" % newly_stale(r.stale, base.stale)
    return None, ""


# what `old` may read when the previous value of a cached property could not be computed
UNKNOWN_OLD = ("_Undefined:<undefined>", "None")


def logs_agree(a, b, relax):
    """a: faulted graph's log, b: twin's.  With relax=(object, name): an entry of a about that
    subject may report an *unknown* old value where the twin reports the cached one."""
    if a == b:
        return True
    if relax is None or len(a) != len(b):
        return False
    for x, y in zip(a, b):
        if x == y:
            continue
        if (x[1], x[2]) == relax and x[3] in UNKNOWN_OLD and x[:3] == y[:3] and x[4:] == y[4:]:
            continue
        return False
    return True


def same_run(r, t, relax=None, ignore_injected=False):
    """Observational identity of two runs of one operation on equal pre-states."""
    if r.out != t.out:
        return "outcome %r vs %r" % (r.out, t.out)
    dv = diff_values(r.vals, t.vals)
    if dv:
        return "state %r" % [(k, r.vals.get(k), t.vals.get(k)) for k in dv[:4]]
    dc = diff_census(r.cen, t.cen)
    if dc:
        return "census %r" % [(k, r.cen.get(k), t.cen.get(k)) for k in dc[:4]]
    a, b = strip(r.log), strip(t.log)
    if not logs_agree(a, b, relax):
        return "log %r vs %r" % (a[:6], b[:6])
    if ignore_injected:
        # whether (and as which type) the injected exception itself is reported is not compared
        if [c[:2] for c in r.chan if not c[2]] != [c[:2] for c in t.chan if not c[2]]:
            return "channels %r vs %r" % (r.chan, t.chan)
    elif [c[:2] for c in r.chan] != [c[:2] for c in t.chan]:
        return "channels %r vs %r" % (r.chan, t.chan)
    return None


class History:
    def __init__(self, ctx, h, mode="pushed"):
        """mode 'pushed': the harness's own handlers are on both exception-handler stacks and
        E("message") of the four classes is injected (the original enumeration).  mode 'default':
        nothing is pushed (the library's default handling, observed through logging) and the
        exceptions are drawn from the catalogue of shapes.  mode 'hostile': like 'default', only
        change-handler ticks, first arguments with a hostile `==` (own key suffix, never stops)."""
        self.ctx = ctx
        self.h = h
        self.mode = mode
        self.suffix = ""
        self.keep_going = False
        if mode == "pushed":
            rng = ctx.rng("hist", h)
            self.stratum = stratum_of(h)
            self.shapes = None
        else:
            rng = ctx.rng("hist", mode, h)
            cyc = DEFAULT_STRATA if mode == "default" else HOSTILE_STRATA
            # h % 16 is the shard: every shard walks the cycle from a different start
            self.stratum = cyc[(h // 16 + h % 16) % len(cyc)]
            if mode == "default":
                self.shapes = list(shapes.CATALOGUE)
                ctx.rng("shapes", h).shuffle(self.shapes)
            else:
                self.shapes = list(shapes.HOSTILE)
                self.keep_going = True
            self.cursor = 0
        self.cfg, self.ops = gen_history(rng, self.stratum)
        self.env = Env()
        self.classes = make_classes(self.env, self.cfg)
        self.without = {}

    def excs_for(self, kind, post):
        """The exceptions injected at one tick."""
        if self.shapes is None:
            return EXCS
        sh = self.shapes
        if self.mode == "hostile":
            return sh if kind.startswith("handler-") else ()
        n = SHAPES_PER_HANDLER_TICK if kind.startswith("handler-") else SHAPES_PER_OTHER_TICK
        out = [] if kind.startswith("handler-") else [TE_PLAIN]
        for _ in range(n):
            out.append(sh[self.cursor % len(sh)])
            self.cursor += 1
        return out

    def viol(self, key, msg, w):
        """Records a violation; True = the history stops here."""
        self.ctx.violation(key + self.suffix, msg, w)
        return not self.keep_going

    def witness(self, **kw):
        w = {"history": self.h, "stratum": self.stratum, "handlers": self.cfg,
             "ops": [repr(o) for o in self.ops]}
        if self.mode != "pushed":
            w["exception_handling"] = "library default (nothing pushed; observed through logging)"
            w["history_family"] = self.mode
        w.update(kw)
        return w

    def twin_without(self, j):
        return self.twin_repl(j, _SKIP)

    def twin_repl(self, j, op2):
        """The fault-free history with op j left out (_SKIP) or replaced by op2."""
        key = (j, "skip" if op2 is _SKIP else repr(op2))
        t = self.without.get(key)
        if t is None:
            t = self.without[key] = Trace(self.env, self.classes, self.cfg, self.ops,
                                          replace={j: op2}, count_at=j)
        return t

    def learn_multi(self, j, op, pre, nticks):
        """A multi-set is one assignment per name.  Returns (cs, bases, roles): cs[m] = ticks
        made by the first m names, bases[m] = Base after the first m names (bases[0] = the
        pre-state), roles re-measured against the base of the name each tick belongs to."""
        env = self.env
        pairs = op[2]
        cs = [0]
        bases = [Base(pre[0], pre[1], None, [], [], None)]
        for m in range(1, len(pairs)):
            t = self.twin_repl(j, (op[0], op[1], pairs[:m]))
            x = t.res[j]
            cs.append(t.nticks)
            bases.append(Base(x.vals, x.cen, None, strip(x.log), [c[:2] for c in x.chan], x.stale))
        cs.append(nticks)
        g = replay_prefix(env, self.classes, self.cfg, self.ops, j)
        l0, c0 = len(env.log), len(env.chan)

        def probe():
            n = env.fp.n
            m = 1
            while m < len(pairs) and n > cs[m]:
                m += 1
            b = bases[m - 1]
            if env.depth or len(env.log) - l0 != len(b.log) or len(env.chan) - c0 != len(b.chan):
                return True
            v, c, _ = g.snap()
            return bool(diff_values(b.vals, v)) or bool(diff_census(b.cen, c))
        env.fp.learn(probe)
        r = run_op(g, op)
        return cs, bases, roles_of(env.fp.post, r.kinds)

    def follow(self, g, j, ref, relax=None):
        """Run ops j+1.. on the faulted graph g and compare with trace `ref` op by op.
        Returns (index, description) of the first divergence or None."""
        ctx = self.ctx
        cont = [None] * (j + 1)
        cut = False
        for m in range(j + 1, len(self.ops)):
            r = run_op(g, self.ops[m])
            cont.append(r)
            if ref is None or cut:
                continue
            if relax is not None and m > j + 1 and relax in ref.res[m - 1].stale:
                # the faulted cached property could not refill its cache; the twin refilled it and
                # a quiet set has since made the twin's cache stale (nothing invalidates it): from
                # here on the twin reads a stale value and is no reference for this property
                cut = True
                ctx.count("followups_cut_at_stale_twin")
                continue
            ctx.ev()
            ctx.count("followup_ops_compared")
            d = same_run(r, ref.res[m], relax)
            if relax is not None and any((e[2], e[3]) == relax for e in r.log):
                # the faulted cached property was notified again later in the history
                ctx.count("cached_property_renotified_after_fault:" + relax[1])
            if d is None and newly_stale(r.stale, ref.res[m].stale):
                d = "cached property %s is stale" % newly_stale(r.stale, ref.res[m].stale)
            if d is not None:
                return m, d
        g.cont = cont
        return None

    def run(self):
        env = self.env
        _CUR[0] = env
        old_am = get_global_adaptation_manager()
        set_global_adaptation_manager(self.classes[2])
        frozen = False
        if self.cfg["lifetime"]:
            # this history calls gc.collect() after every operation that lets go of an object:
            # park everything that already exists so that those collections stay cheap
            gc.collect()
            gc.freeze()
            frozen = True
        try:
            return self._run()
        finally:
            if frozen:
                gc.unfreeze()
            set_global_adaptation_manager(old_am)
            _CUR[0] = None
            env.reset()

    def _run(self):
        ctx = self.ctx
        env, ops, cfg, classes = self.env, self.ops, self.cfg, self.classes
        twin = Trace(env, classes, cfg, ops, learn=True)
        ctx.count("histories")
        ctx.count("histories:" + self.stratum)
        ninj = 0
        for j, op in enumerate(ops):
            tr = twin.res[j]
            kinds = tr.kinds
            roles = twin.post_flags[j]
            okind = op_kind(op)
            nj = len(kinds)
            ctx.count("ops")
            if nj == 0:
                ctx.count("ops_without_callbacks")
            if nj > TICK_CAP:
                ctx.count("ticks_capped", nj - TICK_CAP)
                nj = TICK_CAP
            pre = twin.pre[j]
            multi = None
            if op[0] == "multi" and len(op[2]) > 1 and nj:
                multi = self.learn_multi(j, op, pre, len(kinds))
                roles = multi[2]
                if len(roles) != len(kinds):
                    ctx.violation("harness/nondeterministic-replay",
                                  "multi-set op %d made %d ticks in the twin, %d when re-learnt"
                                  % (j, len(kinds), len(roles)), self.witness(op=j))
                    return True
            quiet_op = op[0] == "multi" and op[1] != "notify"
            for k in range(1, nj + 1):
                kind = kinds[k - 1]
                post = roles[k - 1]
                is_alt = kind.startswith("alt-")
                nested = post and not kind.startswith(("handler-", "getter", "cached-getter"))
                alt_ref = None          # the run in which this callback raised TraitError
                sub = 1                 # which name of a multi-set this tick belongs to
                if multi is not None:
                    while sub < len(op[2]) and k > multi[0][sub]:
                        sub += 1
                for E in self.excs_for(kind, post):
                    g = replay_prefix(env, classes, cfg, ops, j)
                    pre_g = g.snap()
                    if post:
                        # value identities are only judged for pre-commit faults; held across a
                        # completing operation they would keep replaced values alive
                        pre_g = (pre_g[0], pre_g[1], None)
                    pre_stale = cache_stale(g.ws)
                    if diff_values(pre_g[0], pre[0]) or diff_census(pre_g[1], pre[1]):
                        ctx.violation("harness/nondeterministic-replay",
                                      "replaying the first %d ops did not rebuild the twin's state: %r %r"
                                      % (j, diff_values(pre_g[0], pre[0]), diff_census(pre_g[1], pre[1])),
                                      self.witness(op=j))
                        return True
                    env.fp.arm(k, E)
                    r = run_op(g, op, keep_ids=not post)
                    ninj += 1
                    ctx.ev()
                    ctx.count("faults_injected")
                    ctx.count("faults:" + kind)
                    if op[0] == "set" and op[1] in DEFERRED and not post:
                        ctx.count("faults:deferred-assignment")
                        # later changes of the prototype, which must still be forwarded
                        ctx.count("prototype_sets_after_failed_deferred_assignment",
                                  sum(1 for o in ops[j + 1:] if o[0] == "proto-set"))
                    owner = tr.subj[k - 1]
                    if owner is not None and owner[0] == "listener":
                        ctx.count("faults:listener-owned-handler")
                        if kind == "handler-otc":
                            ctx.count("faults:listener-owned-handler:legacy")
                        ctx.count("listener_drops_after_its_handler_failed",
                                  sum(1 for o in ops[j + 1:] if o[0] == "drop-listener" and o[1] == owner[1]))
                    if quiet_op:
                        ctx.count("faults:in-quiet-set")
                    if sub > 1:
                        ctx.count("faults:in-multi-set:later-name")
                    if kind == "adapter-factory" and op[1] in ADAPT_DEFAULT_MODE:
                        ctx.count("faults:adapter-factory:default-mode")
                        cur = pre_g[0].get(("W", op[1]))
                        if cur is not None and cur[0] != "None" and pre_g[1].get(("W", op[1])):
                            # the trait holds a non-default value and carries change handlers
                            ctx.count("faults:adapter-factory:default-mode:holding-value")
                    if not env.fp.fired or r.kinds[:k] != kinds[:k]:
                        ctx.violation("harness/nondeterministic-replay",
                                      "tick %d of op %d was %r in the twin, replay saw %r"
                                      % (k, j, kinds[:k], r.kinds[:k]),
                                      self.witness(op=j, tick=k, exc=E.label))
                        return True
                    if self.shapes is None:
                        ctx.sig(okind, kind, "post" if post else "pre", E.__name__, r.out[0] if r.out[0] == "ok" else r.out[1])
                    else:
                        ctx.sig(self.mode, okind, kind, "post" if post else "pre", E.label,
                                r.out[0] if r.out[0] == "ok" else r.out[1])
                        ctx.count("shape:" + E.group)
                        ctx.count("family:" + E.family)
                        if kind.startswith("handler-"):
                            ctx.count("handler-shape:%s:%s" % (kind[8:], E.group))
                            if E.cls not in shapes.BASES:
                                ctx.count("handler-faults:subclass-instance")
                        if any(c[2] for c in r.chan):
                            ctx.count("injected_exception_logged_by_default_handler")
                    info = dict(op_index=j, op=repr(op), tick=k, callback=kind,
                                role="post-commit" if post else "pre-commit", exc=E.label,
                                ticks_of_op=kinds, roles=["post" if x else "pre" for x in roles])
                    if post and twin.why[j].get(k):
                        info["commit_evidence"] = twin.why[j][k]
                    if not post:
                        # ---------------- pre-commit: the callback decides ----------
                        ctx.count("precommit_judged")
                        if sub == 1:
                            base = Base(pre_g[0], pre_g[1], pre_g[2], [], [], pre_stale)
                        else:
                            base = multi[1][sub - 1]
                        complaint, detail = first_pre_complaint(E, r, base)
                        # identities are only needed for this judgement; holding them would keep
                        # replaced values alive in the faulted graph and not in its twin
                        r.ids = None
                        if sub == 1:
                            base.ids = None
                        pre_g = (pre_g[0], pre_g[1], None)
                        ref = None
                        relax = None
                        if complaint is None:
                            if sub == 1:
                                ref = self.twin_without(j)
                            else:
                                # the twin that only ever assigned the names before the failing one
                                ref = self.twin_repl(j, (op[0], op[1], op[2][:sub - 1]))
                            ctx.count("precommit_no_effect")
                        elif is_alt:
                            # clause (ii): "this alternative rejects"
                            if E is TE_PLAIN:
                                if k in twin.nat[j]:
                                    # the callback rejects this value anyway: the run must be
                                    # the fault-free run
                                    d = same_run(r, tr)
                                    ctx.count("alt_natural_reject_compared")
                                    if d is not None:
                                        if self.viol("pre-commit/%s/%s/%s" % (kind, okind, complaint),
                                                      "injecting TraitError where the alternative rejects "
                                                      "anyway changed the run: %s" % d, self.witness(**info)):
                                            return True
                                        continue
                                    ref = twin
                                else:
                                    ctx.count("alt_reference_runs")
                                    if newly_stale(r.stale, pre_stale, base.stale, tr.stale):
                                        if self.viol("pre-commit/%s/%s/cache-stale" % (kind, okind),
                                                      "cached property %s stale"
                                                      % newly_stale(r.stale, pre_stale, base.stale, tr.stale),
                                                      self.witness(**info)):
                                            return True
                                        continue
                                alt_ref = (r, g)
                            else:
                                if alt_ref is None:
                                    raise AssertionError("TraitError is enumerated first")
                                d = same_run(r, alt_ref[0])
                                ctx.count("alt_twin_compared")
                                if d is not None:
                                    if self.viol("pre-commit/%s/%s/%s" % (kind, okind, complaint),
                                                  "%s (%s); nor is the run identical to the one in which the "
                                                  "alternative raised TraitError: %s" % (complaint, detail, d),
                                                  self.witness(**info)):
                                        return True
                                    continue
                                ref = "alt"
                        else:
                            if self.viol("pre-commit/%s/%s/%s" % (kind, okind, complaint),
                                          "%s raised in a pre-commit %s callback (tick %d of %r): %s -- %s"
                                          % (E.label, kind, k, op, complaint, detail), self.witness(**info)):
                                return True
                            continue
                        if is_alt and E is TE_PLAIN and complaint is None:
                            alt_ref = (r, g)
                    elif nested:
                        # ---------------- a deciding callback of a NESTED assignment -------
                        # (e.g. the partner's validator while sync_trait forwards a change): its
                        # caller is traits itself, which treats a failure as "the partner rejects".
                        # Nothing may reach the outer caller, the run must be the one in which the
                        # callback rejected with TraitError, and so must everything afterwards.
                        ctx.count("postcommit_judged")
                        ctx.count("nested_deciding_judged")
                        relax = None
                        ref = None
                        if r.out != tr.out:
                            if self.viol("post-commit/%s/exception-reached-caller" % kind,
                                          "%s raised in a post-commit %s callback (tick %d of %r): caller saw %r "
                                          "(fault-free outcome %r) [a callback that decides the outcome ran "
                                          "after the operation's effect was already visible: %s]"
                                          % (E.label, kind, k, op, r.exc_repr or r.out, tr.out,
                                             info.get("commit_evidence", "?")), self.witness(**info)):
                                return True
                            continue
                        if newly_stale(r.stale, pre_stale, tr.stale):
                            if self.viol("post-commit/%s/cache-stale" % kind,
                                          "%s raised in a nested %s callback (tick %d of %r): cached property "
                                          "%s stale" % (E.label, kind, k, op, r.stale), self.witness(**info)):
                                return True
                            continue
                        if E is TE_PLAIN:
                            if k in twin.nat[j]:
                                d = same_run(r, tr, ignore_injected=True)
                                if d is not None:
                                    if self.viol("post-commit/%s/differs-from-rejection" % kind,
                                                  "injecting TraitError where the nested callback rejects anyway "
                                                  "changed the run: %s" % d, self.witness(**info)):
                                        return True
                                    continue
                                ref = twin
                            else:
                                ctx.count("nested_reference_runs")
                            alt_ref = (r, g)
                        else:
                            d = same_run(r, alt_ref[0], ignore_injected=True)
                            ctx.count("nested_rejection_twin_compared")
                            if d is not None:
                                if self.viol("post-commit/%s/differs-from-rejection" % kind,
                                              "%s raised in a nested %s callback (tick %d of %r): the run differs "
                                              "from the one in which the callback rejected with TraitError: %s"
                                              % (E.label, kind, k, op, d), self.witness(**info)):
                                    return True
                                continue
                            ref = "alt"
                    else:
                        # ---------------- post-commit: notification phase -----------
                        ctx.count("postcommit_judged")
                        relax = None
                        complaint = None
                        detail = ""
                        exempt = None
                        if kind in ("getter", "cached-getter"):
                            if EXEMPT_FAULTED_PROPERTY:
                                exempt = tr.subj[k - 1]
                            ctx.count("postcommit_getter_faults")
                            ctx.count("postcommit_getter_faults:" + tr.subj[k - 1][1])
                        if r.out != tr.out:
                            complaint = "exception-reached-caller"
                            detail = "caller saw %s (fault-free outcome %r)" % (r.exc_repr or r.out, tr.out)
                        else:
                            dv = diff_values(r.vals, tr.vals)
                            dc = diff_census(r.cen, tr.cen)
                            if dv or dc:
                                complaint = "operation-incomplete"
                                detail = "differs from the fault-free post-state: %r" % (
                                    [(x, r.vals.get(x), tr.vals.get(x)) for x in dv[:4]]
                                    + [(x, r.cen.get(x), tr.cen.get(x)) for x in dc[:4]])
                        if complaint is None:
                            exp = [e[1:] for e in tr.log if e[0] != k]
                            got = strip(r.log)
                            if exempt is not None:
                                exp = [e for e in exp if (e[1], e[2]) != exempt]
                                got = [e for e in got if (e[1], e[2]) != exempt]
                            if got != exp:
                                missing = [e for e in exp if e not in got]
                                complaint = "other-handler-skipped" if missing and len(got) < len(exp) \
                                    else "log-differs"
                                detail = "expected %r got %r" % (exp[:8], got[:8])
                        if complaint is None:
                            mine = [c for c in r.chan if c[2]]
                            others = [c[:2] for c in r.chan if not c[2]]
                            if not mine and self.shapes is not None:
                                # default handling: the statement does not say that the failure is
                                # logged (the default handler documents cases it cannot log)
                                ctx.count("injected_exception_not_logged")
                            elif not mine:
                                complaint = "exception-vanished"
                            elif others != [c[:2] for c in tr.chan]:
                                # something else failed inside a notifier because of the fault
                                complaint = "secondary-exception"
                            if complaint:
                                detail = "channels %r (fault-free %r)" % (r.chan, tr.chan)
                            elif len(mine) > 1:
                                ctx.count("injected_exception_reported_more_than_once")
                        if complaint is None and newly_stale(r.stale, tr.stale):
                            complaint = "cache-stale"
                            detail = "cached property %s" % newly_stale(r.stale, tr.stale)
                        if complaint is not None:
                            note = ""
                            if not kind.startswith(("handler-", "getter", "cached-getter")):
                                note = (" [a callback that decides the outcome ran after the operation's "
                                        "effect was already visible]")
                            if self.mode == "hostile":
                                # one mechanism, several faces: the failure leaves the failing handler's
                                # notifier and surfaces at the caller, or an enclosing notification layer
                                # contains (and reports) it after the remaining notifiers -- user handlers
                                # or traits' own listener maintenance -- were skipped
                                if complaint in ("exception-reached-caller", "other-handler-skipped",
                                                 "operation-incomplete", "log-differs", "secondary-exception"):
                                    complaint = "handler-failure-not-contained"
                                complaint += "/%s(eq-hostile-first-argument)" % E.__name__
                            if self.viol("post-commit/%s/%s" % (kind, complaint),
                                          "%s raised in a post-commit %s callback (tick %d of %r): %s -- %s%s"
                                          % (E.label, kind, k, op, complaint, detail, note),
                                          self.witness(**info)):
                                return True
                            continue
                        ref = twin
                        if kind == "cached-getter" and RELAX_OLD_OF_FAULTED_CACHED_PROPERTY:
                            relax = tr.subj[k - 1]
                    # ---------------- afterwards ---------------------------------
                    if ref is None:
                        continue
                    l1 = len(env.log)
                    c1 = ctx.counters.get("followup_ops_compared", 0)
                    if ref == "alt":
                        # compare with the continuation of the TraitError twin, run now
                        d = self.follow_pair(g, alt_ref[1], j)
                    else:
                        d = self.follow(g, j, ref, relax)
                    if self.cfg["lifetime"] and g.cont and g.cont[-1] is not None:
                        # objects seen reclaimed on the faulted graph by the end of the history
                        ctx.count("reclaimed_after_fault_observed",
                                  sum(1 for kk, vv in g.cont[-1].vals.items()
                                      if kk[0] == "life" and vv[0] == "reclaimed"))
                    if quiet_op and not post:
                        # handlers seen firing again after a failed quiet set
                        ctx.count("notifications_after_failed_quiet_set", len(env.log) - l1)
                    if nested:
                        ctx.count("nested_followup_ops_compared",
                                  ctx.counters.get("followup_ops_compared", 0) - c1)
                    if d is not None:
                        info["diverged_at"] = d[0]
                        info["diverging_op"] = repr(ops[d[0]])
                        if self.viol("afterwards/%s/%s/diverged%s"
                                     % (kind, okind, "/%s(eq-hostile-first-argument)" % E.__name__
                                        if self.mode == "hostile" else ""),
                                      "after %s in a %s %s callback (tick %d of op %d %r) op %d %r behaves "
                                      "differently from the never-faulted twin: %s"
                                      % (E.label, "post-commit" if post else "pre-commit", kind, k, j, op,
                                         d[0], ops[d[0]], d[1]), self.witness(**info)):
                            return True
                        continue
        if self.h < 48 and self.shapes is None:
            ctx.sample({"history": self.h, "handlers": cfg, "ops": [repr(o) for o in ops],
                        "faults_enumerated": ninj})
        return False

    def follow_pair(self, g, g2, j):
        """g (faulted with E) and g2 (the same tick raised TraitError) ran op j identically;
        g2's continuation is computed once (and kept on g2), then g's is compared with it."""
        if g2.cont is None:
            self.follow(g2, j, None)
        return self.follow(g, j, _Cont(g2.cont))


class _Cont:
    def __init__(self, res):
        self.res = res


class _Sub:
    """The counters of the default-handling strata live under their own prefix, so that the gates of
    the original enumeration keep measuring the original enumeration."""

    class _View:
        def __init__(self, d, p):
            self.d, self.p = d, p

        def get(self, k, default=None):
            return self.d.get(self.p + k, default)

    def __init__(self, ctx, prefix):
        self._c = ctx
        self._p = prefix
        self.counters = _Sub._View(ctx.counters, prefix)

    def count(self, name, n=1):
        self._c.count(self._p + name, n)

    def __getattr__(self, a):
        return getattr(self._c, a)


def run_default_handling(ctx):
    """Histories under the library's DEFAULT notification exception handling: nothing is pushed on
    either handler stack (this runs before the harness pushes its own), what they log is
    captured through the logging module, exceptions come from the catalogue of shapes."""
    shapes.self_test()
    old_tracers = get_change_event_tracers()
    set_change_event_tracers(_pre_tracer, _post_tracer)
    try:
        with warnings.catch_warnings(), shapes.DefaultHandling(_logged_exc) as dh:
            warnings.simplefilter("ignore")
            for mode, prefix, nh in (("default", "dflt:", ctx.scale(96, 1600)),
                                     ("hostile", "hostile:", ctx.scale(16, 320))):
                sub = _Sub(ctx, prefix)
                for h in range(nh):
                    if not ctx.mine(h):
                        continue
                    if not ctx.begin("%s%d" % (prefix, h)):
                        continue
                    try:
                        History(sub, h, mode).run()
                    finally:
                        ctx.end()
            ctx.count("dflt:console_fallback_writes", dh.console.writes)
    finally:
        set_change_event_tracers(*old_tracers)


def run(ctx):
    run_default_handling(ctx)
    push_exception_handler(_legacy_exc, reraise_exceptions=False, main=True)
    obsapi.push_exception_handler(_obs_exc)
    old_tracers = get_change_event_tracers()
    set_change_event_tracers(_pre_tracer, _post_tracer)
    try:
        with warnings.catch_warnings():
            warnings.simplefilter("ignore")
            nh = ctx.scale(640, 10000)
            for h in range(nh):
                if not ctx.mine(h):
                    continue
                if not ctx.begin("hist:%d" % h):
                    continue
                try:
                    History(ctx, h).run()
                finally:
                    ctx.end()
    finally:
        set_change_event_tracers(*old_tracers)
        obsapi.pop_exception_handler()
        pop_exception_handler()
