"""C20 stratum "gcpoints": the partner is collected at EVERY point of an operation.

The statement quantifies over "garbage collection of a partner at any point".  The random
histories of c20.py collect partners *between* operations; here the collection lands *inside*
one: the victims are made cyclic garbage first (automatic collection off, so nothing dies on
its own), the operation is counted once on a twin (number of statement-start lines executed
inside the traits package), and then re-run on a freshly built twin for every k with
`gc.collect()` injected before the k-th line (vf.points).

Oracle per (shape, operation, k):
  * the operation raises nothing and the operated attribute holds what was written;
  * a surviving mutual partner of the operated attribute equals it afterwards;
  * nothing arrives on the notification exception channels, nothing is unraisable;
  * each recorder is called at most once per attribute;
  * after a final collection every victim is really dead;
  * follow-up: a further change of the operated attribute reaches the survivor, and a change
    of the survivor reaches the operated attribute (a re-entrancy lock left set by an
    interrupted forwarder shows here), both silently.
Keys: gcpoint/<shape class>/<op class>/<what>.
"""
import gc
import os
import sys
import weakref

import traits
from traits.api import HasTraits, Int, List, Any, push_exception_handler, pop_exception_handler

try:
    from traits.observation.api import (push_exception_handler as obs_push,
                                        pop_exception_handler as obs_pop)
except Exception:  # pragma: no cover
    obs_push = obs_pop = None

from vf.points import Points, AVAILABLE

PKG = os.path.dirname(os.path.abspath(traits.__file__))


class GNode(HasTraits):
    n = Int
    xs = List(Int)
    ys = List(Int)
    me = Any          # makes a victim cyclic garbage: only the collector can free it


LOG = []
CHAN = []
UNRAISABLE = []


def _legacy_exc(obj, trait_name, old, new):
    CHAN.append(type(sys.exc_info()[1]).__name__)


def _obs_exc(event):
    CHAN.append(type(sys.exc_info()[1]).__name__)


def _unraisable(info):
    UNRAISABLE.append(getattr(info.exc_type, "__name__", "?"))


def _rec(tag):
    def rec(obj, name, old, new):
        LOG.append((tag, name[:-6] if name.endswith("_items") else name))
    return rec


# shape: (class label, builder).  Builder returns dict(a=..., c=... or None, c_linked=bool,
# victims=[weakrefs], name=attribute of a operated on, cname=attribute of c)
def _victim(init):
    v = GNode()
    v.me = v
    v.n, v.xs, v.ys = init.n, list(init.xs), list(init.ys)
    return v


def _mk(shape, name):
    a = GNode()
    c = GNode()
    a.n, a.xs, a.ys = 1, [1, 2, 3, 4], [1, 2, 3, 4]
    w = {"a": a, "c": c, "name": name, "cname": name, "c_linked": True, "middle": False}
    vs = []
    if shape == "single":
        v = _victim(a); vs.append(v)
        a.sync_trait(name, v)
        a.sync_trait(name, c)
    elif shape == "single-first-linked-last":
        v = _victim(a); vs.append(v)
        a.sync_trait(name, c)
        a.sync_trait(name, v)
    elif shape == "alone":
        v = _victim(a); vs.append(v)
        a.sync_trait(name, v)
        w["c_linked"] = False
    elif shape == "multi":
        v1, v2 = _victim(a), _victim(a); vs += [v1, v2]
        a.sync_trait(name, v1)
        a.sync_trait(name, c)
        a.sync_trait(name, v2)
    elif shape == "multi-only":
        v1, v2, v3 = _victim(a), _victim(a), _victim(a); vs += [v1, v2, v3]
        for v in vs:
            a.sync_trait(name, v)
        w["c_linked"] = False
    elif shape == "oneway":
        v = _victim(a); vs.append(v)
        a.sync_trait(name, v, mutual=False)
        a.sync_trait(name, c)
    elif shape == "victim-source":
        v = _victim(a); vs.append(v)
        v.sync_trait(name, a, mutual=False)
        a.sync_trait(name, c)
    elif shape == "alias":
        alias = "ys" if name == "xs" else name
        v = _victim(a); vs.append(v)
        a.sync_trait(name, v, alias=alias)
        a.sync_trait(name, c)
    elif shape == "distance2":
        v = _victim(a); vs.append(v)
        a.sync_trait(name, c)
        c.sync_trait(name, v)
    elif shape == "middle":
        v = _victim(a); vs.append(v)
        a.sync_trait(name, v)
        v.sync_trait(name, c)
        w["c_linked"] = False
        w["middle"] = True
    elif shape == "victim-chain":
        v1, v2 = _victim(a), _victim(a); vs += [v1, v2]
        v1.me = v2
        v2.me = v1
        a.sync_trait(name, v1)
        v1.sync_trait(name, v2)
        a.sync_trait(name, c)
    else:
        raise AssertionError(shape)
    w["victims"] = [weakref.ref(v) for v in vs]
    w["d"] = GNode()
    a.on_trait_change(_rec("a"), name)
    c.on_trait_change(_rec("c"), name)
    if name != "n":
        a.on_trait_change(_rec("a"), name + "_items")
        c.on_trait_change(_rec("c"), name + "_items")
    del vs[:]
    return w


SHAPES = ("single", "single-first-linked-last", "alone", "multi", "multi-only", "oneway",
          "victim-source", "alias", "distance2", "middle", "victim-chain")
SHAPE_CLASS = {"single": "single", "single-first-linked-last": "single", "alone": "single",
               "multi": "multi", "multi-only": "multi", "oneway": "oneway",
               "victim-source": "victim-source", "alias": "alias", "distance2": "distance2",
               "middle": "middle", "victim-chain": "victim-chain"}

# (op id, op class, attribute, function(obj, attr) applying it, model(list)->list)
def _ops():
    out = []
    out.append(("assign-int", "assign", "n", lambda o, a: setattr(o, a, 7), lambda v: 7))
    out.append(("assign-list", "assign-list", "xs", lambda o, a: setattr(o, a, [5, 6]), lambda v: [5, 6]))
    out.append(("append", "list-mutation/item", "xs", lambda o, a: getattr(o, a).append(8),
                lambda v: v + [8]))
    out.append(("insert", "list-mutation/item", "xs", lambda o, a: getattr(o, a).insert(1, 8),
                lambda v: v[:1] + [8] + v[1:]))
    out.append(("setitem", "list-mutation/item", "xs", lambda o, a: getattr(o, a).__setitem__(0, 8),
                lambda v: [8] + v[1:]))
    out.append(("slice", "list-mutation/simple-slice", "xs",
                lambda o, a: getattr(o, a).__setitem__(slice(1, 3), [7, 7, 7]),
                lambda v: v[:1] + [7, 7, 7] + v[3:]))
    out.append(("extslice", "list-mutation/extended-slice", "xs",
                lambda o, a: getattr(o, a).__setitem__(slice(0, None, 2), [7, 8]),
                lambda v: [7, v[1], 8, v[3]]))
    out.append(("delext", "list-mutation/extended-slice", "xs",
                lambda o, a: getattr(o, a).__delitem__(slice(0, None, 2)),
                lambda v: v[1::2]))
    out.append(("sort", "list-mutation/bulk", "xs", lambda o, a: getattr(o, a).sort(reverse=True),
                lambda v: sorted(v, reverse=True)))
    out.append(("iadd", "list-mutation/bulk", "xs",
                lambda o, a: setattr(o, a, getattr(o, a).__iadd__([5])), lambda v: v + [5]))
    out.append(("pop", "list-mutation/item", "xs", lambda o, a: getattr(o, a).pop(), lambda v: v[:-1]))
    out.append(("clear", "list-mutation/bulk", "xs", lambda o, a: getattr(o, a).clear(), lambda v: []))
    # the link itself is made / removed while the victims die (the survivor `c` is unlinked from the
    # operated object, or a further survivor `d` is linked to it); the value does not change
    for attr in ("n", "xs"):
        out.append(("unlink-" + attr, "unlink", attr, "UNLINK", lambda v: v))
        out.append(("link-" + attr, "link", attr, "LINK", lambda v: v))
    return out


OPS = _ops()


def _scenarios(tier):
    sc = []
    for shape in SHAPES:
        for op in OPS:
            if tier == "quick" and shape in ("single-first-linked-last", "multi-only", "victim-chain") \
                    and op[0] in ("insert", "setitem", "sort", "iadd", "pop", "clear", "link-n", "unlink-n"):
                continue
            sc.append((shape, op, "a"))
            if shape in ("single", "multi", "distance2", "alias"):
                sc.append((shape, op, "c"))     # operate on the survivor instead
    return sc


def _val(o, attr):
    v = getattr(o, attr)
    return list(v) if isinstance(v, list) else v


def _one(ctx, P, shape, op, target, k):
    """Build, run the op with a collection at point k (None: count only), judge."""
    opid, opclass, attr, apply_, model = op
    cls = SHAPE_CLASS[shape]

    def fail(what, msg, extra=None):
        ctx.violation("gcpoint/%s/%s/%s" % (cls, opclass, what), msg,
                      {"stratum": "gcpoints", "shape": shape, "op": opid, "operated": target,
                       "k": k, "point": P.fired, "detail": extra})
        return False

    gc.collect()
    del LOG[:], CHAN[:], UNRAISABLE[:]
    w = _mk(shape, attr)
    del LOG[:], CHAN[:], UNRAISABLE[:]
    a, c = w["a"], w["c"]
    obj, other = (a, c) if target == "a" else (c, a)
    before = _val(obj, attr)
    other_before = _val(other, attr)
    expected = model(before)
    died_at_point = []

    def action():
        gc.collect()
        died_at_point.append(all(r() is None for r in w["victims"]))

    if apply_ == "UNLINK":
        if not w["c_linked"]:
            return 0 if k is None else None
        run_op = lambda: obj.sync_trait(attr, other, remove=True)
    elif apply_ == "LINK":
        run_op = lambda: obj.sync_trait(attr, w["d"])
    else:
        run_op = lambda: apply_(obj, attr)
    res, exc = P.run(run_op, k, action if k is not None else None)
    n = P.n
    if k is None:
        # the counting twin: also the fault-free reference
        gc.collect()
        return n
    ctx.ev()
    ctx.count("gcpoint_runs")
    if P.fired is None:
        ctx.count("gcpoint_not_reached")
        return n
    eff = bool(died_at_point and died_at_point[0])
    ctx.count("gcpoint_effective" if eff else "gcpoint_victim_pinned_at_point")
    ctx.sig("gcp", shape, opid, target, P.fired, eff)
    if eff:
        ctx.notes.setdefault("_pts", set()).add(P.fired)
    ok = True
    if exc is not None:
        return fail("raised/%s" % type(exc).__name__, "operation raised %r" % (exc,))
    if CHAN:
        return fail("exception-channel/%s" % CHAN[0],
                    "traits' own forwarder raised while the partner was collected: %r" % (CHAN,))
    if UNRAISABLE:
        return fail("unraisable/%s" % UNRAISABLE[0], "unraisable: %r" % (UNRAISABLE,))
    if _val(obj, attr) != expected:
        return fail("source-value-wrong", "operated attribute holds %r, expected %r"
                    % (_val(obj, attr), expected))
    linked = w["c_linked"]
    if apply_ == "UNLINK":
        linked = False
        if _val(other, attr) != other_before:
            return fail("survivor-changed-by-unlink", "%r" % (_val(other, attr),))
    if apply_ == "LINK" and _val(w["d"], attr) != expected:
        return fail("link/not-equalised", "new partner holds %r, operated attribute %r"
                    % (_val(w["d"], attr), expected))
    if linked and _val(other, attr) != expected:
        return fail("survivor-diverged", "surviving mutual partner holds %r, operated attribute %r"
                    % (_val(other, attr), expected))
    if w["middle"] and _val(other, attr) not in (expected, other_before):
        return fail("survivor-value-from-nowhere", "%r" % (_val(other, attr),))
    seen = {}
    for tag_name in LOG:
        seen[tag_name] = seen.get(tag_name, 0) + 1
    if any(v > 1 for v in seen.values()):
        return fail("double-notified", "%r" % (seen,))
    gc.collect()
    if any(r() is not None for r in w["victims"]):
        return fail("victim-kept-alive", "a dropped partner survived a full collection")
    ctx.count("gcpoint_victims_died", len(w["victims"]))
    # follow-ups
    del LOG[:], CHAN[:], UNRAISABLE[:]
    try:
        if attr == "n":
            setattr(obj, attr, 11)
            exp2 = 11
        else:
            getattr(obj, attr).append(11)
            exp2 = expected + [11]
    except Exception as e:
        return fail("followup/raised/%s" % type(e).__name__, "%r" % (e,))
    if CHAN or UNRAISABLE:
        return fail("followup/exception-channel/%s" % (CHAN + UNRAISABLE)[0], "%r" % (CHAN + UNRAISABLE,))
    if _val(obj, attr) != exp2:
        return fail("followup/source-value-wrong", "%r != %r" % (_val(obj, attr), exp2))
    if linked and _val(other, attr) != exp2:
        return fail("followup/survivor-not-updated", "survivor %r, operated %r" % (_val(other, attr), exp2))
    if apply_ == "UNLINK" and _val(other, attr) != other_before:
        return fail("followup/still-propagates-after-unlink", "%r" % (_val(other, attr),))
    if apply_ == "LINK":
        if _val(w["d"], attr) != exp2:
            return fail("followup/new-partner-not-updated", "%r != %r" % (_val(w["d"], attr), exp2))
        try:
            if attr == "n":
                w["d"].n = 13
                exp2 = 13
            else:
                w["d"].xs.append(13)
                exp2 = exp2 + [13]
        except Exception as e:
            return fail("followup/raised/%s" % type(e).__name__, "%r" % (e,))
        if CHAN or UNRAISABLE:
            return fail("followup/exception-channel/%s" % (CHAN + UNRAISABLE)[0], "%r" % (CHAN,))
        if _val(obj, attr) != exp2:
            return fail("followup/reverse-direction-blocked",
                        "a change of the new partner did not reach the operated attribute (%r, expected %r)"
                        % (_val(obj, attr), exp2))
        ctx.count("gcpoint_links_made_during_collection")
    if apply_ == "UNLINK":
        ctx.count("gcpoint_unlinks_during_collection")
    if w["middle"] and _val(other, attr) == exp2 and exp2 != expected:
        return fail("followup/still-propagates-through-dead-partner", "%r" % (_val(other, attr),))
    if linked:
        try:
            if attr == "n":
                setattr(other, attr, 12)
                exp3 = 12
            else:
                getattr(other, attr).insert(0, 12)
                exp3 = [12] + exp2
        except Exception as e:
            return fail("followup/raised/%s" % type(e).__name__, "%r" % (e,))
        if CHAN or UNRAISABLE:
            return fail("followup/exception-channel/%s" % (CHAN + UNRAISABLE)[0], "%r" % (CHAN,))
        if _val(obj, attr) != exp3:
            return fail("followup/reverse-direction-blocked",
                        "a change of the survivor did not reach the operated attribute (%r, expected %r): "
                        "re-entrancy lock left set?" % (_val(obj, attr), exp3))
        ctx.count("gcpoint_followups_both_directions")
    return n


def run(ctx):
    """Called by c20.run(); own cases, own counters."""
    if not AVAILABLE:
        ctx.count("gcpoint_unavailable")
        return
    P = Points.get([PKG])
    push_exception_handler(_legacy_exc, reraise_exceptions=False, main=True)
    if obs_push is not None:
        obs_push(_obs_exc)
    old_hook = sys.unraisablehook
    sys.unraisablehook = _unraisable
    was = gc.isenabled()
    gc.disable()
    try:
        scen = _scenarios(ctx.tier)
        # replayed at a fraction of the budget (C18, sanitizer build): two scenarios per shard
        limit = (6 if ctx.tier == "quick" else 24) if getattr(ctx, "factor", 1.0) != 1.0 else None
        for i, (shape, op, target) in enumerate(scen):
            if not ctx.mine(i):
                continue
            if limit is not None:
                if limit == 0 or (i // ctx.nshards) % 2 != ctx.seed % 2:
                    continue
                limit -= 1
            if not ctx.begin("gcp:%s:%s:%s" % (shape, op[0], target),
                             {"stratum": "gcpoints", "shape": shape, "op": op[0], "operated": target}):
                continue
            try:
                n = _one(ctx, P, shape, op, target, None)
                if not n:
                    continue
                ctx.count("gcpoint_scenarios")
                ctx.count("gcpoint_points_enumerated", n)
                for k in range(1, n + 1):
                    if _one(ctx, P, shape, op, target, k) is False:
                        break          # first violation ends the scenario
                if i < 2:
                    ctx.sample({"stratum": "gcpoints", "shape": shape, "op": op[0], "operated": target,
                                "points": n, "history": ["build, make the partner(s) cyclic garbage",
                                                         "operation with gc.collect() before line k of the traits package, k = 1..%d" % n,
                                                         "judge, final collection, follow-ups in both directions"]})
            finally:
                ctx.end()
        pts = ctx.notes.pop("_pts", set())
        ctx.count("gcpoint_distinct_effective_lines", len(pts))
        ctx.notes["gcpoint_lines_sample_shard%d" % ctx.shard] = sorted("%s:%d" % p for p in pts)[:12]
    finally:
        if was:
            gc.enable()
        sys.unraisablehook = old_hook
        try:
            pop_exception_handler()
            if obs_pop is not None:
                obs_pop()
        except Exception:
            pass
