"""C12 -- observed/cached properties are never stale and announce dependency changes.

Workload: module-level (picklable) classes whose ``Property(observe=...)`` traits,
cached and uncached, depend on a scalar trait, a nested ``inner.v``, a two-level
``inner.sub.v``, list items ``items.items.v``, dict values ``d.items.v``, set
items ``s.items``, containers sitting on child objects (``items.items.tags.items``,
``inner.names.items``, ``d.items.attrs.items``; children are attached with those
containers untouched / stored empty / non-empty and filled in place later), a nested
object that is a per-instance default (``auto.v``) and a transient list
(``tl.items``), with the same ``Item`` object repeated in the list and shared
with the dict / ``inner`` / other tracked objects.  Some construction styles assign
scalars only, so that the observed containers remain never-assigned defaults that a
static handler first reads / mutates while the constructor (or ``__setstate__`` /
``clone_traits``) is still running.  Histories interleave relevant
mutations, irrelevant mutations and 0-3 reads per step; at random points the
object is replaced by its pickle round trip (protocols 2-5), ``copy.deepcopy`` or
``clone_traits`` and the history continues on the copy while the original stays
under the oracle (and is sometimes mutated again).

Oracle (DESIGN.md section 4 / C12):
  * every read == the harness's own recomputation of the pure function from the
    current state (never through the property);
  * a cached getter runs at most once between two relevant changes (counter keyed
    by a per-object serial attribute), also on objects that were *not* touched;
  * a relevant change that alters the computed value delivers >= 1 notification
    for the property to each attached recorder (static ``_p_changed``,
    ``on_trait_change``, ``observe``), and the value read inside the handler is
    already the value recomputed inside the handler.

One history in four uses class flavours whose observed Property is declared in a base
class while the getter is supplied or overridden (cached <-> uncached) by a subclass that
does not redeclare the trait (keys ``inherited-getter/...``).  Small dedicated strata (own
classes, keys and counters, same laws): ``instance-trait/``, ``shared-owner-churn/``,
``comparison-mode/`` (dependencies declared with comparison mode none / identity / equality that
receive the identical object, an equal-but-distinct object or an unequal one; identity-sensitive
getters) and ``property-chain/`` (an intermediate node of the observe path is itself a Property,
i.e. a value that is never stored, only announced) and ``overlapping-paths/`` (one Property
with SEVERAL observe paths that overlap -- a prefix of another path, the same names below different
attributes holding the SAME holder, the same path twice -- over graphs with shared holders;
histories cut one route, replace containers on the still-reachable shared part, then change
leaves).  The legacy
``Property(depends_on=...)`` strata (``depends_on/...``) exist but are switched off in
``run()``: the statement is about ``observe=`` only.
"""
import collections
import copy
import gc
import pickle
import sys
import traceback

from traits.api import (
    HasTraits, Int, Float, Str, Instance, List, Dict, Set, Property, cached_property,
    push_exception_handler,
)
from traits.observation.api import (
    trait as _otrait, push_exception_handler as _obs_push_exception_handler,
)

META = {
    "level": "exploration",
    "rule": ("case = one step (operation) of a seeded random 20-step history on a class with 20 "
             "Property(observe=...) traits (cached and uncached; all dependencies / one or two "
             "dependency kinds each) over 11 dependency kinds: a scalar, inner.v, inner.sub.v, "
             "items.items.v, d.items.v, s.items, containers that sit on child objects "
             "(items.items.tags.items, inner.names.items, d.items.attrs.items), a nested object that "
             "is a per-instance default (auto.v) and a transient list (tl.items), with repeated and "
             "shared Item objects whose own containers are untouched defaults / stored empty / "
             "non-empty when they get attached; 5 class flavours (observe given as one string, a "
             "list of strings, an ObserverExpression, a list of expressions; with / without static "
             "handlers; a subclass) x 5 dynamic-listener modes x 9 construction styles (incl. "
             "constructors that assign scalars only, so that the observed containers stay "
             "never-assigned defaults first read / mutated by a static handler while the constructor "
             "-- or __setstate__ / clone_traits for the transient list -- is still running; and the "
             "same handlers after construction as control), ~75 operation kinds incl. in-place "
             "mutation and reassignment of child containers, in-handler mutation, and copy switches "
             "(pickle 2-5, deepcopy, clone_traits default / deep / shallow); after every step every "
             "tracked object (the live object and up to two earlier originals / copies, which are "
             "sometimes mutated again) is judged.  One history in 4 runs on one of 10 further "
             "flavours in which the observed Property is declared in a base class (with no getter, "
             "uncached getters or cached getters) and the getter is supplied / overridden (cached "
             "over none / uncached, uncached over cached, every property flipped) by a subclass that "
             "does not redeclare the trait, incl. grand-children (keys prefixed inherited-getter/).  "
             "Two small dedicated strata with their own classes and keys: instance-trait/ (the "
             "observed leaf is a per-instance trait put on the nested object with add_trait before "
             "it is attached; remove_trait + add_trait cycles of that name, re-added with the old "
             "value as default or followed by an assignment, as one operation; owners cloned by "
             "reference) and shared-owner-churn/ (three long-lived nested objects shared by "
             "short-lived owners that are dropped, collected and replaced by bursts of fresh owners; "
             "every change of a shared object is judged on every live owner; address reuse of dead "
             "owners is counted).  "
             "comparison-mode/: the dependencies (a scalar, an Instance, a Tuple, a Str, a List trait, "
             "an Array, the leaves of a nested object and of list elements) are declared with "
             "comparison_mode none / identity / equality (enum member or integer, explicit or implicit) "
             "and receive, per operation, the identical object again, an EQUAL-BUT-DISTINCT object "
             "(2 / 2.0 / Fraction / Decimal, True / 1, equal strings, bytes, tuples, frozensets, value "
             "objects, lists, arrays of size 0 / 1 / n, an object equal to everything, NaN and its twin, "
             "objects whose == raises) or an unequal one; the getters of none / identity dependencies "
             "pass the object through (results compared by identity and type), those of equality "
             "dependencies return the value (compared with ==, the control); children are replaced by "
             "children with equal-but-distinct leaves; copies by pickle / deepcopy / clone_traits.  "
             "property-chain/: the observe path of the dependent goes THROUGH another Property (a "
             "cursor into a list with duplicates, a dict look-up by a key trait, a pass-through of a "
             "nested object and of its sub-object, a property with a setter over a shadow trait, a "
             "property over a property; cached and one uncached; the dependents' getters read through "
             "the intermediate property, the oracle recomputes from the stored traits); operations "
             "move the cursor / mutate the list / re-key the look-up / replace the nested objects and "
             "then change the object the path NOW ends at, one it ended at BEFORE, or any other; on "
             "original, unpickled, deep-copied and cloned owners (shared elements after shallow "
             "clones).  Two strata of open findings, every failure collapsed into the finding's key: "
             "the intermediate property has never announced itself since the observers were installed "
             "(its value derives from a per-instance default) and the intermediate property is "
             "uncached (in the main chain stratum a change of any element counts as possibly reaching "
             "the dependents of the uncached intermediate).  "
             "overlapping-paths/: one Property declares SEVERAL observe paths that overlap (14 "
             "properties x 3 classes giving the paths as one string / or-ed expressions / a mix of "
             "string lists and expression lists): a path that is a prefix of another one, listed "
             "before or after it, below two attributes (a.kids.items.x with b.kids.items; a.one.x "
             "with b.one) or below the same attribute; paths that run through the same names and "
             "differ in the leaf only; the same path twice through two attributes; three routes of "
             "three lengths; the same one level deeper (a.sub.kids.items.x, b.sub.kids.items, "
             "c.sub); a list of holders together with an attribute (hs.items.kids.items.x with "
             "a.kids.items).  The object graphs have SHARED holders (owner.a is owner.b, a holder "
             "that is in owner.hs -- also twice -- and at owner.a, two holders with one sub-holder, "
             "kids repeated in and shared between lists, holders shared between an owner and its "
             "shallow clones); histories cut one route while the holder stays reachable over another "
             "(counted), replace the container on such a holder (biased, counted) or mutate it in "
             "place, then change leaves of the new elements (biased, counted), besides re-routing, "
             "holder-list operations, trait_set of several routes, Instance / sub-holder "
             "replacement, irrelevant writes and copies (pickle 2-5, deepcopy, clone_traits default "
             "/ deep / shallow; up to three owners live and judged).  One mutation may reach such a "
             "property once per declared path, so the at-most-once window is per path and event.  "
             "The legacy depends_on strata are switched off (outside the statement).  "
             "distinct_nontrivial counts distinct (class flavour, listener mode, operation kind, "
             "origin of the operated object, set of dependency kinds whose state changed on it, "
             "whether another tracked object was affected, which recorder mechanisms had to be "
             "notified, whether any notification was seen) signatures of steps in which a dependency "
             "changed, a notification was seen or a copy was made."),
    "phases": [{"name": "main", "flavour": "P", "shards": 16}],
    "gates": {
        "quick": {"evaluations": 800000, "reads_checked": 250000, "relevant_changes": 30000,
                  "value_changes": 25000, "notifications_required": 30000,
                  "notifications_required_static": 10000, "notifications_required_otc": 10000,
                  "notifications_required_obs": 10000,
                  "handler_reads_checked": 40000, "cached_windows_checked": 250000,
                  "lazy_invalidations": 5000, "copies_made": 1000, "copies_pickle": 500,
                  "copies_deepcopy": 120, "copies_clone": 120, "probe_reads_checked": 20000,
                  "nontarget_quiet_checks": 100000, "nontarget_affected": 250,
                  "inherited_getter_reads_checked": 60000,
                  "inherited_getter_value_changes": 6000,
                  "inherited_getter_notifications_required": 8000,
                  "inherited_getter_cached_windows_checked": 50000,
                  "inherited_getter_copies_made": 250,
                  "inherited_getter_cache_added_value_changes": 2500,
                  "inherited_getter_cache_dropped_value_changes": 600,
                  "child_container_changes": 3000,
                  "child_container_filled_in_place_from_empty": 250,
                  "histories_default_first_touched_in_constructor": 200,
                  "ctor_touched_default_changes_fresh": 500,
                  "ctor_touched_default_changes_copy": 150,
                  "insttrait_reads_checked": 15000, "insttrait_value_changes": 4500,
                  "insttrait_notifications_required": 6000,
                  "insttrait_readd_cycles_on_observed_slot": 450, "insttrait_clones": 140,
                  "churn_reads_checked": 20000, "churn_notifications_required": 1600,
                  "churn_owners_collected": 1300, "churn_owner_address_reuse": 1000,
                  "churn_shared_changes_judged_on_address_reusing_owners": 1100,
                  "cmode_reads_checked": 90000, "cmode_notifications_required": 4400,
                  "cmode_assign_identity_equal_distinct": 700,
                  "cmode_assign_none_identical": 40,
                  "cmode_assign_equality_equal_distinct": 220,
                  "cmode_leaf_assignments_on_observed_child": 450, "cmode_copies": 330,
                  "chain_reads_checked": 100000, "chain_notifications_required": 12000,
                  "chain_changes_of_an_object_reached_through_a_property": 1200,
                  "chain_path_end_changes_on_pickle": 250,
                  "chain_path_end_changes_on_clone": 220, "chain_copies": 350,
                  "chain_defaults_ops": 45, "chain_uncached_ops": 250,
                  "ovl_reads_checked": 60000, "ovl_notifications_required": 11000,
                  "ovl_value_changes": 10000,
                  "ovl_route_cut_holder_still_reachable": 900,
                  "ovl_container_replaced_on_holder_reached_by_several_routes": 250,
                  "ovl_container_replaced_on_holder_after_route_cut": 160,
                  "ovl_leaf_changes_in_container_replaced_after_route_cut": 95,
                  "ovl_copies": 230, "ovl_leaf_changes_on_pickle": 180,
                  "ovl_leaf_changes_on_clone": 140},
        "thorough": {"evaluations": 25000000, "reads_checked": 8000000, "relevant_changes": 1000000,
                     "value_changes": 800000, "notifications_required": 1000000,
                     "notifications_required_static": 300000,
                     "notifications_required_otc": 300000, "notifications_required_obs": 300000,
                     "handler_reads_checked": 1300000, "cached_windows_checked": 8000000,
                     "lazy_invalidations": 160000, "copies_made": 35000, "copies_pickle": 16000,
                     "copies_deepcopy": 4000, "copies_clone": 4000, "probe_reads_checked": 600000,
                     "nontarget_quiet_checks": 3000000, "nontarget_affected": 8000,
                     "inherited_getter_reads_checked": 2000000,
                     "inherited_getter_value_changes": 200000,
                     "inherited_getter_notifications_required": 270000,
                     "inherited_getter_cached_windows_checked": 1700000,
                     "inherited_getter_copies_made": 8500,
                     "inherited_getter_cache_added_value_changes": 85000,
                     "inherited_getter_cache_dropped_value_changes": 20000,
                     "child_container_changes": 100000,
                     "child_container_filled_in_place_from_empty": 8500,
                     "histories_default_first_touched_in_constructor": 7000,
                     "ctor_touched_default_changes_fresh": 17000,
                     "ctor_touched_default_changes_copy": 5000,
                     "insttrait_reads_checked": 400000, "insttrait_value_changes": 120000,
                     "insttrait_notifications_required": 160000,
                     "insttrait_readd_cycles_on_observed_slot": 12000, "insttrait_clones": 4000,
                     "churn_reads_checked": 550000, "churn_notifications_required": 45000,
                     "churn_owners_collected": 35000, "churn_owner_address_reuse": 27000,
                     "churn_shared_changes_judged_on_address_reusing_owners": 30000,
                     "cmode_reads_checked": 2800000, "cmode_notifications_required": 135000,
                     "cmode_assign_identity_equal_distinct": 22000,
                     "cmode_assign_none_identical": 1400,
                     "cmode_assign_equality_equal_distinct": 7000,
                     "cmode_leaf_assignments_on_observed_child": 14000, "cmode_copies": 10000,
                     "chain_reads_checked": 3300000, "chain_notifications_required": 370000,
                     "chain_changes_of_an_object_reached_through_a_property": 37000,
                     "chain_path_end_changes_on_pickle": 8000,
                     "chain_path_end_changes_on_clone": 7000, "chain_copies": 11000,
                     "chain_defaults_ops": 450, "chain_uncached_ops": 2500,
                     "ovl_reads_checked": 2100000, "ovl_notifications_required": 390000,
                     "ovl_value_changes": 350000,
                     "ovl_route_cut_holder_still_reachable": 31000,
                     "ovl_container_replaced_on_holder_reached_by_several_routes": 8700,
                     "ovl_container_replaced_on_holder_after_route_cut": 5600,
                     "ovl_leaf_changes_in_container_replaced_after_route_cut": 3300,
                     "ovl_copies": 8000, "ovl_leaf_changes_on_pickle": 6300,
                     "ovl_leaf_changes_on_clone": 4900},
    },
    "assumptions": [
        "the getters are pure functions of the declared dependencies; the harness recomputes the "
        "same function directly from the dependency traits",
        "reads are made between operations, inside handlers of the property's own notifications "
        "and inside the static handler of an unrelated trait; a read made inside a change handler "
        "of the dependency itself (mid-dispatch, before the invalidating observer has run) is "
        "counted in a separate unjudged stratum only",
        "container operations that may emit an event without changing the contents count as a "
        "(possibly) relevant change for the at-most-once law",
    ],
    "case_timeout": 120,
}

# ---------------------------------------------------------------------------
# dependency kinds and the pure functions

# A scalar; I inner.v; B inner.sub.v; L items.items.v; D d.items.v; S s.items;
# T items.items.tags.items  (a list on every child of the list)
# N inner.names.items       (a set on the nested object)
# M d.items.attrs.items     (a dict on every value of the dict)
# J auto.v                  (nested object that is a per-instance DEFAULT, Instance(Item, ()))
# R tl.items                (a transient list: always a default again on unpickled / cloned objects)
KINDS = ("A", "I", "B", "L", "D", "S", "T", "N", "M", "J", "R")


def _part_A(o):
    return o.a


def _part_I(o):
    i = o.inner
    return None if i is None else i.v


def _part_B(o):
    i = o.inner
    if i is None:
        return None
    b = i.sub
    return None if b is None else b.v


def _part_L(o):
    return tuple([i.v for i in o.items])


def _part_D(o):
    return tuple(sorted([(k, i.v) for k, i in o.d.items()]))


def _part_S(o):
    return tuple(sorted(o.s))


def _part_T(o):
    return tuple([tuple(i.tags) for i in o.items])


def _part_N(o):
    i = o.inner
    return None if i is None else tuple(sorted(i.names))


def _part_M(o):
    return tuple(sorted([(k, tuple(sorted(i.attrs.items()))) for k, i in o.d.items()]))


def _part_J(o):
    return o.auto.v


def _part_R(o):
    return tuple(o.tl)


PART = {"A": _part_A, "I": _part_I, "B": _part_B, "L": _part_L, "D": _part_D, "S": _part_S,
        "T": _part_T, "N": _part_N, "M": _part_M, "J": _part_J, "R": _part_R}


def compute(o, kinds):
    """The pure function every getter computes (and the oracle recomputes)."""
    return tuple([PART[k](o) for k in kinds])


# property name -> (dependency kinds, cached)
PROPS = collections.OrderedDict([
    ("cp", (KINDS, True)),
    ("up", (KINDS, False)),
    ("c_a", (("A",), True)),
    ("c_i", (("I",), True)),
    ("c_b", (("B",), True)),
    ("c_l", (("L",), True)),
    ("c_d", (("D",), True)),
    ("c_s", (("S",), True)),
    ("u_i", (("I",), False)),
    ("u_l", (("L",), False)),
    ("u_d", (("D",), False)),
    ("c_il", (("I", "L"), True)),
    ("c_ds", (("D", "S"), True)),
    ("c_t", (("T",), True)),
    ("u_t", (("T",), False)),
    ("c_n", (("N",), True)),
    ("c_m", (("M",), True)),
    ("c_j", (("J",), True)),
    ("c_r", (("R",), True)),
    ("c_lr", (("L", "R"), True)),
])
PROP_NAMES = list(PROPS)
NPROPS = len(PROP_NAMES)

OBS_STR = {"A": "a", "I": "inner.v", "B": "inner.sub.v", "L": "items.items.v",
           "D": "d.items.v", "S": "s.items", "T": "items.items.tags.items",
           "N": "inner.names.items", "M": "d.items.attrs.items", "J": "auto.v", "R": "tl.items"}
LEGACY_STR = {"A": "a", "I": "inner.v", "B": "inner.sub.v", "L": "items.v", "D": "d.v", "S": "s",
              "T": "items.tags", "N": "inner.names", "M": "d.attrs", "J": "auto.v", "R": "tl"}


def _obs_expr(kind):
    if kind == "A":
        return _otrait("a")
    if kind == "I":
        return _otrait("inner").trait("v")
    if kind == "B":
        return _otrait("inner").trait("sub").trait("v")
    if kind == "L":
        return _otrait("items").list_items().trait("v")
    if kind == "D":
        return _otrait("d").dict_items().trait("v")
    if kind == "T":
        return _otrait("items").list_items().trait("tags").list_items()
    if kind == "N":
        return _otrait("inner").trait("names").set_items()
    if kind == "M":
        return _otrait("d").dict_items().trait("attrs").dict_items()
    if kind == "J":
        return _otrait("auto").trait("v")
    if kind == "R":
        return _otrait("tl").list_items()
    return _otrait("s").set_items()


def _expression(form, kinds):
    if form == "str":
        return ", ".join(OBS_STR[k] for k in kinds)
    if form == "strlist":
        return [OBS_STR[k] for k in kinds]
    if form == "expr":
        e = _obs_expr(kinds[0])
        for k in kinds[1:]:
            e = e | _obs_expr(k)
        return e
    if form == "exprlist":
        return [_obs_expr(k) for k in kinds]
    if form == "legacy":
        return ", ".join(LEGACY_STR[k] for k in kinds)
    if form == "legacylist":
        # a *simple* name in a list ("s") is documented not to follow membership changes;
        # "s[]" is the documented spelling for "the trait or its members"
        return [LEGACY_STR[k] + ("[]" if k == "S" else "") for k in kinds]
    raise AssertionError(form)


# ---------------------------------------------------------------------------
# recorders (module-level state, reset per history; keyed by serial, not id())

class _State:
    def __init__(self):
        self.reset()

    def reset(self):
        self.calls = collections.Counter()    # (serial, prop) -> getter runs
        self.log = []                         # (serial, prop, mech, read, recomputed, new)
        self.excs = []                        # captured handler exceptions
        self.probe = []                       # (serial, prop, read, recomputed) in _probe_changed
        self.mid = []                         # mid-dispatch reads (unjudged stratum)
        self.serial = 0

    def next_serial(self):
        self.serial += 1
        return self.serial


ST = _State()


def _rec(obj, name, mech, new):
    read = getattr(obj, name)
    mini = getattr(type(obj), "_mini_props", None)
    if mini is not None:
        want = mini[name][0](obj)          # classes of the small dedicated strata
    else:
        want = compute(obj, PROPS[name][0])
    ST.log.append((obj.sn, name, mech, read, want, new))


def _otc_handler(obj, name, old, new):
    _rec(obj, name, "otc", new)


def _obs_handler(event):
    _rec(event.object, event.name, "obs", event.new)


def _make_static(pname):
    def handler(self, old, new):
        _rec(self, pname, "static", new)
    handler.__name__ = "_%s_changed" % pname
    return handler


def _make_getter(pname, kinds):
    def getter(self):
        ST.calls[(self.sn, pname)] += 1
        return compute(self, kinds)
    getter.__name__ = "_get_" + pname
    return getter


def _probe_changed(self):
    # static handler of an unrelated trait: a read like any other (also runs
    # while an object is being constructed / unpickled / cloned)
    sn = self.sn
    for pname in PROP_NAMES:
        ST.probe.append((sn, pname, getattr(self, pname), compute(self, PROPS[pname][0])))


def _legacy_exc(obj, name, old, new):
    e = sys.exc_info()[1]
    ST.excs.append(("legacy", name, type(e).__name__, repr(e)[:300]))


def _obs_exc(event):
    e = sys.exc_info()[1]
    ST.excs.append(("observe", getattr(event, "name", "?"), type(e).__name__, repr(e)[:300]))


# ---------------------------------------------------------------------------
# classes under test (module level => picklable by reference)

class Item(HasTraits):
    v = Int
    w = Int
    sub = Instance("Item")
    tags = List(Int)
    names = Set(Int)
    attrs = Dict(Str, Int)


def _touch_changed(self, new):
    """Static handler of the unrelated trait `touch`: first touches (and mutates in place) the
    observed containers / nested default object -- also while the object is still being
    constructed, unpickled or cloned, when they may be never-assigned defaults."""
    if new & 1:
        self.items.append(Item(v=new % 3))
    if new & 2:
        self.d["m"] = Item(v=new % 4)
    if new & 4:
        self.s.add(new % 5)
    if new & 8:
        self.auto.v = (self.auto.v + 1) % 4
    if new & 16:
        self.tl.append(new % 3)


def _make_class(name, form=None, static=(), base=None, extra=None, getters="props"):
    """Build a module-level HasTraits class.

    base None: declares the dependency traits and the 13 Property(observe=...) traits (expression
    given in `form`).  With a base: nothing is redeclared; only getters / static handlers /
    extras are added, so the properties are *inherited* and (when getters are supplied) migrated.

    getters: None = supply no getter here; "props" = cached per the PROPS table; "uncached" =
    every getter uncached; "flip" = cached exactly where PROPS says uncached.  The class records
    which properties are cached *as seen on its instances* in `_cached`.
    """
    ns = {"__module__": __name__, "__qualname__": name}
    if base is None:
        ns.update(
            sn=Int(transient=True), a=Int, irrelevant=Int, probe=Int,
            inner=Instance(Item), items=List(Instance(Item)),
            d=Dict(Str, Instance(Item)), s=Set(Int),
            auto=Instance(Item, ()), tl=List(Int, transient=True), touch=Int,
        )
        ns["_touch_changed"] = _touch_changed
        meta = "depends_on" if form.startswith("legacy") else "observe"
        for pname, (kinds, cached) in PROPS.items():
            ns[pname] = Property(**{meta: _expression(form, kinds)})
        ns["_probe_changed"] = _probe_changed
    cached_map = dict(getattr(base, "_cached", {}))
    if getters is not None:
        for pname, (kinds, cached) in PROPS.items():
            c = {"props": cached, "uncached": False, "flip": not cached}[getters]
            g = _make_getter(pname, kinds)
            ns["_get_" + pname] = cached_property(g) if c else g
            cached_map[pname] = c
    for pname in static:
        ns["_%s_changed" % pname] = _make_static(pname)
    if extra:
        ns.update(extra)
    cls = type(HasTraits)(name, (base or HasTraits,), ns)
    cls._static_props = frozenset(static) | getattr(base, "_static_props", frozenset())
    cls._legacy = form.startswith("legacy") if base is None else base._legacy
    cls._cached = cached_map
    # properties whose caching was introduced / dropped below the class that declared them
    prev = getattr(base, "_cached", {}) if base is not None else None
    added = set(getattr(base, "_cache_added", ()))
    dropped = set(getattr(base, "_cache_dropped", ()))
    if prev is not None and getters is not None:
        for pname, c in cached_map.items():
            if c and not prev.get(pname, False):
                added.add(pname)
                dropped.discard(pname)
            elif not c and prev.get(pname, False):
                dropped.add(pname)
                added.discard(pname)
    cls._cache_added, cls._cache_dropped = frozenset(added), frozenset(dropped)
    cls._inherited_getter = base is not None and (getters is not None
                                                  or getattr(base, "_inherited_getter", False))
    return cls


PS = _make_class("PS", "str", static=("cp", "up", "c_l", "c_i", "u_d", "c_ds"))
PN = _make_class("PN", "strlist")
PX = _make_class("PX", "expr", static=("cp", "c_b", "c_s"))
PXL = _make_class("PXL", "exprlist", static=("up", "c_d"))
PSsub = _make_class("PSsub", static=("c_a", "c_d", "u_l"), base=PS, extra={"extra": Int},
                    getters=None)
PL = _make_class("PL", "legacy", static=("cp", "up", "c_l", "c_i", "u_d"))
PLN = _make_class("PLN", "legacylist")

# -- the observed Property is declared in a base class, the getter comes from a subclass that
#    does NOT redeclare the trait (the trait is migrated, the observer state must follow it)
# interface-like base without any getter (never instantiated) -> subclass supplies the getters
QA = _make_class("QA", "strlist", static=("cp", "c_l"), getters=None)
QAc = _make_class("QAc", base=QA, static=("up", "c_d"))
QAcc = _make_class("QAcc", base=QAc, static=("c_a",), extra={"extra": Int}, getters=None)
# base with uncached getters everywhere -> subclass overrides with cached ones -> grand-child
QU = _make_class("QU", "str", static=("cp", "c_i"), getters="uncached")
QUc = _make_class("QUc", base=QU, static=("c_l", "u_d"))
QUcc = _make_class("QUcc", base=QUc, extra={"extra": Int}, getters=None)
# the same over ObserverExpression declarations
QXA = _make_class("QXA", "expr", getters=None)
QXAc = _make_class("QXAc", base=QXA, static=("cp", "c_s", "u_l"))
# reverse: base cached -> subclass overrides with uncached getters -> grand-child cached again;
# and a subclass that flips every property (cached <-> uncached) at once
QSu = _make_class("QSu", base=PS, getters="uncached")
QSuc = _make_class("QSuc", base=QSu, static=("c_a",))
QNflip = _make_class("QNflip", base=PN, static=("up", "u_i"), getters="flip")
QNflip2 = _make_class("QNflip2", base=QNflip, extra={"extra": Int}, getters=None)


def _mid_a_changed(self):
    # reads made *inside a handler of the dependency itself* (unjudged stratum)
    for pname in ("cp", "c_a", "up"):
        ST.mid.append((pname, getattr(self, pname), compute(self, PROPS[pname][0])))


PM = _make_class("PM", "str", extra={"_a_changed": _mid_a_changed})

SHARED_KEY = "depends_on-shared/element-reachable-twice"
CLASSES = {c.__name__: c for c in (PS, PN, PX, PXL, PSsub, PL, PLN, QAc, QAcc, QU, QUc, QUcc, QXAc,
                                   QSu, QSuc, QNflip, QNflip2)}
OBSERVE_CLASSES = ["PS", "PN", "PX", "PXL", "PSsub"]
# getter supplied / overridden below the class that declares the Property (own stratum)
INHERITED_GETTER_CLASSES = ["QAc", "QAcc", "QUc", "QUcc", "QXAc", "QSu", "QSuc", "QNflip",
                            "QNflip2", "QU"]
LEGACY_CLASSES = ["PL", "PLN"]

# ---------------------------------------------------------------------------
# operations (abstract descriptors: every argument is resolved modulo the run-time
# state, so any subsequence of a history is again a valid history => shrinkable)

DKEYS = ("k", "j", "m")
AKEYS = ("p", "q")
COPY_KINDS = ("pickle2", "pickle3", "pickle4", "pickle5", "deepcopy", "clone", "clone_deep",
              "clone_shallow")

# op name -> dependency kinds it may touch *by container event* on the target (label relevance);
# for everything else relevance is decided by the dependency fingerprint alone
LABEL_TOUCH = {}
for _n in ("l_append", "l_insert", "l_extend", "l_remove", "l_pop", "l_del", "l_delslice", "l_set",
           "l_setslice", "l_setext", "l_sort", "l_reverse", "l_clear", "l_imul", "l_iadd",
           "l_overlap", "l_overlap",
           "l_assign"):
    LABEL_TOUCH[_n] = ("L", "T")       # a list event also reaches items.items.tags.items
for _n in ("d_set", "d_del", "d_pop", "d_update", "d_clear", "d_setdefault", "d_popitem",
           "d_assign", "d_ior"):
    LABEL_TOUCH[_n] = ("D", "M")
for _n in ("s_add", "s_discard", "s_remove", "s_update", "s_isub", "s_ixor", "s_iand", "s_clear",
           "s_pop", "s_assign"):
    LABEL_TOUCH[_n] = ("S",)

FAMILY = {"a_set": "scalar", "inner_set": "inner", "inner_v": "inner", "sub_set": "inner",
          "item_sub": "inner", "item_v": "item", "compound": "compound", "irr": "irrelevant",
          "item_w": "irrelevant", "probe": "irrelevant", "noop": "irrelevant", "copy": "copy"}
for _n, _k in LABEL_TOUCH.items():
    FAMILY[_n] = {"L": "list", "D": "dict", "S": "set"}[_k[0]]
for _n in ("r_append", "r_pop", "r_clear", "r_assign", "r_setslice"):
    LABEL_TOUCH[_n] = ("R",)
    FAMILY[_n] = "transient-list"
# containers that sit on a child object: the kinds touched depend on where the child is
T_OPS = ["t_append", "t_append", "t_pop", "t_clear", "t_assign", "t_setslice", "t_extend"]
N_OPS = ["n_add", "n_add", "n_discard", "n_clear", "n_assign", "n_update"]
M_OPS = ["m_set", "m_set", "m_del", "m_clear", "m_assign", "m_update"]
for _n in T_OPS:
    FAMILY[_n] = "child-list"
for _n in N_OPS:
    FAMILY[_n] = "child-set"
for _n in M_OPS:
    FAMILY[_n] = "child-dict"
FAMILY.update({"auto_v": "default-instance", "auto_set": "default-instance",
               "touch": "in-handler"})
R_OPS = ["r_append", "r_append", "r_pop", "r_clear", "r_assign", "r_setslice"]

L_OPS = [n for n in LABEL_TOUCH if n.startswith("l_")]
D_OPS = [n for n in LABEL_TOUCH if n.startswith("d_")]
S_OPS = [n for n in LABEL_TOUCH if n.startswith("s_")]


def _ref(rng):
    """Reference to an Item: negative => a new Item(v=-n-1), else index into the candidates."""
    if rng.random() < 0.22:
        # value and flavour: containers left as untouched defaults / given explicitly empty /
        # given non-empty
        return -1 - rng.randrange(12)
    return rng.randrange(16)


def gen_op(rng):
    op = {"sel": rng.randrange(10), "r": rng.randrange(4), "or": rng.randrange(2),
          "m": rng.getrandbits(NPROPS) | rng.getrandbits(NPROPS)}
    c = rng.random()
    if c < 0.10:
        op["op"] = "copy"
        op["x"] = [rng.choice(COPY_KINDS)]
    elif c < 0.16:
        op["op"] = "compound"
        op["x"] = [rng.randrange(1, 8), rng.randrange(4), _ref(rng) if rng.random() < 0.8 else None]
    elif c < 0.32:
        name = rng.choice(["irr", "item_w", "probe", "noop", "irr", "probe"])
        op["op"] = name
        op["x"] = [rng.randrange(16)]
    else:
        grp = rng.random()
        if grp < 0.07:
            op["op"] = "a_set"
            op["x"] = [rng.randrange(4)]
        elif grp < 0.19:
            op["op"] = "item_v"
            op["x"] = [rng.randrange(16), rng.randrange(4)]
        elif grp < 0.27:
            name = rng.choice(["inner_set", "inner_set", "inner_v", "sub_set", "item_sub"])
            op["op"] = name
            if name == "inner_set":
                op["x"] = [_ref(rng) if rng.random() < 0.85 else None]
            elif name == "inner_v":
                op["x"] = [rng.randrange(4)]
            elif name == "sub_set":
                op["x"] = [_ref(rng) if rng.random() < 0.85 else None]
            else:
                op["x"] = [rng.randrange(16), rng.randrange(16) if rng.random() < 0.85 else None]
        elif grp < 0.46:
            name = rng.choice(L_OPS)
            op["op"] = name
            op["x"] = [rng.randrange(-7, 8), rng.randrange(-7, 8), rng.choice([1, 1, 2, -1, 3]),
                       [_ref(rng) for _ in range(rng.randrange(4))]]
        elif grp < 0.59:
            name = rng.choice(D_OPS)
            op["op"] = name
            op["x"] = [rng.randrange(3), _ref(rng),
                       [[rng.randrange(3), _ref(rng)] for _ in range(rng.randrange(3))]]
        elif grp < 0.66:
            name = rng.choice(S_OPS)
            op["op"] = name
            op["x"] = [rng.randrange(5), [rng.randrange(5) for _ in range(rng.randrange(4))]]
        elif grp < 0.85:
            # in-place mutation / reassignment of a container that sits on a child object
            name = rng.choice(T_OPS + N_OPS + M_OPS)
            op["op"] = name
            op["x"] = [rng.randrange(20), rng.randrange(5),
                       [rng.randrange(5) for _ in range(rng.randrange(3))]]
        elif grp < 0.89:
            name = rng.choice(["auto_v", "auto_v", "auto_set"])
            op["op"] = name
            op["x"] = [rng.randrange(4), _ref(rng)]
        elif grp < 0.95:
            name = rng.choice(R_OPS)
            op["op"] = name
            op["x"] = [rng.randrange(5), [rng.randrange(5) for _ in range(rng.randrange(3))]]
        else:
            # a static handler of an unrelated trait mutates the containers in place
            op["op"] = "touch"
            op["x"] = [rng.randrange(1, 32)]
    return op


def gen_history(rng, steps, legacy=False, unique=False, collapse=None, classes=None):
    spec = {
        "unique": unique, "collapse": collapse,
        "cls": rng.choice(classes or (LEGACY_CLASSES if legacy else OBSERVE_CLASSES)),
        "listen": rng.choice(["none", "otc", "obs", "both", "both"]),
        "dyn": rng.getrandbits(NPROPS) | rng.getrandbits(NPROPS),
        # kw_default_read / kw_default_touch: the observed containers and the nested default
        # object are never assigned; their defaults are first read / mutated by a static handler
        # while the constructor is still processing its keywords.  late_touch is the control
        # (same handler, after construction).
        "init": rng.choice(["empty", "kw", "kw", "kw_probe", "kw_probe", "late",
                            "kw_default_read", "kw_default_read", "kw_default_touch",
                            "kw_default_touch", "late_touch"]),
        "init_bits": rng.randrange(1, 32),
    }
    return spec, [gen_op(rng) for _ in range(steps)]


# ---------------------------------------------------------------------------
# run-time helpers

class Tracked:
    __slots__ = ("obj", "sn", "origin", "mechs", "win", "last", "ctor_defaults")

    def __init__(self, obj, sn, origin):
        self.obj, self.sn, self.origin = obj, sn, origin
        self.mechs = {}       # prop -> set of attached recorder mechanisms
        self.win = {}         # cached prop -> [getter runs since last relevant change, allowed]
        self.last = {}        # prop -> family of the last relevant change (for the keys)
        # kinds whose container / nested object is a never-assigned default that was first
        # touched while the object was being constructed / unpickled / cloned (counters only)
        self.ctor_defaults = set()


def _reachable(o):
    out, seen = [], set()
    inner = o.inner
    cands = [inner, None if inner is None else inner.sub]
    cands += list(o.items)
    d = o.d
    cands += [d[k] for k in sorted(d)]
    cands.append(o.auto)
    for x in cands:
        if x is not None and id(x) not in seen:
            seen.add(id(x))
            out.append(x)
    return out


def _has_sharing(o):
    """True when some Item is reachable from o through two dependency paths / positions."""
    inner = o.inner
    cands = [inner, None if inner is None else inner.sub]
    cands += list(o.items)
    cands += list(o.d.values())
    ids = [id(x) for x in cands if x is not None]
    return len(ids) != len(set(ids))


def _snap(o):
    """(fingerprint per kind, value per kind).  Fingerprints hold the Items themselves (compared
    by identity through the default __eq__); containers, whose == compares contents, are
    identified by id() while the snapshot keeps them alive under "_keep"."""
    inner = o.inner
    sub = None if inner is None else inner.sub
    items = list(o.items)
    d = o.d
    dk = sorted(d)
    dv = [d[k] for k in dk]
    s = tuple(sorted(o.s))
    auto = o.auto
    tl = o.tl
    tags = [i.tags for i in items]
    names = None if inner is None else inner.names
    attrs = [i.attrs for i in dv]
    vI = None if inner is None else inner.v
    vB = None if sub is None else sub.v
    vL = tuple([i.v for i in items])
    vD = tuple([(k, i.v) for k, i in zip(dk, dv)])
    vT = tuple([tuple(t) for t in tags])
    vN = None if names is None else tuple(sorted(names))
    vM = tuple([(k, tuple(sorted(a.items()))) for k, a in zip(dk, attrs)])
    vJ = auto.v
    vR = tuple(tl)
    val = {"A": o.a, "I": vI, "B": vB, "L": vL, "D": vD, "S": s, "T": vT, "N": vN, "M": vM,
           "J": vJ, "R": vR}
    fp = {"A": val["A"], "I": (inner, vI), "B": (inner, sub, vB), "L": (items, vL),
          "D": (dk, dv, vD), "S": s,
          "T": (items, [id(t) for t in tags], vT),
          "N": (inner, id(names), vN),
          "M": (dk, dv, [id(a) for a in attrs], vM),
          "J": (auto, vJ),
          "R": (id(tl), vR),
          "_keep": (tags, names, attrs, tl)}
    return fp, val


def _child_touch(o, it, group):
    """Dependency kinds of o that a container event on child `it` can reach."""
    if group == "t":
        return ("T",) if any(it is y for y in o.items) else ()
    if group == "n":
        return ("N",) if it is o.inner else ()
    return ("M",) if any(it is y for y in o.d.values()) else ()


def _val(val, kinds):
    return tuple([val[k] for k in kinds])


class Stop(Exception):
    def __init__(self, key):
        self.key = key


class NullSink:
    """Stand-in for ctx while shrinking."""
    def __init__(self):
        self.first = None

    def ev(self, n=1):
        pass

    def count(self, name, n=1):
        pass

    def sig(self, *parts):
        pass

    def sample(self, obj, cap=4):
        pass

    def note(self, name, value):
        pass

    def violation(self, key, message, witness=None):
        if self.first is None:
            self.first = key


class History:
    def __init__(self, sink, spec, ops):
        self.sink = sink
        self.spec = spec
        self.ops = ops
        self.cls = CLASSES[spec["cls"]]
        self.legacy = self.cls._legacy
        self.cached = self.cls._cached          # property -> cached getter on this class?
        self.unique = bool(spec.get("unique"))
        self.collapse = spec.get("collapse")
        self.inh = self.cls._inherited_getter
        self.pfx = "depends_on/" if self.legacy else "inherited-getter/" if self.inh else ""
        self.cpfx = ("legacyshared_" if self.collapse else "legacy_") if self.legacy else ""
        self.pool = []
        self.tracked = []
        self.trace = []
        self.dyn_touch = ()
        self.reassigned = None
        self.step = -1
        self.phase = "construct"

    # -- failure ---------------------------------------------------------
    def fail(self, key, msg, **extra):
        if self.collapse:
            msg = "[%s%s] %s" % (self.pfx, key, msg)
            key = self.collapse
        else:
            key = self.pfx + key
        w = {"spec": self.spec, "ops": self.trace, "step": self.step}
        w.update(extra)
        self.sink.violation(key, "%s [class %s, listen=%s, step %d, op %r]"
                            % (msg, self.spec["cls"], self.spec["listen"], self.step,
                               self.trace[-1] if self.trace else None), w)
        raise Stop(key)

    def count(self, name, n=1):
        self.sink.count(self.cpfx + name, n)
        if self.inh:
            self.sink.count("inherited_getter_" + name, n)

    # -- set-up ------------------------------------------------------------
    def track(self, obj, origin):
        sn = ST.next_serial()
        obj.sn = sn
        t = Tracked(obj, sn, origin)
        mode, dyn = self.spec["listen"], self.spec["dyn"]
        for i, pname in enumerate(PROP_NAMES):
            mechs = set()
            if pname in self.cls._static_props:
                mechs.add("static")
            if dyn >> i & 1:
                if mode in ("otc", "both"):
                    obj.on_trait_change(_otc_handler, pname)
                    mechs.add("otc")
                if mode in ("obs", "both"):
                    obj.observe(_obs_handler, pname)
                    mechs.add("obs")
            t.mechs[pname] = mechs
            t.last[pname] = "construct" if origin == "fresh" else "copy"
            if self.cached[pname]:
                t.win[pname] = [0, 1]
        self.tracked.append(t)
        if len(self.tracked) > 3:
            del self.tracked[0]
        return t

    def build(self):
        # children whose own containers are untouched defaults / explicitly empty / non-empty
        pool = self.pool = [Item(v=0), Item(v=1, tags=[], names=set(), attrs={}),
                            Item(v=2, tags=[2], names={2}, attrs={"p": 2}), Item(v=0, tags=[])]
        init = self.spec["init"]
        cls = self.cls
        ctor_defaults = ()
        if self.unique:
            # no Item reachable twice from one object
            if init == "empty":
                o = cls()
            elif init in ("kw", "kw_probe"):
                o = cls(a=1, inner=pool[0], probe=1, items=[pool[1], pool[2]], d={"k": pool[3]},
                        s={1, 2})
            else:
                o = cls()
                o.probe = 1
                o.items = [pool[2], pool[1]]
                o.inner = pool[0]
                pool[0].sub = pool[3]
        elif init == "empty":
            o = cls()
        elif init == "kw":
            o = cls(a=1, inner=pool[0], items=[pool[0], pool[0], pool[1]],
                    d={"k": pool[0], "j": pool[2]}, s={1, 2})
        elif init == "kw_probe":
            # `probe` is assigned in the middle: its static handler reads every property
            # while the constructor is still assigning the dependencies
            o = cls(a=1, inner=pool[1], probe=1, items=[pool[0], pool[1], pool[0]], irrelevant=3,
                    d={"k": pool[1], "m": pool[3]}, s={0, 3})
        elif init == "kw_default_read":
            # nothing but scalars is assigned: the static handler of `probe` reads every property,
            # i.e. the getters materialise the DEFAULT list / dict / set / nested object while the
            # constructor is still processing its keywords; they are never assigned afterwards
            o = cls(a=1, probe=1, irrelevant=2)
            ctor_defaults = ("L", "D", "S", "J", "R")
        elif init == "kw_default_touch":
            # same, but the handler (of `touch`) also mutates those defaults in place
            bits = self.spec.get("init_bits", 31)
            if bits >= 16:
                o = cls(a=2, touch=bits, probe=1)       # ... and `probe` reads all of them
                ctor_defaults = ("L", "D", "S", "J", "R")
            else:
                o = cls(touch=bits, a=2)
                ctor_defaults = tuple(k for k, b in (("L", 1), ("D", 2), ("S", 4), ("J", 8))
                                      if bits & b)
        elif init == "late_touch":
            # control: the same handlers run after construction
            o = cls()
            o.touch = self.spec.get("init_bits", 31)
            o.probe = 1
        else:
            o = cls()
            o.probe = 1
            o.items = [pool[2], pool[2]]
            o.inner = pool[2]
            pool[2].sub = pool[3]
            o.d = {"j": pool[2]}
        self.check_excs("construction")
        self.check_handler_log("construct")
        ST.log[:] = []
        self.check_probe("construct")
        self.phase = "attach-recorders"
        t = self.track(o, "fresh")
        t.ctor_defaults = set(ctor_defaults)
        if ctor_defaults:
            self.count("histories_default_first_touched_in_constructor")
        return t

    # -- item references -----------------------------------------------------
    def cands(self, o):
        """Candidate Items for an operation on o: its own elements, a few elements of the
        other tracked objects (so that originals and copies come to share dependencies), then
        the free pool."""
        out = _reachable(o)
        seen = set(id(x) for x in out)
        for t in self.tracked:
            if t.obj is not o:
                for x in _reachable(t.obj)[:3]:
                    if id(x) not in seen:
                        seen.add(id(x))
                        out.append(x)
        for x in self.pool:
            if id(x) not in seen:
                seen.add(id(x))
                out.append(x)
        return out

    def item(self, o, ref):
        if ref is None:
            return None
        if ref < 0:
            n = -ref - 1
            v, flavour = n % 4, n // 4
            if flavour == 1:
                # containers stored on the child and EMPTY when the child gets attached
                it = Item(v=v, tags=[], names=set(), attrs={})
            elif flavour == 2:
                it = Item(v=v, tags=[v], names={v, 4}, attrs={"p": v})
            else:
                it = Item(v=v)               # untouched defaults
            self.pool.append(it)
            if len(self.pool) > 6:
                del self.pool[0]
            return it
        c = self.cands(o)
        it = c[ref % len(c)]
        if self.unique and any(it is r for r in _reachable(o)):
            # stratum without repeated / multiply reachable elements inside one object
            it = Item(v=it.v)
        return it

    # -- operations ------------------------------------------------------------
    def apply(self, op, t):
        """Execute op on tracked t.  Returns (allowed getter runs per dependency kind
        beyond 1, new_object_or_None)."""
        o = t.obj
        name, x = op["op"], op["x"]
        if name == "a_set":
            o.a = x[0]
        elif name == "irr":
            o.irrelevant += 1
        elif name == "probe":
            o.probe += 1
        elif name == "noop":
            pass
        elif name == "item_w":
            c = self.cands(o)
            c[x[0] % len(c)].w += 1
        elif name == "item_v":
            c = self.cands(o)
            if x[0] % 3 == 0:
                # prefer an element that another tracked object depends on as well
                mine = _reachable(o)
                others = set(id(y) for t in self.tracked if t.obj is not o
                             for y in _reachable(t.obj))
                shared = [y for y in mine if id(y) in others]
                if shared:
                    c = shared
            c[x[0] % len(c)].v = x[1]
        elif name == "inner_set":
            o.inner = self.item(o, x[0])
        elif name == "inner_v":
            if o.inner is not None:
                o.inner.v = x[0]
        elif name == "sub_set":
            if o.inner is not None:
                o.inner.sub = self.item(o, x[0])
        elif name == "item_sub":
            c = self.cands(o)
            if self.unique:
                c[x[0] % len(c)].sub = None if x[1] is None else Item(v=x[1] % 4)
            else:
                c[x[0] % len(c)].sub = self.item(o, x[1])
        elif name == "compound":
            bits, av, ref = x
            kw = {}
            if bits & 1:
                kw["a"] = av
            if bits & 2:
                kw["irrelevant"] = o.irrelevant + 1
            if bits & 4:
                kw["inner"] = self.item(o, ref)
            o.trait_set(**kw)
            # one relevant change per dependency assigned (the at-most-once budget)
            return max(1, len([k for k in kw if k != "irrelevant"])), None
        elif name.startswith("l_"):
            self.apply_list(name, o, x)
        elif name.startswith("d_"):
            self.apply_dict(name, o, x)
        elif name.startswith("s_"):
            self.apply_set(name, o, x)
        elif name[:2] in ("t_", "n_", "m_"):
            self.apply_child(name, o, x)
        elif name.startswith("r_"):
            self.apply_transient(name, t, x)
        elif name == "auto_v":
            o.auto.v = x[0]
        elif name == "auto_set":
            o.auto = self.item(o, x[1])
            t.ctor_defaults.discard("J")
        elif name == "touch":
            bits = x[0]
            self.dyn_touch = tuple(k for b, ks in ((1, "LT"), (2, "DM"), (4, "S"), (8, "J"),
                                                   (16, "R")) if bits & b for k in ks)
            # always a new value, so the static handler `_touch_changed` runs
            o.touch = (((o.touch >> 5) + 1) << 5) | bits
            return bin(bits).count("1"), None
        elif name == "copy":
            kind = x[0]
            if kind.startswith("pickle"):
                new = pickle.loads(pickle.dumps(o, int(kind[6:])))
            elif kind == "deepcopy":
                new = copy.deepcopy(o)
            elif kind == "clone":
                new = o.clone_traits()
            elif kind == "clone_deep":
                new = o.clone_traits(copy="deep")
            else:
                new = o.clone_traits(copy="shallow")
            return 1, new
        else:
            raise AssertionError(name)
        return 1, None

    def apply_child(self, name, o, x):
        """In-place mutation / reassignment of a container that sits on a child object."""
        sel, v, many = x
        group = name[0]
        c = []
        if sel % 5 != 4:
            # prefer a child in the position the observers look at
            if group == "t":
                c = list(o.items)
            elif group == "n":
                c = [o.inner] if o.inner is not None else []
            else:
                d = o.d
                c = [d[k] for k in sorted(d)]
        if not c:
            c = self.cands(o)
        it = c[sel % len(c)]
        # the container event may reach every tracked object that holds this child in the
        # observed position (also without a change of contents): see _child_touch
        self.child_op = (it, group)
        observed = bool(_child_touch(o, it, group))
        cont = it.tags if group == "t" else it.names if group == "n" else it.attrs
        was_empty = len(cont) == 0
        if name == "t_append":
            cont.append(v)
        elif name == "t_extend":
            cont.extend(many)
        elif name == "t_pop":
            if cont:
                cont.pop()
        elif name == "t_clear":
            cont.clear()
        elif name == "t_setslice":
            cont[0:1] = many
        elif name == "t_assign":
            it.tags = list(many)
        elif name == "n_add":
            cont.add(v)
        elif name == "n_update":
            cont.update(many)
        elif name == "n_discard":
            cont.discard(v)
        elif name == "n_clear":
            cont.clear()
        elif name == "n_assign":
            it.names = set(many)
        elif name == "m_set":
            cont[AKEYS[v % 2]] = v + len(many)
        elif name == "m_update":
            cont.update({AKEYS[i % 2]: m for i, m in enumerate(many)})
        elif name == "m_del":
            cont.pop(AKEYS[v % 2], None)
        elif name == "m_clear":
            cont.clear()
        elif name == "m_assign":
            it.attrs = {AKEYS[i % 2]: m for i, m in enumerate(many)}
        else:
            raise AssertionError(name)
        if observed and was_empty and len(cont) and not name.endswith("_assign"):
            self.count("child_container_filled_in_place_from_empty")

    def apply_transient(self, name, t, x):
        v, many = x
        o = t.obj
        tl = o.tl
        if name == "r_append":
            tl.append(v)
        elif name == "r_pop":
            if tl:
                tl.pop()
        elif name == "r_clear":
            tl.clear()
        elif name == "r_setslice":
            tl[0:1] = many
        elif name == "r_assign":
            o.tl = list(many)
            t.ctor_defaults.discard("R")
        else:
            raise AssertionError(name)

    def apply_list(self, name, o, x):
        p, q, step, refs = x
        lst = o.items
        n = len(lst)
        if name == "l_append":
            lst.append(self.item(o, p if p >= 0 else -p))
        elif name == "l_insert":
            lst.insert(p, self.item(o, abs(q)))
        elif name == "l_extend":
            lst.extend([self.item(o, r) for r in refs])
        elif name == "l_iadd":
            lst += [self.item(o, r) for r in refs]
        elif name == "l_remove":
            if n:
                lst.remove(lst[p % n])
        elif name == "l_pop":
            if n:
                lst.pop(p % n if q >= 0 else -1)
        elif name == "l_del":
            if n:
                del lst[p % n]
        elif name == "l_delslice":
            del lst[min(p, q):max(p, q):abs(step)]
        elif name == "l_set":
            if n:
                lst[p % n] = self.item(o, abs(q))
        elif name == "l_setslice":
            lst[min(p, q):max(p, q)] = [self.item(o, r) for r in refs]
        elif name == "l_setext":
            sl = slice(None, None, step if abs(step) > 1 else 2)
            k = len(range(n)[sl])
            lst[sl] = [self.item(o, (refs[i % len(refs)] if refs else i)) for i in range(k)]
        elif name == "l_overlap":
            # slice assignment whose new items overlap the replaced ones with a different
            # multiplicity (the same object on both sides of one list event)
            if 0 < n <= 6:      # (one list event only: the list is never trimmed afterwards)
                i, j = p % n, q % n
                lo, hi = min(i, j), max(i, j) + 1
                old = list(lst[lo:hi])
                mode = abs(step) + (1 if p < 0 else 0)
                if mode == 1:
                    lst[lo:hi] = old + [old[0]]              # one more occurrence
                elif mode == 2:
                    lst[i:i + 1] = [lst[i]] * (2 + (q < 0))  # x -> x, x(, x)
                elif mode == 3:
                    lst[:] = list(lst) + [lst[j]]            # whole-list slice, one more
                else:
                    lst[lo:hi] = old[::-1][:-1] + [old[-1], old[-1]] if len(old) > 1 \
                        else [old[0], old[0]]
        elif name == "l_sort":
            lst.sort(key=lambda i: i.v, reverse=p < 0)
        elif name == "l_reverse":
            lst.reverse()
        elif name == "l_clear":
            lst.clear()
        elif name == "l_imul":
            if n <= 4:
                lst *= (2 if p >= -3 and not self.unique else 0)
        elif name == "l_assign":
            o.items = [self.item(o, r) for r in refs]
            self.reassigned = "L"
        else:
            raise AssertionError(name)

    def apply_dict(self, name, o, x):
        ki, ref, pairs = x
        d = o.d
        k = DKEYS[ki]
        if name == "d_set":
            d[k] = self.item(o, ref)
        elif name == "d_del":
            if k in d:
                del d[k]
        elif name == "d_pop":
            d.pop(k, None)
        elif name == "d_update":
            d.update({DKEYS[a]: self.item(o, b) for a, b in pairs})
        elif name == "d_ior":
            d |= {DKEYS[a]: self.item(o, b) for a, b in pairs}
        elif name == "d_clear":
            d.clear()
        elif name == "d_setdefault":
            d.setdefault(k, self.item(o, ref))
        elif name == "d_popitem":
            if d:
                d.popitem()
        elif name == "d_assign":
            o.d = {DKEYS[a]: self.item(o, b) for a, b in pairs}
            self.reassigned = "D"
        else:
            raise AssertionError(name)

    def apply_set(self, name, o, x):
        e, many = x
        s = o.s
        if name == "s_add":
            s.add(e)
        elif name == "s_discard":
            s.discard(e)
        elif name == "s_remove":
            if e in s:
                s.remove(e)
        elif name == "s_update":
            s.update(many)
        elif name == "s_isub":
            s -= set(many)
        elif name == "s_ixor":
            s ^= set(many)
        elif name == "s_iand":
            s &= set(many)
        elif name == "s_clear":
            s.clear()
        elif name == "s_pop":
            if s:
                s.pop()
        elif name == "s_assign":
            o.s = set(many)
            self.reassigned = "S"
        else:
            raise AssertionError(name)

    # -- oracle pieces -----------------------------------------------------------
    def check_excs(self, where):
        if ST.excs:
            ch, name, tname, rep = ST.excs[0]
            ST.excs[:] = []
            self.fail("handler-exception/%s/%s" % (ch, tname),
                      "exception inside a notification handler during %s: trait %r: %s"
                      % (where, name, rep))

    def check_probe(self, where):
        """Reads made by the static handler of the unrelated trait `probe`."""
        for sn, pname, read, want in ST.probe:
            self.sink.ev()
            self.count("reads_checked")
            self.count("probe_reads_checked")
            if read != want:
                ST.probe[:] = []
                self.fail("stale-read/%s/%s/in-unrelated-handler/%s"
                          % ("cached" if self.cached[pname] else "uncached",
                             _diff_kinds(PROPS[pname][0], read, want), where),
                          "property %s read %r inside the static handler of an unrelated trait, "
                          "recomputation gives %r" % (pname, read, want), prop=pname)
        ST.probe[:] = []

    def check_handler_log(self, where):
        """Records made by the recorders of tracked objects and of objects under construction
        (serial 0): whatever was read inside the handler must equal the recomputation made
        there, and the `new` argument must be that value."""
        for sn, pname, mech, read, want, newarg in ST.log:
            self.sink.ev()
            self.count("handler_reads_checked")
            cached = "cached" if self.cached[pname] else "uncached"
            if read != want:
                self.fail("notify/handler-read-stale/%s/%s/%s" % (mech, cached, where),
                          "inside the %s handler for %s the property reads %r, recomputation there "
                          "gives %r" % (mech, pname, read, want), prop=pname)
            if newarg != read:
                self.fail("notify/new-arg-differs-from-read/%s/%s/%s" % (mech, cached, where),
                          "the %s handler for %s received new=%r but the property reads %r there"
                          % (mech, pname, newarg, read), prop=pname)

    def do_reads(self, t, n, mask, post_val, fam, role):
        if not n:
            return
        o = t.obj
        for i, pname in enumerate(PROP_NAMES):
            if not mask >> i & 1:
                continue
            kinds, cached = PROPS[pname][0], self.cached[pname]
            want = _val(post_val, kinds)
            c0 = ST.calls[(t.sn, pname)]
            for _ in range(n):
                got = getattr(o, pname)
                self.sink.ev()
                self.count("reads_checked")
                if got != want:
                    self.fail("stale-read/%s/%s/%s"
                              % ("cached" if cached else "uncached", _diff_kinds(kinds, got, want),
                                 _okind(t.origin)),
                              "property %s (%s) of the %s object (origin %s) reads %r, recomputation "
                              "from current state gives %r (last relevant change: %s)"
                              % (pname, "+".join(kinds), role, t.origin, got, want, t.last[pname]),
                              prop=pname, got=got, want=want)
            if cached:
                runs = ST.calls[(t.sn, pname)] - c0
                w = t.win[pname]
                w[0] += runs
                self.sink.ev()
                self.count("cached_windows_checked")
                if runs:
                    self.count("cached_getter_runs_on_read")
                if w[0] > w[1]:
                    self.fail("recompute/on-read/%s/%s" % (t.last[pname], _okind(t.origin)),
                              "cached getter of %s ran %d times (allowed %d) since the last relevant "
                              "change of the %s object (origin %s); %d of them in these %d reads"
                              % (pname, w[0], w[1], role, t.origin, runs, n), prop=pname)

    # -- main loop -----------------------------------------------------------------
    def run(self):
        ST.reset()
        try:
            try:
                self.phase = "construct"
                self.build()
                for op in self.ops:
                    self.step += 1
                    self.trace.append(op)
                    self.phase = "snapshot"
                    self.one_step(op)
            except Stop:
                raise
            except Exception as e:  # noqa: BLE001 - nothing in the alphabet may raise
                self.fail("library-raised/%s/%s" % (self.phase, type(e).__name__),
                          "unexpected %r during phase %r: %s"
                          % (e, self.phase, traceback.format_exc()[-900:]))
        except Stop as s:
            return s.key
        return None

    def one_step(self, op):
        sink = self.sink
        tracked = list(self.tracked)
        if op["sel"] >= 8 and len(tracked) > 1:
            target = tracked[(op["sel"] + op["m"]) % (len(tracked) - 1)]
        else:
            target = tracked[-1]
        name = op["op"]
        fam = FAMILY[name]
        pre = {t.sn: _snap(t.obj) for t in tracked}
        calls0 = {(t.sn, p): ST.calls[(t.sn, p)] for t in tracked for p in t.win}
        ST.log[:] = []
        ST.excs[:] = []
        ST.probe[:] = []
        self.count("ops")
        self.phase = "apply"
        self.dyn_touch = ()
        self.child_op = None
        self.reassigned = None
        try:
            mult, new = self.apply(op, target)
        except Stop:
            raise
        except Exception as e:  # noqa: BLE001 - an operation of the alphabet must not raise
            if name == "copy":
                self.fail("copy-raised/%s/%s" % (op["x"][0], type(e).__name__),
                          "%s of the object raised %r" % (op["x"][0], e))
            self.fail("op-raised/%s/%s" % (fam, type(e).__name__),
                      "operation %s raised %r" % (name, e))
        if self.unique and (any(_has_sharing(t.obj) for t in tracked)
                            or (new is not None and _has_sharing(new))):
            # precondition of this stratum no longer holds: leave quietly
            self.count("unique_stratum_left")
            raise Stop(None)
        self.phase = "evaluate"
        self.check_excs(name)
        self.check_probe("copy" if name == "copy" else "step")
        post = {t.sn: _snap(t.obj) for t in tracked}
        touch = LABEL_TOUCH.get(name, ()) + self.dyn_touch
        if self.reassigned:
            target.ctor_defaults.discard(self.reassigned)
        log = ST.log
        self.check_handler_log("during-copy" if name == "copy" else fam)
        changed_kinds = ()
        other_affected = False
        notif_pattern = set()
        for t in tracked:
            fp0, val0 = pre[t.sn]
            fp1, val1 = post[t.sn]
            is_target = t is target and name != "copy"
            role = "target" if t is target else "other"
            kinds_changed = tuple([k for k in KINDS if fp0[k] != fp1[k]])
            # kinds an event may have reached without a change of contents
            t_touch = touch if is_target else ()
            if self.child_op is not None:
                t_touch = t_touch + _child_touch(t.obj, *self.child_op)
            for k in kinds_changed:
                if k in t.ctor_defaults:
                    # in-place change of a never-assigned default first touched during
                    # construction / __setstate__ / clone
                    self.count("ctor_touched_default_changes")
                    self.count("ctor_touched_default_changes_" +
                               ("fresh" if t.origin == "fresh" else "copy"))
                if k in "TNM":
                    self.count("child_container_changes")
            if t is target:
                changed_kinds = kinds_changed
            elif kinds_changed:
                other_affected = True
                self.count("nontarget_affected")
            for pname, (kinds, _c) in PROPS.items():
                cached = self.cached[pname]
                fp_changed = any(k in kinds_changed for k in kinds)
                v0, v1 = _val(val0, kinds), _val(val1, kinds)
                recs = [r for r in log if r[0] == t.sn and r[1] == pname]
                relevant = fp_changed or any(k in kinds for k in t_touch)
                if relevant:
                    self.count("relevant_changes")
                    t.last[pname] = fam
                if v0 != v1:
                    self.count("value_changes")
                    if pname in self.cls._cache_added:
                        sink.count("inherited_getter_cache_added_value_changes")
                    elif pname in self.cls._cache_dropped:
                        sink.count("inherited_getter_cache_dropped_value_changes")
                    if not t.mechs[pname]:
                        self.count("lazy_invalidations")
                    for mech in t.mechs[pname]:
                        sink.ev()
                        self.count("notifications_required")
                        self.count("notifications_required_" + mech)
                        mrecs = [r for r in recs if r[2] == mech]
                        kk = "%s/%s/%s/%s" % (mech, "cached" if cached else "uncached", fam,
                                              _okind(t.origin))
                        if not mrecs:
                            self.fail("notify/missing/" + kk,
                                      "%s (%s) of the %s object (origin %s) changed from %r to %r but "
                                      "the %s recorder got no notification"
                                      % (pname, "+".join(kinds), role, t.origin, v0, v1, mech),
                                      prop=pname)
                        if mrecs[-1][4] != v1:
                            self.fail("notify/last-notification-not-final/" + kk,
                                      "%s of the %s object ended at %r but the last %s notification "
                                      "saw %r" % (pname, role, v1, mech, mrecs[-1][4]), prop=pname)
                        notif_pattern.add(mech)
                elif not relevant and not is_target:
                    sink.ev()
                    self.count("nontarget_quiet_checks")
                    if recs:
                        self.fail("isolation/notified-without-change/%s/%s"
                                  % ("cached" if cached else "uncached",
                                     "copy-op" if name == "copy" else fam),
                                  "%s of the untouched %s object (origin %s) was notified (%d "
                                  "notifications) although none of its dependencies changed"
                                  % (pname, role, t.origin, len(recs)), prop=pname)
                if cached:
                    runs = ST.calls[(t.sn, pname)] - calls0[(t.sn, pname)]
                    w = t.win[pname]
                    if relevant:
                        w[0], w[1] = runs, (mult if is_target else 1)
                    else:
                        w[0] += runs
                    sink.ev()
                    self.count("cached_windows_checked")
                    if runs:
                        self.count("cached_getter_runs_in_op")
                    if w[0] > w[1]:
                        self.fail("recompute/during-op/%s/%s"
                                  % (fam if relevant else "no-relevant-change:" + fam,
                                     _okind(t.origin)),
                                  "cached getter of %s (%s) of the %s object (origin %s) ran %d times "
                                  "(allowed %d) %s" % (pname, "+".join(kinds), role, t.origin, w[0],
                                                       w[1], "for one relevant change" if relevant
                                                       else "without a relevant change"),
                                  prop=pname)
        # copy switch: the copy becomes the live object
        if new is not None:
            ST.log[:] = []
            self.phase = "attach-recorders"
            nt = self.track(new, op["x"][0])
            if new.probe:
                # `probe` was restored / copied with a non-default value, so its static handler
                # read every property -- and with them the transient list's default -- while the
                # copy was still being restored
                nt.ctor_defaults = {"R"}
            self.count("copies_made")
            self.count("copies_" + _okind(op["x"][0]))
            fpn, valn = _snap(new)
            post[nt.sn] = (fpn, valn)
            if valn != post[target.sn][1]:
                self.count("copy_state_differs_not_judged")
            tracked = list(self.tracked)
            post = {t.sn: post[t.sn] if t.sn in post else _snap(t.obj) for t in tracked}
        # reads
        self.phase = "read"
        live = self.tracked[-1]
        for t in tracked:
            if t is live or t is target:
                n = op["r"]
            else:
                n = op["or"]
            self.do_reads(t, n, op["m"], post[t.sn][1], fam,
                          "target" if t is target and new is None else
                          "copy" if new is not None and t is live else "other")
        self.check_excs("reads")
        if changed_kinds or other_affected or log or new is not None:
            sink.sig(self.spec["cls"], self.spec["listen"], name if name != "copy" else op["x"][0],
                     _okind(target.origin), changed_kinds, other_affected,
                     tuple(sorted(notif_pattern)), len(log) > 0)


def _diff_kinds(kinds, got, want):
    """Which dependency kind of the value is out of date (structural part of the key)."""
    if type(got) is tuple and len(got) == len(want) == len(kinds):
        # the first one only: combinations would multiply the keys of one defect
        return "dep=" + [k for k, g, w in zip(kinds, got, want) if g != w][0]
    return "dep=?"


def _okind(origin):
    return ("pickle" if origin.startswith("pickle") else
            "clone" if origin.startswith("clone") else origin)


# ---------------------------------------------------------------------------
def shrink(spec, ops, key, engine=None):
    """Greedy one-at-a-time removal keeping the same mechanism key."""
    engine = engine or History
    ops = list(ops)
    i = len(ops) - 2
    budget = 60
    while i >= 0 and budget > 0:
        trial = ops[:i] + ops[i + 1:]
        budget -= 1
        try:
            k = engine(NullSink(), spec, trial).run()
        except Exception:  # noqa: BLE001
            k = None
        if k == key:
            ops = trial
        i -= 1
    return ops


class _ShrinkingSink:
    """Forwards to ctx; on a violation adds a shrunk op list to the witness."""
    def __init__(self, ctx):
        self.ctx = ctx
        self.ev, self.count, self.sig = ctx.ev, ctx.count, ctx.sig
        self.sample, self.note = ctx.sample, ctx.note

    def violation(self, key, message, witness=None):
        if witness and self.ctx.viol_per_key.get(key, 0) < 3:
            saved = (ST.calls, ST.log, ST.excs, ST.probe, ST.serial)
            try:
                engine = {InstanceTraitHistory.pfx: InstanceTraitHistory,
                          ChurnHistory.pfx: ChurnHistory,
                          ComparisonModeHistory.pfx: ComparisonModeHistory,
                          ChainHistory.pfx: ChainHistory,
                          ChainDefaultsHistory.collapse: ChainDefaultsHistory,
                          ChainUncachedHistory.collapse: ChainUncachedHistory,
                          OverlapHistory.pfx: OverlapHistory,
                          }.get(witness.get("stratum"))
                small = shrink(witness["spec"], witness["ops"], key, engine)
                witness = dict(witness)
                witness["shrunk_ops"] = small
                message = "%s | shrunk history (%d ops): %s" % (
                    message, len(small), [dict(op=o["op"], x=o["x"]) for o in small][-6:])
            except Exception:  # noqa: BLE001
                pass
            finally:
                ST.calls, ST.log, ST.excs, ST.probe, ST.serial = saved
        self.ctx.violation(key, message, witness)


# ===========================================================================
# Small dedicated strata (own classes, own keys / counters, same laws):
#   instance-trait/...        the observed leaf is a per-INSTANCE trait (add_trait) of a nested
#                             object, with remove_trait / add_trait cycles
#   shared-owner-churn/...    long-lived nested objects shared by short-lived owners that are
#                             dropped, collected and replaced by bursts of fresh owners (so that
#                             addresses of dead owners get reused)

def _mini_getter(pname, fn):
    def getter(self):
        ST.calls[(self.sn, pname)] += 1
        return fn(self)
    getter.__name__ = "_get_" + pname
    return getter


def _mini_class(name, traits, props, static=()):
    """props: name -> (pure function, cached, observe expression[, getter function])."""
    ns = {"__module__": __name__, "__qualname__": name, "sn": Int(transient=True), "irr": Int}
    ns.update(traits)
    for pname, spec in props.items():
        fn, cached, expr = spec[:3]
        ns[pname] = Property(observe=expr)
        # optional 4th element: what the GETTER evaluates (e.g. through another property), when
        # it is not literally the oracle's function of the raw state
        g = _mini_getter(pname, spec[3] if len(spec) > 3 else fn)
        ns["_get_" + pname] = cached_property(g) if cached else g
    for pname in static:
        ns["_%s_changed" % pname] = _make_static(pname)
    cls = type(HasTraits)(name, (HasTraits,), ns)
    cls._mini_props = collections.OrderedDict((k, (v[0], v[1])) for k, v in props.items())
    cls._static_props = frozenset(static)
    return cls


class MiniRec:
    __slots__ = ("obj", "sn", "origin", "mechs", "win")


class MiniHistory:
    """Shared judge of the small strata: after every operation every LIVE owner is judged by
    the laws of the main stratum (reads == recomputation, cached getter at most once per
    relevant change, >= 1 notification per recorder when the value changed, handler reads
    coherent, untouched owners stay quiet)."""
    pfx = ""
    cpfx = ""
    collapse = None      # strata built around ONE open finding report every failure under one key

    def __init__(self, sink, spec, ops):
        self.sink, self.spec, self.ops = sink, spec, ops
        self.live = []
        self.trace = []
        self.step = -1

    # hooks --------------------------------------------------------------
    def fp(self, o):
        """prop -> comparable fingerprint of its dependencies (identity + values)."""
        raise NotImplementedError

    def fail(self, key, msg, **extra):
        w = {"spec": self.spec, "ops": self.trace, "step": self.step,
             "stratum": self.collapse or self.pfx}
        w.update(extra)
        if self.collapse and key.split("/")[0] in ("stale-read", "notify", "recompute",
                                                   "isolation"):
            # (exceptions keep their own key: they are never part of the finding)
            msg = "[%s] %s" % (key, msg)
            full = self.collapse
        else:
            full = self.pfx + key
        self.sink.violation(full, "%s [class %s, listen=%s, step %d, op %r]"
                            % (msg, self.spec["cls"], self.spec["listen"], self.step,
                               self.trace[-1] if self.trace else None), w)
        raise Stop(full)

    def count(self, name, n=1):
        self.sink.count(self.cpfx + name, n)

    def attach(self, obj, origin):
        r = MiniRec()
        r.obj, r.sn, r.origin = obj, ST.next_serial(), origin
        obj.sn = r.sn
        r.mechs, r.win = {}, {}
        mode, dyn = self.spec["listen"], self.spec["dyn"]
        for i, (pname, (fn, cached)) in enumerate(type(obj)._mini_props.items()):
            mechs = set()
            if pname in type(obj)._static_props:
                mechs.add("static")
            if dyn >> i & 1:
                if mode in ("otc", "both"):
                    obj.on_trait_change(_otc_handler, pname)
                    mechs.add("otc")
                if mode in ("obs", "both"):
                    obj.observe(_obs_handler, pname)
                    mechs.add("obs")
            r.mechs[pname] = mechs
            if cached:
                r.win[pname] = [0, 1]
        self.live.append(r)
        return r

    def judged_step(self, fam, fn, touched=None, mult=1, reads=1, mask=-1):
        """Run fn() as one operation; `touched` maps serial -> property names that an event
        may have reached without a change of the fingerprint (lenient window reset)."""
        sink = self.sink
        live = list(self.live)
        pre = {r.sn: (self.fp(r.obj), self.vals(r.obj)) for r in live}
        calls0 = {(r.sn, p): ST.calls[(r.sn, p)] for r in live for p in r.win}
        ST.log[:] = []
        ST.excs[:] = []
        self.count("ops")
        try:
            fn()
        except Stop:
            raise
        except Exception as e:  # noqa: BLE001
            self.fail("op-raised/%s/%s" % (fam, type(e).__name__),
                      "operation raised %r: %s" % (e, traceback.format_exc()[-600:]))
        if ST.excs:
            ch, name, tname, rep = ST.excs[0]
            self.fail("handler-exception/%s/%s" % (ch, tname),
                      "exception inside a notification handler: trait %r: %s" % (name, rep))
        log = list(ST.log)
        for sn, pname, mech, read, want, newarg in log:
            sink.ev()
            self.count("handler_reads_checked")
            if read != want:
                self.fail("notify/handler-read-stale/%s/%s" % (mech, fam),
                          "inside the %s handler for %s the property reads %r, recomputation "
                          "there gives %r" % (mech, pname, read, want), prop=pname)
        touched = touched or {}
        any_change = False
        for r in [x for x in live if x in self.live]:
            fp0, v0s = pre[r.sn]
            fp1, v1s = self.fp(r.obj), self.vals(r.obj)
            for pname, (f, cached) in type(r.obj)._mini_props.items():
                fp_changed = fp0[pname] != fp1[pname]
                relevant = fp_changed or pname in touched.get(r.sn, ())
                v0, v1 = v0s[pname], v1s[pname]
                recs = [x for x in log if x[0] == r.sn and x[1] == pname]
                ck = "cached" if cached else "uncached"
                if relevant:
                    self.count("relevant_changes")
                if v0 != v1:
                    any_change = True
                    self.count("value_changes")
                    for mech in r.mechs[pname]:
                        sink.ev()
                        self.count("notifications_required")
                        mrecs = [x for x in recs if x[2] == mech]
                        if not mrecs:
                            self.fail("notify/missing/%s/%s/%s" % (mech, ck, fam),
                                      "%s of owner #%d (%s) changed from %r to %r but the %s "
                                      "recorder got no notification"
                                      % (pname, r.sn, r.origin, v0, v1, mech), prop=pname)
                        if mrecs[-1][4] != v1:
                            self.fail("notify/last-notification-not-final/%s/%s/%s"
                                      % (mech, ck, fam),
                                      "%s of owner #%d ended at %r but the last %s notification "
                                      "saw %r" % (pname, r.sn, v1, mech, mrecs[-1][4]), prop=pname)
                elif not relevant:
                    sink.ev()
                    self.count("quiet_checks")
                    if recs:
                        self.fail("isolation/notified-without-change/%s/%s" % (ck, fam),
                                  "%s of owner #%d (%s) was notified although none of its "
                                  "dependencies changed" % (pname, r.sn, r.origin), prop=pname)
                if cached:
                    runs = ST.calls[(r.sn, pname)] - calls0[(r.sn, pname)]
                    w = r.win[pname]
                    if relevant:
                        w[0], w[1] = runs, mult
                    else:
                        w[0] += runs
                    sink.ev()
                    self.count("cached_windows_checked")
                    if w[0] > w[1]:
                        self.fail("recompute/during-op/%s"
                                  % (fam if relevant else "no-relevant-change:" + fam),
                                  "cached getter of %s of owner #%d ran %d times (allowed %d)"
                                  % (pname, r.sn, w[0], w[1]), prop=pname)
        # reads on every live owner
        for r in list(self.live):
            vals = self.vals(r.obj)
            for i, (pname, (f, cached)) in enumerate(type(r.obj)._mini_props.items()):
                if not (mask >> i & 1) or not reads:
                    continue
                c0 = ST.calls[(r.sn, pname)]
                for _ in range(reads):
                    got = getattr(r.obj, pname)
                    sink.ev()
                    self.count("reads_checked")
                    if got != vals[pname]:
                        self.fail("stale-read/%s/%s" % ("cached" if cached else "uncached", pname),
                                  "property %s of owner #%d (%s) reads %r, recomputation from the "
                                  "current state gives %r" % (pname, r.sn, r.origin, got,
                                                              vals[pname]), prop=pname)
                if cached:
                    w = r.win[pname]
                    w[0] += ST.calls[(r.sn, pname)] - c0
                    sink.ev()
                    self.count("cached_windows_checked")
                    if w[0] > w[1]:
                        self.fail("recompute/on-read/%s" % fam,
                                  "cached getter of %s of owner #%d ran %d times (allowed %d) since "
                                  "the last relevant change" % (pname, r.sn, w[0], w[1]),
                                  prop=pname)
        if any_change or log:
            sink.sig(self.pfx, self.spec["cls"], self.spec["listen"], fam, len(self.live) > 1,
                     sorted(set(x[2] for x in log)), any_change)

    def vals(self, o):
        return {p: f(o) for p, (f, c) in type(o)._mini_props.items()}

    def run(self):
        ST.reset()
        try:
            try:
                self.setup()
                for op in self.ops:
                    self.step += 1
                    self.trace.append(op)
                    self.one(op)
            except Stop:
                raise
            except Exception as e:  # noqa: BLE001
                self.fail("library-raised/%s" % type(e).__name__,
                          "unexpected %r: %s" % (e, traceback.format_exc()[-900:]))
        except Stop as st:
            return st.key
        return None


# ---- instance-trait stratum -------------------------------------------------
class Slot(HasTraits):
    base = Int(1)
    # `gain` is NOT declared: it is put on each instance with add_trait


def _g_slot(o):
    s = o.slot
    return None if s is None else s.gain


def _g_slot_base(o):
    s = o.slot
    return None if s is None else (s.base, s.gain)


def _g_slots(o):
    return tuple([s.gain for s in o.slots])


def _g_dslots(o):
    return tuple(sorted([(k, s.gain) for k, s in o.ds.items()]))


_IT_TRAITS = dict(slot=Instance(Slot, copy="ref"), slots=List(Instance(Slot), copy="ref"),
                  ds=Dict(Str, Instance(Slot), copy="ref"))
OG = _mini_class("OG", dict(_IT_TRAITS), collections.OrderedDict([
    ("cg", (_g_slot, True, "slot.gain")),
    ("ug", (_g_slot, False, "slot.gain")),
    ("cgb", (_g_slot_base, True, "slot.[gain,base]")),
    ("ch", (_g_slots, True, "slots.items.gain")),
    ("uh", (_g_slots, False, ["slots.items.gain"])),
    ("cd", (_g_dslots, True, "ds.items.gain")),
]), static=("cg", "ch", "uh"))
OGX = _mini_class("OGX", dict(_IT_TRAITS), collections.OrderedDict([
    ("cg", (_g_slot, True, _otrait("slot").trait("gain"))),
    ("ug", (_g_slot, False, _otrait("slot").trait("gain", optional=True))),
    ("cgb", (_g_slot_base, True, _otrait("slot").trait("gain") | _otrait("slot").trait("base"))),
    ("ch", (_g_slots, True, _otrait("slots").list_items().trait("gain"))),
    ("uh", (_g_slots, False, _otrait("slots").list_items().trait("gain", optional=True))),
    ("cd", (_g_dslots, True, [_otrait("ds").dict_items().trait("gain")])),
]), static=("cgb", "cd"))
IT_CLASSES = {"OG": OG, "OGX": OGX}


def _new_slot(v, flt):
    s = Slot()
    # the instance trait exists BEFORE the slot is attached to any owner
    s.add_trait("gain", Float(v + 0.5) if flt else Int(v))
    return s


def gen_it_history(rng, steps):
    spec = {"cls": rng.choice(sorted(IT_CLASSES)),
            "listen": rng.choice(["none", "otc", "obs", "both", "both"]),
            "dyn": rng.getrandbits(6) | rng.getrandbits(6)}
    ops = []
    for _ in range(steps):
        c = rng.random()
        op = {"r": rng.randrange(3), "m": rng.getrandbits(6) | rng.getrandbits(6),
              "sel": rng.randrange(12), "own": rng.randrange(4)}
        if c < 0.26:
            op["op"], op["x"] = "gain_set", [rng.randrange(5)]
        elif c < 0.40:
            op["op"], op["x"] = "cycle_keep", [rng.randrange(2)]
        elif c < 0.54:
            op["op"], op["x"] = "cycle_set", [rng.randrange(2), rng.randrange(4), rng.randrange(3)]
        elif c < 0.60:
            op["op"], op["x"] = "base_set", [rng.randrange(4)]
        elif c < 0.70:
            op["op"], op["x"] = "slot_set", [rng.randrange(-3, 8), rng.randrange(2)]
        elif c < 0.82:
            op["op"] = rng.choice(["slots_append", "slots_append", "slots_pop", "slots_assign",
                                   "slots_remove", "ds_set", "ds_set", "ds_del"])
            op["x"] = [rng.randrange(-3, 8), rng.randrange(2), rng.randrange(2)]
        elif c < 0.90:
            op["op"], op["x"] = "clone", []
        else:
            op["op"], op["x"] = "irr", []
        ops.append(op)
    return spec, ops


class InstanceTraitHistory(MiniHistory):
    pfx = "instance-trait/"
    cpfx = "insttrait_"

    def fp(self, o):
        s = o.slot
        g = (s, None if s is None else (s.trait("gain"), s.gain, s.base))
        ss = list(o.slots)
        h = (ss, [(x.trait("gain"), x.gain) for x in ss])
        dk = sorted(o.ds)
        dd = (dk, [o.ds[k] for k in dk], [(o.ds[k].trait("gain"), o.ds[k].gain) for k in dk])
        return {"cg": g, "ug": g, "cgb": g, "ch": h, "uh": h, "cd": dd}

    def setup(self):
        self.cls = IT_CLASSES[self.spec["cls"]]
        self.pool = [_new_slot(i, i % 2) for i in range(3)]
        o = self.cls(slot=self.pool[0], slots=[self.pool[0], self.pool[1], self.pool[1]],
                     ds={"k": self.pool[1]})
        self.attach(o, "fresh")

    def slots_of(self, o):
        out = [o.slot] if o.slot is not None else []
        out += list(o.slots) + [o.ds[k] for k in sorted(o.ds)]
        return out

    def pick(self, o, sel):
        """A slot: negative => brand new, else one held by the owner / another owner / pool."""
        c = self.slots_of(o)
        for r in self.live:
            if r.obj is not o:
                c += self.slots_of(r.obj)[:2]
        c += self.pool
        return c[sel % len(c)]

    def holders(self, slot):
        """serial -> properties that depend on `slot` right now."""
        out = {}
        for r in self.live:
            o = r.obj
            ps = set()
            if o.slot is slot:
                ps.update(("cg", "ug", "cgb"))
            if any(x is slot for x in o.slots):
                ps.update(("ch", "uh"))
            if any(x is slot for x in o.ds.values()):
                ps.add("cd")
            if ps:
                out[r.sn] = ps
        return out

    def one(self, op):
        name, x = op["op"], op["x"]
        r = self.live[-1] if op["own"] or len(self.live) == 1 else self.live[op["sel"] % len(self.live)]
        o = r.obj
        touched, mult, fam = None, 1, name
        if name == "gain_set":
            s = self.pick(o, op["sel"])
            v = x[0] + 0.5 if isinstance(s.gain, float) else x[0]

            def fn():
                s.gain = v
            fam = "gain-set"
        elif name in ("cycle_keep", "cycle_set"):
            # remove_trait + add_trait of the same name on a slot that is (usually) attached;
            # the re-added trait must be observed again.  remove_trait/add_trait themselves are
            # silent (enthought/traits#1047), so cycle_keep re-adds with the old value as
            # default (value unchanged) and cycle_set assigns a non-default value at the end
            # (one change event), both as ONE operation.
            s = self.pick(o, op["sel"])
            touched = self.holders(s)
            # cycle_keep keeps the type (an Int default cannot hold 2.5); cycle_set may switch it
            flt = isinstance(s.gain, float) if name == "cycle_keep" else bool(x[0])
            self.count("readd_cycles")
            if touched:
                self.count("readd_cycles_on_observed_slot")
            if name == "cycle_keep":
                def fn():
                    v = s.gain
                    s.remove_trait("gain")
                    s.add_trait("gain", Float(float(v)) if flt else Int(int(v)))
                fam = "readd-same-value"
            else:
                d, k = x[1], x[2]

                def fn():
                    s.remove_trait("gain")
                    s.add_trait("gain", Float(d + 0.5) if flt else Int(d))
                    s.gain = (d + 1.5 + k) if flt else (d + 1 + k)
                fam = "readd-then-set"
        elif name == "base_set":
            s = self.pick(o, op["sel"])

            def fn():
                s.base = x[0]
            fam = "class-trait-set"
        elif name == "slot_set":
            s = _new_slot(-x[0], x[1]) if x[0] < 0 else self.pick(o, x[0])
            if x[0] < 0:
                self.pool.append(s)
                del self.pool[:-4]

            def fn():
                o.slot = s
            fam = "slot-set"
        elif name.startswith("slots_") or name.startswith("ds_"):
            s = _new_slot(-x[0], x[1]) if x[0] < 0 else self.pick(o, x[0])
            touched = {r.sn: ("ch", "uh") if name.startswith("slots_") else ("cd",)}

            def fn():
                if name == "slots_append":
                    o.slots.append(s)
                elif name == "slots_pop":
                    if o.slots:
                        o.slots.pop(0 if x[2] else -1)
                elif name == "slots_remove":
                    if o.slots:
                        o.slots.remove(o.slots[op["sel"] % len(o.slots)])
                elif name == "slots_assign":
                    o.slots = [s, self.pick(o, op["sel"])] if x[2] else [s, s]
                elif name == "ds_set":
                    o.ds[DKEYS[x[2]]] = s
                else:
                    o.ds.pop(DKEYS[x[2]], None)
            fam = "container"
        elif name == "clone":
            holder = []

            def fn():
                holder.append(o.clone_traits())      # copy="ref": shares every slot
            fam = "clone-ref"
        else:
            def fn():
                o.irr += 1
            fam = "irrelevant"
        self.judged_step(fam, fn, touched, mult, reads=0)
        if name == "clone":
            self.attach(holder[0], "clone")
            self.count("clones")
            if len(self.live) > 3:
                del self.live[0]
        # the reads happen after a possible new owner was attached
        self.judged_step("reads", lambda: None, None, 1, reads=op["r"], mask=op["m"])


# ---- shared-owner-churn stratum ---------------------------------------------------
class Shared(HasTraits):
    v = Int
    tags = List(Int)


def _r_c1(o):
    return (o.own, None if o.sh is None else o.sh.v)


def _r_u1(o):
    return None if o.sh is None else o.sh.v


def _r_c2(o):
    return tuple([x.v for x in o.shs])


def _r_c3(o):
    return None if o.sh is None else tuple(o.sh.tags)


_R_TRAITS = dict(own=Int, sh=Instance(Shared), shs=List(Instance(Shared)))
OR = _mini_class("OR", dict(_R_TRAITS), collections.OrderedDict([
    ("c1", (_r_c1, True, "sh.v, own")),
    ("u1", (_r_u1, False, "sh.v")),
    ("c2", (_r_c2, True, "shs.items.v")),
    ("c3", (_r_c3, True, "sh.tags.items")),
]), static=("c1", "c2"))
ORN = _mini_class("ORN", dict(_R_TRAITS), collections.OrderedDict([
    ("c1", (_r_c1, True, ["sh.v", "own"])),
    ("u1", (_r_u1, False, _otrait("sh").trait("v"))),
    ("c2", (_r_c2, True, _otrait("shs").list_items().trait("v"))),
    ("c3", (_r_c3, True, _otrait("sh").trait("tags").list_items())),
]))
R_CLASSES = {"OR": OR, "ORN": ORN}


def gen_churn_history(rng, steps):
    spec = {"cls": rng.choice(sorted(R_CLASSES)),
            "listen": rng.choice(["none", "none", "otc", "obs", "both"]),
            "dyn": rng.getrandbits(4) | rng.getrandbits(4)}
    ops = []
    for _ in range(steps):
        c = rng.random()
        op = {"r": rng.randrange(3), "m": rng.getrandbits(4) | rng.getrandbits(4),
              "sel": rng.randrange(12)}
        if c < 0.22:
            op["op"], op["x"] = "drop", [rng.randrange(1, 4)]
        elif c < 0.44:
            op["op"], op["x"] = "spawn", [rng.randrange(1, 5), rng.randrange(8)]
        elif c < 0.50:
            op["op"], op["x"] = "drop_spawn", [rng.randrange(1, 4), rng.randrange(8)]
        elif c < 0.72:
            op["op"], op["x"] = "shared_v", [rng.randrange(3), rng.randrange(5)]
        elif c < 0.80:
            op["op"], op["x"] = "shared_tags", [rng.randrange(3), rng.randrange(3)]
        elif c < 0.87:
            op["op"], op["x"] = "own_set", [rng.randrange(4)]
        elif c < 0.94:
            op["op"], op["x"] = "rewire", [rng.randrange(3), rng.randrange(3)]
        else:
            op["op"], op["x"] = "irr", []
        ops.append(op)
    return spec, ops


class ChurnHistory(MiniHistory):
    pfx = "shared-owner-churn/"
    cpfx = "churn_"
    MAXLIVE = 5

    def fp(self, o):
        sh = o.sh
        shs = list(o.shs)
        a = (o.own, sh, None if sh is None else sh.v)
        return {"c1": a, "u1": a[1:], "c2": (shs, [x.v for x in shs]),
                "c3": (sh, None if sh is None else (id(sh.tags), tuple(sh.tags)))}

    def setup(self):
        self.cls = R_CLASSES[self.spec["cls"]]
        self.shared = [Shared(v=i) for i in range(3)]     # live for the whole history
        self.dead_ids = set()
        self.dropped = []           # weak references of dropped owners (never the owners)
        self.spawn(2, 0)

    def spawn(self, k, variant):
        for j in range(k):
            sh = self.shared
            o = self.cls(own=j, sh=sh[(variant + j) % 3],
                         shs=[sh[variant % 3], sh[(variant + 1 + j) % 3], sh[variant % 3]])
            self.count("owners_created")
            if id(o) in self.dead_ids:
                # allocated at the address of a collected owner that observed the same objects
                self.count("owner_address_reuse")
            r = self.attach(o, "spawn")
            del o
            # fill the caches right away (a later change must invalidate them)
            for pname in type(r.obj)._mini_props:
                getattr(r.obj, pname)
            for pname in r.win:
                r.win[pname] = [0, 1]
        while len(self.live) > self.MAXLIVE:
            self.drop_one(0)

    def drop_one(self, idx):
        import weakref
        r = self.live.pop(idx % len(self.live))
        i, w = id(r.obj), weakref.ref(r.obj)
        r.obj = None
        del r
        if w() is not None:
            gc.collect()
            self.count("gc_collect_needed")
        if w() is None:
            self.dead_ids.add(i)
            self.count("owners_collected")
        else:
            self.count("owners_not_collected")

    def one(self, op):
        name, x = op["op"], op["x"]
        sh = self.shared
        if name == "drop":
            for _ in range(min(x[0], len(self.live) - 1)):
                self.drop_one(op["sel"])
            fn, fam = (lambda: None), "drop"
        elif name == "spawn":
            fn, fam = (lambda: self.spawn(x[0], x[1])), "spawn"
        elif name == "drop_spawn":
            def fn():
                n = min(x[0], len(self.live))
                for _ in range(n):
                    self.drop_one(0)
                self.spawn(n, x[1])
            fam = "drop-then-spawn"
        elif name == "shared_v":
            def fn():
                sh[x[0]].v = x[1]
            fam = "shared-object-change"
            self.count("shared_changes")
        elif name == "shared_tags":
            def fn():
                if x[1]:
                    sh[x[0]].tags.append(x[1])
                elif sh[x[0]].tags:
                    sh[x[0]].tags.pop()
            fam = "shared-container-change"
            self.count("shared_changes")
        elif name == "own_set":
            o = self.live[op["sel"] % len(self.live)].obj

            def fn():
                o.own = x[0]
            fam = "own-trait"
        elif name == "rewire":
            o = self.live[op["sel"] % len(self.live)].obj

            def fn():
                if x[1] == 0:
                    o.sh = sh[x[0]]
                elif x[1] == 1:
                    o.shs.append(sh[x[0]])
                elif o.shs:
                    o.shs.pop()
            fam = "rewire"
            touched = {o.sn: ("c2",)} if x[1] else None
            self.judged_step(fam, fn, touched, 1, reads=op["r"], mask=op["m"])
            return
        else:
            o = self.live[op["sel"] % len(self.live)].obj

            def fn():
                o.irr += 1
            fam = "irrelevant"
        if name in ("drop", "spawn", "drop_spawn"):
            # structural operations: executed outside the judge (they create / destroy owners),
            # the judge then reads every live owner
            fn()
            self.judged_step(fam, lambda: None, None, 1, reads=op["r"], mask=op["m"])
        else:
            self.judged_step(fam, fn, None, 1, reads=op["r"], mask=op["m"])
            if fam.startswith("shared"):
                self.count("shared_changes_judged_on_owners", len(self.live))
                self.count("shared_changes_judged_on_address_reusing_owners",
                           len([r for r in self.live if id(r.obj) in self.dead_ids]))


# ---- comparison-mode stratum --------------------------------------------------------
# The dependency is declared with a comparison mode (none / identity / equality, given as enum
# member or as its integer, explicitly or implicitly as for Array) and receives successive
# values that are the IDENTICAL object, an EQUAL-BUT-DISTINCT object (2 -> 2.0 -> True -> 1,
# equal strings / tuples / value objects / lists / arrays, objects equal to everything, NaN and
# its twin, objects whose == raises) or an unequal one.  The getters of identity / none
# dependencies pass the object itself through (result compared by identity and type), so an
# equal-but-distinct value is a change of the computed value; the getters of equality
# dependencies return the value (compared with ==), so it is not (control).

class Ref:
    """What an identity-sensitive getter returns: the dependency's value itself.  Equal iff the
    very same object (and type).  Pickle / deepcopy keep the wrapped object shared with the
    trait value it came from (memo), so a cache entry that travels with a copy stays truthful."""

    def __init__(self, obj):
        self.obj = obj

    def __eq__(self, other):
        return type(other) is Ref and other.obj is self.obj

    def __ne__(self, other):
        return not self.__eq__(other)

    def __hash__(self):
        return id(self.obj)

    def __repr__(self):
        try:
            r = repr(self.obj)[:40]
        except Exception:  # noqa: BLE001
            r = "?"
        return "<%s %s @%x>" % (type(self.obj).__name__, r, id(self.obj) & 0xFFFFF)


class Token:
    """A small value object: equal by content, distinct by identity."""

    def __init__(self, text):
        self.text = text

    def __eq__(self, other):
        return isinstance(other, Token) and other.text == self.text

    def __hash__(self):
        return hash(self.text)

    def __repr__(self):
        return "Token(%r)" % (self.text,)


class AlwaysEqual:
    """Equal to everything (like unittest.mock.ANY)."""

    def __eq__(self, other):
        return True

    def __ne__(self, other):
        return False

    def __hash__(self):
        return 1

    def __repr__(self):
        return "AlwaysEqual()"


class RaisesOnEq:
    """Comparison is not defined (like arrays of more than one element)."""

    def __eq__(self, other):
        raise ValueError("comparison not defined")

    def __hash__(self):
        return 2

    def __repr__(self):
        return "RaisesOnEq()"


try:
    import numpy as _np
    from traits.api import Array as _Array
except Exception:  # noqa: BLE001 - the Array dependency is simply left out
    _np = _Array = None

from decimal import Decimal as _Decimal          # noqa: E402
from fractions import Fraction as _Fraction      # noqa: E402
from traits.api import Any as _Any, Tuple as _Tuple, ComparisonMode as _CMode  # noqa: E402


def _eqv(a, b):
    """a == b as a plain truth value; False when the comparison is not defined."""
    try:
        if _np is not None and (isinstance(a, _np.ndarray) or isinstance(b, _np.ndarray)):
            return (isinstance(a, _np.ndarray) and isinstance(b, _np.ndarray)
                    and a.shape == b.shape and bool((a == b).all()))
        return bool(a == b)
    except Exception:  # noqa: BLE001
        return False


def _cm_pools():
    """Fresh value pools (distinct objects per history)."""
    s1, s2 = "".join(["a", "b"]), "".join(["a", "b"])
    nan = float("nan")
    pools = {
        "any": [1, 1.0, True, 2, 2.0, _Fraction(2), _Decimal(2), 0, 0.0, False, -0.0, None, s1, s2,
                (1, 2), tuple([1, 2]), (1.0, 2), Token("t"), Token("t"), Token("u"), nan,
                float("nan"), AlwaysEqual(), RaisesOnEq(), RaisesOnEq(), frozenset([1]),
                frozenset([1.0]), b"ab", bytes(bytearray(b"ab")), 10 ** 20, 10 ** 20 + 0, 1e20],
        # values with a well-behaved == (equality-compared control dependencies)
        "well": [1, 1.0, True, 2, 2.0, _Fraction(2), 0, 0.0, False, None, s1, s2, (1, 2),
                 tuple([1, 2]), (1.0, 2), Token("t"), Token("t"), Token("u"), 10 ** 20, 1e20],
        "token": [Token("t"), Token("t"), Token("u"), Token("u"), None],
        "tuple": [(1, 2), tuple([1, 2]), (1.0, 2.0), (True, 2), (), (3,), tuple([3]),
                  (Token("t"),), (Token("t"),)],
        "str": [s1, s2, "c", "", "".join(["c"]), "ab" + ""],
        "list": [[1, 2], [1, 2], [], [3], [3], [1, 2, 3]],
    }
    if _np is not None:
        pools["array"] = [_np.array([1]), _np.array([1]), _np.array([1.0]), _np.array([1, 2]),
                          _np.array([1, 2]), _np.array([]), _np.array([]), _np.array([[1]]),
                          _np.array(1), _np.array(1)]
    return pools


class CMItem(HasTraits):
    pi = _Any(comparison_mode=_CMode.identity)
    pn = _Any(comparison_mode=_CMode.none)
    pe = _Any()


# dependency name -> (comparison mode, pool)
CM_DEPS = collections.OrderedDict([
    ("ai", ("identity", "any")), ("an", ("none", "any")), ("ae", ("equality", "well")),
    ("ti", ("identity", "token")), ("ui", ("identity", "tuple")), ("si", ("identity", "str")),
    ("li", ("identity", "list")), ("le", ("equality", "list")),
])
if _np is not None:
    CM_DEPS["arr"] = ("identity", "array")
CM_LEAVES = collections.OrderedDict([("pi", ("identity", "any")), ("pn", ("none", "any")),
                                     ("pe", ("equality", "well"))])


def _cm_ref(name):
    return lambda o: Ref(getattr(o, name))


def _cm_eq(name):
    return lambda o: ("eq", getattr(o, name))


def _cm_inner(leaf, ident=True):
    def fn(o):
        i = o.inner
        if i is None:
            return None
        x = getattr(i, leaf)
        return Ref(x) if ident else ("eq", x)
    return fn


def _cm_kids(o):
    return tuple([Ref(k.pi) for k in o.kids])


def _cm_all(o):
    i = o.inner
    return (Ref(o.ai), Ref(o.ti), None if i is None else Ref(i.pi))


def _cm_class(name, enum, exprs, static):
    ident = _CMode.identity if enum else int(_CMode.identity)
    none = _CMode.none if enum else int(_CMode.none)
    traits = dict(
        ai=_Any(comparison_mode=ident), an=_Any(comparison_mode=none), ae=_Any(),
        ti=Instance(Token, comparison_mode=ident), ui=_Tuple(comparison_mode=ident),
        si=Str(comparison_mode=ident), li=List(Int, comparison_mode=ident), le=List(Int),
        inner=Instance(CMItem), kids=List(Instance(CMItem)))
    t = _otrait
    E = (lambda s, e: e) if exprs else (lambda s, e: s)
    props = collections.OrderedDict([
        ("c_ai", (_cm_ref("ai"), True, E("ai", t("ai")))),
        ("u_ai", (_cm_ref("ai"), False, E(["ai"], [t("ai")]))),
        ("c_an", (_cm_ref("an"), True, E("an", t("an")))),
        ("c_ae", (_cm_eq("ae"), True, E("ae", t("ae")))),
        ("c_ti", (_cm_ref("ti"), True, E("ti", t("ti")))),
        ("c_ui", (_cm_ref("ui"), True, E("ui", t("ui")))),
        ("c_si", (_cm_ref("si"), True, E("si", t("si")))),
        ("c_li", (_cm_ref("li"), True, E("li", t("li")))),
        ("c_lii", ((lambda o: tuple(o.li)), True, E("li.items", t("li").list_items()))),
        ("c_lei", ((lambda o: tuple(o.le)), True, E("le.items", t("le").list_items()))),
        ("c_ipi", (_cm_inner("pi"), True, E("inner.pi", t("inner").trait("pi")))),
        ("u_ipi", (_cm_inner("pi"), False, E("inner.pi", t("inner").trait("pi")))),
        ("c_ipn", (_cm_inner("pn"), True, E("inner.pn", t("inner").trait("pn")))),
        ("c_ipe", (_cm_inner("pe", False), True, E("inner.pe", t("inner").trait("pe")))),
        ("c_kpi", (_cm_kids, True, E("kids.items.pi", t("kids").list_items().trait("pi")))),
        ("c_all", (_cm_all, True, E("ai, ti, inner.pi",
                                    t("ai") | t("ti") | t("inner").trait("pi")))),
    ])
    if _np is not None:
        traits["arr"] = _Array if enum else _Array(comparison_mode=ident)
        props["c_arr"] = (_cm_ref("arr"), True, E("arr", t("arr")))
    return _mini_class(name, traits, props, static=static)


CMA = _cm_class("CMA", True, False, ("c_ai", "c_ti", "c_ipi", "c_li"))
CMB = _cm_class("CMB", False, True, ("u_ai", "c_an", "c_kpi", "c_all", "c_si"))
CM_CLASSES = {"CMA": CMA, "CMB": CMB}
CM_NPROPS = len(CMA._mini_props)
# which properties read which direct dependency / which leaf of a child
CM_DEP_PROPS = {"ai": ("c_ai", "u_ai", "c_all"), "an": ("c_an",), "ae": ("c_ae",),
                "ti": ("c_ti", "c_all"), "ui": ("c_ui",), "si": ("c_si",),
                "li": ("c_li", "c_lii"), "le": ("c_lei",), "arr": ("c_arr",)}
CM_INNER_PROPS = ("c_ipi", "u_ipi", "c_ipn", "c_ipe", "c_all")
CM_COPY_KINDS = ("pickle2", "pickle4", "pickle5", "deepcopy", "clone", "clone_deep",
                 "clone_shallow")


def gen_cm_history(rng, steps):
    spec = {"cls": rng.choice(sorted(CM_CLASSES)),
            "listen": rng.choice(["none", "otc", "obs", "both", "both"]),
            "dyn": rng.getrandbits(CM_NPROPS) | rng.getrandbits(CM_NPROPS)}
    ops = []
    ndeps = len(CM_DEPS)
    for _ in range(steps):
        c = rng.random()
        op = {"r": rng.randrange(3), "m": rng.getrandbits(CM_NPROPS) | rng.getrandbits(CM_NPROPS),
              "sel": rng.randrange(12), "own": rng.randrange(4)}
        # how: 0 = the identical object again, 1-4 = an equal but distinct object (when the pool
        # has one), 5-9 = any pool value
        if c < 0.50:
            op["op"], op["x"] = "assign", [rng.randrange(ndeps), rng.randrange(10),
                                           rng.randrange(40)]
        elif c < 0.64:
            op["op"], op["x"] = "leaf_assign", [rng.randrange(3), rng.randrange(10),
                                                rng.randrange(40)]
        elif c < 0.71:
            op["op"], op["x"] = "inner_set", [rng.randrange(-4, 8)]
        elif c < 0.79:
            op["op"] = rng.choice(["kids_append", "kids_append", "kids_pop", "kids_assign",
                                   "kids_insert"])
            op["x"] = [rng.randrange(-4, 8), rng.randrange(3)]
        elif c < 0.84:
            op["op"], op["x"] = "list_inplace", [rng.randrange(2), rng.randrange(3),
                                                 rng.randrange(4)]
        elif c < 0.93:
            op["op"], op["x"] = "copy", [rng.choice(CM_COPY_KINDS)]
        else:
            op["op"], op["x"] = "irr", []
        ops.append(op)
    return spec, ops


class ComparisonModeHistory(MiniHistory):
    pfx = "comparison-mode/"
    cpfx = "cmode_"

    def fp(self, o):
        inner = o.inner
        kids = list(o.kids)
        out = {}
        for dep, props in CM_DEP_PROPS.items():
            if dep == "arr" and _np is None:
                continue
            x = getattr(o, dep)
            f = (Ref(x), tuple(x)) if dep in ("li", "le") else Ref(x)
            for p in props:
                out[p] = f
        fi = None if inner is None else (Ref(inner), Ref(inner.pi), Ref(inner.pn), Ref(inner.pe))
        for p in CM_INNER_PROPS:
            out[p] = fi
        out["c_all"] = (Ref(o.ai), Ref(o.ti), fi)
        out["c_kpi"] = ([Ref(k) for k in kids], [Ref(k.pi) for k in kids])
        return out

    def new_item(self, like=None):
        P = self.pools
        if like is not None:
            # a different child whose leaves are equal-but-distinct to those of `like`
            it = CMItem(pi=self.twin(like.pi, P["any"], 0), pn=self.twin(like.pn, P["any"], 1),
                        pe=self.twin(like.pe, P["well"], 2))
        else:
            n = len(self.items)
            it = CMItem(pi=P["any"][(3 * n) % len(P["any"])], pn=P["any"][(5 * n + 1) % len(P["any"])],
                        pe=P["well"][(7 * n + 2) % len(P["well"])])
        self.items.append(it)
        del self.items[:-6]
        return it

    def twin(self, cur, pool, salt):
        """An object of the pool that is == cur but not cur (else any other one)."""
        n = len(pool)
        for j in range(n):
            c = pool[(j + salt) % n]
            if c is not cur and _eqv(c, cur) and _eqv(cur, c):
                return c
        return pool[salt % n]

    def setup(self):
        self.cls = CM_CLASSES[self.spec["cls"]]
        P = self.pools = _cm_pools()
        self.items = []
        kw = dict(ai=P["any"][3], an=P["any"][0], ae=P["well"][3], ti=P["token"][0],
                  ui=P["tuple"][0], si=P["str"][0], li=P["list"][0], le=P["list"][0],
                  inner=self.new_item(), kids=[self.new_item(), self.new_item()])
        if _np is not None:
            kw["arr"] = P["array"][0]
        kw["kids"].append(kw["kids"][0])           # one child twice
        if self.spec["dyn"] & 1:
            o = self.cls(**kw)
        else:
            o = self.cls()
            for k in sorted(kw):
                setattr(o, k, kw[k])
        self.attach(o, "fresh")

    def children_of(self, o):
        out = [o.inner] if o.inner is not None else []
        return out + list(o.kids)

    def pick_child(self, o, sel):
        c = self.children_of(o)
        for r in self.live:
            if r.obj is not o:
                c += self.children_of(r.obj)[:2]
        c += self.items
        return c[sel % len(c)]

    def holders(self, child):
        out = {}
        for r in self.live:
            ps = set()
            if r.obj.inner is child:
                ps.update(CM_INNER_PROPS)
            if any(k is child for k in r.obj.kids):
                ps.add("c_kpi")
            if ps:
                out[r.sn] = ps
        return out

    def choose(self, cur, pool, how, idx):
        if how == 0:
            return cur
        if how <= 4:
            return self.twin(cur, pool, idx)
        return pool[idx % len(pool)]

    def classify(self, mode, cur, new):
        kind = ("identical" if new is cur else
                "equal-distinct" if (_eqv(cur, new) or _eqv(new, cur)) else "unequal")
        self.count("assign_%s_%s" % (mode, kind.replace("-", "_")))
        return "assign/%s/%s" % (mode, kind)

    def one(self, op):
        name, x = op["op"], op["x"]
        r = self.live[-1] if op["own"] or len(self.live) == 1 else \
            self.live[op["sel"] % len(self.live)]
        o = r.obj
        touched, fam = None, name
        if name == "assign":
            dep = list(CM_DEPS)[x[0] % len(CM_DEPS)]
            mode, pk = CM_DEPS[dep]
            cur = getattr(o, dep)
            new = self.choose(cur, self.pools[pk], x[1], x[2])
            fam = self.classify(mode, cur, new)
            # an event may be delivered without a change of the computed value (mode `none`,
            # list traits wrap every assigned list anew)
            touched = {r.sn: CM_DEP_PROPS[dep]}

            def fn():
                setattr(o, dep, new)
        elif name == "leaf_assign":
            ch = self.pick_child(o, op["sel"])
            leaf = list(CM_LEAVES)[x[0]]
            mode, pk = CM_LEAVES[leaf]
            cur = getattr(ch, leaf)
            new = self.choose(cur, self.pools[pk], x[1], x[2])
            touched = self.holders(ch)
            fam = "child-" + self.classify(mode, cur, new)
            if touched:
                self.count("leaf_assignments_on_observed_child")

            def fn():
                setattr(ch, leaf, new)
        elif name == "inner_set":
            if x[0] < 0:
                ch = self.new_item(like=o.inner) if x[0] < -1 else None
            else:
                ch = self.pick_child(o, x[0])
            touched = {r.sn: CM_INNER_PROPS}

            def fn():
                o.inner = ch
            fam = "inner-set"
        elif name.startswith("kids_"):
            kids = list(o.kids)
            ch = (self.new_item(like=kids[x[1] % len(kids)] if kids else None)
                  if x[0] < 0 else self.pick_child(o, x[0]))
            touched = {r.sn: ("c_kpi",)}

            def fn():
                if name == "kids_append":
                    o.kids.append(ch)
                elif name == "kids_insert":
                    o.kids.insert(x[1], ch)
                elif name == "kids_pop":
                    if o.kids:
                        o.kids.pop(0 if x[1] else -1)
                else:
                    o.kids = [ch, self.pick_child(o, op["sel"]), ch][:1 + x[1]]
            fam = "kids-container"
        elif name == "list_inplace":
            lst = o.li if x[0] else o.le
            touched = {r.sn: ("c_lii",) if x[0] else ("c_lei",)}

            def fn():
                if x[1] == 0:
                    lst.append(x[2])
                elif x[1] == 1:
                    if len(lst):
                        lst.pop()
                else:
                    lst[0:1] = [x[2], x[2]]
            fam = "list-in-place/" + ("identity" if x[0] else "equality")
        elif name == "copy":
            holder = []
            kind = x[0]

            def fn():
                if kind.startswith("pickle"):
                    holder.append(pickle.loads(pickle.dumps(o, int(kind[6:]))))
                elif kind == "deepcopy":
                    holder.append(copy.deepcopy(o))
                elif kind == "clone":
                    holder.append(o.clone_traits())
                else:
                    holder.append(o.clone_traits(copy=kind[6:]))
            fam = "copy/" + _okind(kind)
        else:
            def fn():
                o.irr += 1
            fam = "irrelevant"
        self.judged_step(fam, fn, touched, 1, reads=0)
        if name == "copy":
            self.attach(holder[0], x[0])
            self.count("copies")
            self.count("copies_" + _okind(x[0]))
            if len(self.live) > 3:
                del self.live[0]
        self.judged_step("reads", lambda: None, None, 1, reads=op["r"], mask=op["m"])


# ---- property-chain stratum --------------------------------------------------------------
# An intermediate node of the observe path is itself a Property, i.e. a trait whose value is
# never stored (announced with trait_property_changed only): a cursor into a list, a dict
# look-up, a pass-through of a nested object, a property with a setter over a shadow trait, a
# property over a property; cached and (one) uncached.  The dependents read THROUGH the
# intermediate property; the oracle recomputes from the stored traits.

def _pc_cur(o):
    items, i = o.items, o.index
    return items[i] if 0 <= i < len(items) else None


def _pc_deep(o):
    i = o.inner
    return None if i is None else i.sub


def _pc_look(o):
    return o.d.get(o.key)


def _pc_cur2(o):
    c = _pc_cur(o)
    return None if c is None else c.sub


def _v(x):
    return None if x is None else x.v


def _via(pname, then=None):
    """Getter body that reads through the intermediate property `pname`."""
    def fn(o):
        x = getattr(o, pname)
        if then is not None and x is not None:
            x = getattr(x, then)
        return _v(x)
    return fn


def _pc_set_sel(self, value):
    self.shadow = value


def _pc_class(name, exprs, static):
    t = _otrait
    E = (lambda s, e: e) if exprs else (lambda s, e: s)
    traits = dict(items=List(Instance(Item)), index=Int, inner=Instance(Item),
                  d=Dict(Str, Instance(Item)), key=Str("k"), shadow=Instance(Item),
                  _set_sel=_pc_set_sel)
    cur_e = E("index, items.items", t("index") | t("items").list_items())
    props = collections.OrderedDict([
        # the intermediate properties (judged like any other observed property)
        ("cur", (_pc_cur, True, cur_e)),
        ("ucur", (_pc_cur, False, E(["index", "items.items"],
                                    [t("index"), t("items").list_items()]))),
        ("pin", ((lambda o: o.inner), True, E("inner", t("inner")))),
        ("deep", (_pc_deep, True, E("inner.sub", t("inner").trait("sub")))),
        ("look", (_pc_look, True, E("key, d.items", t("key") | t("d").dict_items()))),
        ("sel", ((lambda o: o.shadow), True, E("shadow", t("shadow")))),
        ("cur2", (_pc_cur2, True, E("cur.sub", t("cur").trait("sub")),
                  (lambda o: None if o.cur is None else o.cur.sub))),
        # the dependents: the path goes through a property
        ("c_curv", ((lambda o: _v(_pc_cur(o))), True, E("cur.v", t("cur").trait("v")),
                    _via("cur"))),
        ("u_curv", ((lambda o: _v(_pc_cur(o))), False, E("cur.v", t("cur").trait("v")),
                    _via("cur"))),
        ("c_pinv", ((lambda o: _v(o.inner)), True, E("pin.v", t("pin").trait("v")), _via("pin"))),
        ("c_deepv", ((lambda o: _v(_pc_deep(o))), True, E("deep.v", t("deep").trait("v")),
                     _via("deep"))),
        ("c_lookv", ((lambda o: _v(_pc_look(o))), True, E("look.v", t("look").trait("v")),
                     _via("look"))),
        ("c_selv", ((lambda o: _v(o.shadow)), True, E("sel.v", t("sel").trait("v")), _via("sel"))),
        ("c_cursub", ((lambda o: _v(_pc_cur2(o))), True,
                      E("cur.sub.v", t("cur").trait("sub").trait("v")), _via("cur", "sub"))),
        ("c_cur2v", ((lambda o: _v(_pc_cur2(o))), True, E("cur2.v", t("cur2").trait("v")),
                     _via("cur2"))),
        ("c_ucurv", ((lambda o: _v(_pc_cur(o))), True, E("ucur.v", t("ucur").trait("v")),
                     _via("ucur"))),
        ("c_mix", ((lambda o: (_v(_pc_cur(o)), _v(o.inner))), True,
                   E("cur.v, inner.v", t("cur").trait("v") | t("inner").trait("v")),
                   (lambda o: (_v(o.cur), _v(o.inner))))),
    ])
    return _mini_class(name, traits, props, static=static)


PCA = _pc_class("PCA", False, ("c_curv", "c_lookv", "c_cur2v", "cur"))
PCB = _pc_class("PCB", True, ("u_curv", "c_pinv", "c_selv", "c_cursub", "c_ucurv"))
PC_CLASSES = {"PCA": PCA, "PCB": PCB}
PC_PROPS = list(PCA._mini_props)
PC_NPROPS = len(PC_PROPS)
PC_CUR = ("cur", "ucur", "cur2", "c_curv", "u_curv", "c_cursub", "c_cur2v", "c_ucurv", "c_mix")
PC_INNER = ("pin", "deep", "c_pinv", "c_deepv", "c_mix")
PC_LOOK = ("look", "c_lookv")
PC_SEL = ("sel", "c_selv")
# dependents whose intermediate property is UNCACHED (the old value is not known when it changes)
PC_VIA_UNCACHED = ("c_ucurv",)


def gen_chain_history(rng, steps):
    spec = {"cls": rng.choice(sorted(PC_CLASSES)),
            "listen": rng.choice(["none", "otc", "obs", "both", "both"]),
            "dyn": rng.getrandbits(PC_NPROPS) | rng.getrandbits(PC_NPROPS),
            "init": rng.choice(["kw", "kw", "late", "kw_index_first"])}
    ops = []
    for _ in range(steps):
        c = rng.random()
        op = {"r": rng.randrange(3), "m": rng.getrandbits(PC_NPROPS) | rng.getrandbits(PC_NPROPS),
              "sel": rng.randrange(12), "own": rng.randrange(4)}
        if c < 0.30:
            # bias: the item the chain currently ends at / one it ended at before / any
            op["op"], op["x"] = "item_v", [rng.randrange(10), rng.randrange(16), rng.randrange(5)]
        elif c < 0.42:
            op["op"], op["x"] = "index_set", [rng.randrange(-1, 5)]
        elif c < 0.56:
            op["op"] = rng.choice(["l_append", "l_insert", "l_pop", "l_del", "l_set", "l_set",
                                   "l_assign", "l_remove", "l_reverse", "l_extend", "l_setslice"])
            op["x"] = [rng.randrange(-4, 6), rng.randrange(-4, 16), rng.randrange(-4, 16)]
        elif c < 0.62:
            op["op"], op["x"] = "inner_set", [rng.randrange(-4, 16)]
        elif c < 0.69:
            op["op"], op["x"] = "item_sub", [rng.randrange(10), rng.randrange(16),
                                             rng.randrange(-5, 16)]
        elif c < 0.76:
            op["op"] = rng.choice(["d_set", "d_set", "d_del", "d_assign", "key_set", "key_set"])
            op["x"] = [rng.randrange(3), rng.randrange(-4, 16)]
        elif c < 0.81:
            op["op"], op["x"] = "shadowset", [rng.randrange(-4, 16), rng.randrange(2)]
        elif c < 0.85:
            op["op"], op["x"] = "compound", [rng.randrange(-1, 4), rng.randrange(-4, 16),
                                             rng.randrange(1, 8)]
        elif c < 0.93:
            op["op"], op["x"] = "copy", [rng.choice(COPY_KINDS)]
        else:
            op["op"], op["x"] = rng.choice(["irr", "item_w"]), [rng.randrange(16)]
        ops.append(op)
    return spec, ops


class ChainHistory(MiniHistory):
    pfx = "property-chain/"
    cpfx = "chain_"
    strict_uncached = False     # judge spurious invalidations through an uncached intermediate

    def fp(self, o):
        cur = _pc_cur(o)
        csub = None if cur is None else cur.sub
        inner = o.inner
        sub = None if inner is None else inner.sub
        look = _pc_look(o)
        sel = o.shadow
        f_curv = (cur, _v(cur))
        f_cs = (cur, csub, _v(csub))
        return {"cur": (cur,), "ucur": (cur,), "pin": (inner,), "deep": (inner, sub),
                "look": (look,), "sel": (sel,), "cur2": (cur, csub),
                "c_curv": f_curv, "u_curv": f_curv, "c_ucurv": f_curv,
                "c_pinv": (inner, _v(inner)), "c_deepv": (inner, sub, _v(sub)),
                "c_lookv": (look, _v(look)), "c_selv": (sel, _v(sel)),
                "c_cursub": f_cs, "c_cur2v": f_cs,
                "c_mix": (cur, _v(cur), inner, _v(inner))}

    def ends(self, o):
        """The objects the observed paths currently end at."""
        cur = _pc_cur(o)
        return [x for x in (cur, o.inner, _pc_deep(o), _pc_look(o), o.shadow,
                            None if cur is None else cur.sub) if x is not None]

    def reach(self, o):
        out, seen = [], set()
        inner = o.inner
        c = list(o.items) + [inner, None if inner is None else inner.sub, o.shadow]
        c += [o.d[k] for k in sorted(o.d)]
        c += [x.sub for x in c if x is not None]
        for x in c:
            if x is not None and id(x) not in seen:
                seen.add(id(x))
                out.append(x)
        return out

    def cands(self, o):
        out = self.reach(o)
        seen = set(id(x) for x in out)
        for r in self.live:
            if r.obj is not o:
                for x in self.reach(r.obj)[:3]:
                    if id(x) not in seen:
                        seen.add(id(x))
                        out.append(x)
        for x in self.pool + self.former:
            if id(x) not in seen:
                seen.add(id(x))
                out.append(x)
        return out

    def item(self, o, ref, none_ok=False):
        if ref < 0:
            if none_ok and ref == -1:
                return None
            it = Item(v=-ref % 4)
            if ref % 2:
                it.sub = Item(v=(-ref + 1) % 4)
            self.pool.append(it)
            del self.pool[:-6]
            return it
        c = self.cands(o)
        return c[ref % len(c)]

    def make(self):
        p = self.pool = [Item(v=0), Item(v=1), Item(v=2), Item(v=3)]
        p[0].sub = p[3]
        p[1].sub = Item(v=1)
        init = self.spec.get("init", "kw")
        kw = dict(items=[p[0], p[1], p[0]], inner=p[2], d={"k": p[1], "j": p[0]}, shadow=p[1])
        if init == "kw":
            o = self.cls(**kw)
        elif init == "kw_index_first":
            o = self.cls(index=1, key="j", **kw)
        else:
            o = self.cls()
            o.sel = kw["shadow"]             # through the property's setter
            o.d = kw["d"]
            o.inner = kw["inner"]
            o.items = kw["items"]
        return o

    def setup(self):
        self.cls = PC_CLASSES[self.spec["cls"]]
        self.former = []                   # items a path ended at earlier (bounded)
        self.attach(self.make(), "fresh")

    def remember(self, o):
        for x in self.ends(o):
            if not any(x is y for y in self.former):
                self.former.append(x)
        del self.former[:-8]

    def one(self, op):
        name, x = op["op"], op["x"]
        r = self.live[-1] if op["own"] or len(self.live) == 1 else \
            self.live[op["sel"] % len(self.live)]
        o = r.obj
        touched, mult, fam = None, 1, name
        self.remember(o)
        if name in ("item_v", "item_sub"):
            ends = self.ends(o)
            if x[0] < 5 and ends:
                it, where = ends[x[1] % len(ends)], "path-end"
            elif x[0] < 7 and self.former:
                it, where = self.former[x[1] % len(self.former)], "former-path-end"
            else:
                c = self.cands(o)
                it, where = c[x[1] % len(c)], "any"
            if any(it is y for y in ends):
                where = "path-end"
                self.count("changes_of_an_object_reached_through_a_property")
            if not self.strict_uncached:
                # an uncached intermediate cannot tell the maintainer its old value (own stratum)
                touched = {q.sn: PC_VIA_UNCACHED for q in self.live}
            if name == "item_v":
                def fn():
                    it.v = x[2] if it.v != x[2] else (x[2] + 1) % 5
                fam = "leaf-set/" + where
            else:
                new = self.item(o, x[2], none_ok=True)

                def fn():
                    it.sub = new
                fam = "item-sub-set/" + where
        elif name == "index_set":
            touched = {r.sn: PC_CUR}

            def fn():
                o.index = x[0]
            fam = "cursor-move"
        elif name.startswith("l_"):
            touched = {r.sn: PC_CUR}
            a, b = self.item(o, x[1]), self.item(o, x[2])

            def fn():
                lst = o.items
                n = len(lst)
                if name == "l_append":
                    lst.append(a)
                elif name == "l_insert":
                    lst.insert(x[0], a)
                elif name == "l_extend":
                    lst.extend([a, b])
                elif name == "l_pop":
                    if n:
                        lst.pop(x[0] % n)
                elif name == "l_del":
                    if n:
                        del lst[x[0] % n]
                elif name == "l_remove":
                    if n:
                        lst.remove(lst[x[0] % n])
                elif name == "l_set":
                    if n:
                        lst[x[0] % n] = a
                elif name == "l_setslice":
                    lst[max(0, x[0]):max(0, x[0]) + 1] = [a, b]
                elif name == "l_reverse":
                    lst.reverse()
                else:
                    o.items = [a, b, a][:1 + abs(x[0]) % 3]
                if len(o.items) > 7:
                    del o.items[7:]
            mult = 2             # (the trim is a second list event)
            fam = "list"
        elif name == "inner_set":
            new = self.item(o, x[0], none_ok=True)
            touched = {r.sn: PC_INNER}

            def fn():
                o.inner = new
            fam = "instance-set"
        elif name in ("d_set", "d_del", "d_assign", "key_set"):
            new = self.item(o, x[1])
            touched = {r.sn: PC_LOOK}

            def fn():
                if name == "d_set":
                    o.d[DKEYS[x[0]]] = new
                elif name == "d_del":
                    o.d.pop(DKEYS[x[0]], None)
                elif name == "d_assign":
                    o.d = {DKEYS[x[0]]: new, "k": self.item(o, x[1] + 1)}
                else:
                    o.key = DKEYS[x[0]]
            fam = "lookup"
        elif name == "shadowset":
            new = self.item(o, x[0], none_ok=True)
            touched = {r.sn: PC_SEL}

            def fn():
                if x[1]:
                    o.sel = new            # the property's setter
                else:
                    o.shadow = new
            fam = "shadow-set"
        elif name == "compound":
            new = self.item(o, x[1], none_ok=True)
            kw = {}
            if x[2] & 1:
                kw["index"] = x[0]
            if x[2] & 2:
                kw["inner"] = new
            if x[2] & 4:
                kw["items"] = [new or self.item(o, 0), self.item(o, x[1] + 1)]
            touched = {r.sn: PC_CUR + PC_INNER}
            mult = max(1, len(kw))

            def fn():
                o.trait_set(**kw)
            fam = "compound"
        elif name == "copy":
            holder = []
            kind = x[0]

            def fn():
                if kind.startswith("pickle"):
                    holder.append(pickle.loads(pickle.dumps(o, int(kind[6:]))))
                elif kind == "deepcopy":
                    holder.append(copy.deepcopy(o))
                elif kind == "clone":
                    holder.append(o.clone_traits())
                else:
                    holder.append(o.clone_traits(copy=kind[6:]))
            fam = "copy/" + _okind(kind)
        elif name == "item_w":
            c = self.cands(o)
            it = c[x[0] % len(c)]

            def fn():
                it.w += 1
            fam = "irrelevant"
        else:
            def fn():
                o.irr += 1
            fam = "irrelevant"
        self.judged_step(fam, fn, touched, mult, reads=0)
        if name == "copy":
            self.attach(holder[0], x[0])
            self.count("copies")
            self.count("copies_" + _okind(x[0]))
            if len(self.live) > 3:
                del self.live[0]
        elif name in ("item_v", "item_sub") and where == "path-end":
            self.count("path_end_changes_on_" + _okind(r.origin))
        self.judged_step("reads", lambda: None, None, 1, reads=op["r"], mask=op["m"])


class ChainDefaultsHistory(ChainHistory):
    """Own stratum of an open finding: the value of the intermediate property comes from state
    that never changed since the observers were installed (a per-instance default), so the
    property never announced itself and the object it evaluates to was never hooked."""
    collapse = "property-chain/intermediate-property-never-announced"
    cpfx = "chain_defaults_"

    def make(self):
        o = PC_DEFAULT_CLASSES[self.spec["cls"]]()
        if self.spec.get("init") == "late":
            o.irr = 1
        return o


def _pcd_class(name, base):
    return type(HasTraits)(name, (base,), {"__module__": __name__, "__qualname__": name,
                                           "inner": Instance(Item, ())})


PCAd = _pcd_class("PCAd", PCA)
PCBd = _pcd_class("PCBd", PCB)
PC_DEFAULT_CLASSES = {"PCA": PCAd, "PCB": PCBd}


def gen_chain_defaults_history(rng, steps):
    spec, _ = gen_chain_history(rng, 0)
    ops = []
    for _ in range(steps):
        op = {"r": 1 + rng.randrange(2), "m": -1, "sel": 0, "own": 1}
        if rng.random() < 0.8:
            op["op"], op["x"] = "item_v", [0, 1, rng.randrange(5)]     # the default nested object
        else:
            op["op"], op["x"] = "irr", [0]
        ops.append(op)
    return spec, ops


class ChainUncachedHistory(ChainHistory):
    """Own stratum of an open finding: the intermediate property is UNCACHED, its change is
    announced with old=Undefined, the hooks on the object it evaluated to before stay behind and
    a later change of that object invalidates the dependent although nothing relevant changed."""
    collapse = "property-chain/uncached-intermediate-property-keeps-hooks-on-former-value"
    cpfx = "chain_uncached_"
    strict_uncached = True


def gen_chain_uncached_history(rng, steps):
    spec, _ = gen_chain_history(rng, 0)
    ops = []
    for i in range(steps):
        op = {"r": 1, "m": 1 << PC_PROPS.index("c_ucurv"), "sel": 0, "own": 1}
        if i % 2 == 0:
            op["op"], op["x"] = "index_set", [rng.randrange(0, 3)]
        else:
            op["op"], op["x"] = "item_v", [5, rng.randrange(8), rng.randrange(5)]   # a former end
        ops.append(op)
    return spec, ops


# ---- overlapping-paths stratum ----------------------------------------------------------
# One Property declares SEVERAL observe paths that overlap: one path is a prefix of another
# (listed before or after it), paths run through the same names below different attributes that
# hold the SAME object, paths that only differ in the leaf, the same path twice through aliases,
# paths through a list of holders and through an attribute aliasing one of its elements, and
# two- / three-level variants.  The graphs have shared holders (owner.a is owner.b, a holder in
# owner.hs and in owner.a, two holders with one sub-holder, kids repeated in and shared between
# lists); histories cut one route, replace / mutate containers on the shared part, then change
# leaves.  Same laws as everywhere; a single mutation may legitimately reach a property once per
# declared path (the at-most-once window is per path and event).

class OKid(HasTraits):
    x = Int
    y = Int
    w = Int


class OHolder(HasTraits):
    kids = List(Instance(OKid))
    one = Instance(OKid)
    sub = Instance("OHolder")
    deep = Int          # 1: used as a sub-holder only (never gets a sub itself: no cycles)
    w = Int


def _ov_val(o, path):
    """Value of one observe path (tuple of tokens; 'items' = the elements of a list)."""
    if o is None:
        return None
    if not path:
        return o
    if path[0] == "items":
        rest = path[1:]
        return tuple([_ov_val(e, rest) for e in o])
    return _ov_val(getattr(o, path[0]), path[1:])


def _ov_fp(o, path):
    """Identity of every object on the path + the values at its end."""
    if o is None:
        return None
    if not path:
        return o
    if path[0] == "items":
        rest = path[1:]
        return tuple([_ov_fp(e, rest) for e in o])
    child = getattr(o, path[0])
    return (child if isinstance(child, HasTraits) else None, _ov_fp(child, path[1:]))


def _ov_fn(paths):
    def fn(o):
        return tuple([_ov_val(o, p) for p in paths])
    return fn


def _ov_expr(path):
    e = None
    for tok in path:
        if tok == "items":
            e = e.list_items()
        else:
            e = _otrait(tok) if e is None else e.trait(tok)
    return e


def _ov_paths(text):
    return tuple(tuple(p.strip().split(".")) for p in text.split(","))


# name -> (cached, the overlapping paths in declaration order)
OV_DECL = collections.OrderedDict([
    # one path is a PREFIX of the other below two attributes that may hold the same holder
    ("c_lf", (True, "a.kids.items.x, b.kids.items")),              # the longer one first
    ("c_sf", (True, "b.kids.items, a.kids.items.x")),              # the shorter one first
    ("u_lf", (False, "a.kids.items.x, b.kids.items")),
    ("c_one", (True, "a.one.x, b.one")),                           # prefix at an Instance
    ("c_one_sf", (True, "b.one, a.one.y")),
    ("c_self", (True, "a.kids.items.y, a.kids.items")),            # prefix through the SAME attribute
    # same names, different leaves / the same path twice through aliases
    ("c_div", (True, "a.kids.items.x, b.kids.items.y")),
    ("c_same", (True, "a.kids.items.x, b.kids.items.x")),
    ("u_same", (False, "b.kids.items.y, a.kids.items.y")),
    # three routes, three lengths
    ("c_tri", (True, "a.kids.items.x, b.kids.items, c.kids.items.y, c.one")),
    # one level deeper (holders sharing a sub-holder)
    ("c_sub", (True, "a.sub.kids.items.x, b.sub.kids.items, c.sub")),
    ("c_sub_sf", (True, "c.sub, b.sub.kids.items, a.sub.kids.items.y")),
    # a list of holders and an attribute that aliases one of its elements
    ("c_hs", (True, "hs.items.kids.items.x, a.kids.items")),
    ("c_hs_sf", (True, "b.kids.items.x, hs.items.kids.items")),
])
OV_PATHS = collections.OrderedDict((k, _ov_paths(v[1])) for k, v in OV_DECL.items())
OV_PROPS = list(OV_DECL)
OV_NPROPS = len(OV_PROPS)
OV_MAXPATHS = max(len(p) for p in OV_PATHS.values())


def _ov_class(name, form, static):
    traits = dict(a=Instance(OHolder), b=Instance(OHolder), c=Instance(OHolder),
                  hs=List(Instance(OHolder)))
    props = collections.OrderedDict()
    for i, (pname, (cached, text)) in enumerate(OV_DECL.items()):
        paths = OV_PATHS[pname]
        f = form if form != "mixed" else ("str", "strlist", "expr", "exprlist")[i % 4]
        if f == "str":
            e = text
        elif f == "strlist":
            e = [".".join(p) for p in paths]
        elif f == "expr":
            e = _ov_expr(paths[0])
            for p in paths[1:]:
                e = e | _ov_expr(p)
        else:
            e = [_ov_expr(p) for p in paths]
        props[pname] = (_ov_fn(paths), cached, e)
    return _mini_class(name, traits, props, static=static)


OVS = _ov_class("OVS", "str", ("c_lf", "c_one", "c_same", "c_sub", "c_hs_sf"))
OVX = _ov_class("OVX", "expr", ("c_sf", "u_lf", "c_div", "c_tri", "c_hs"))
OVM = _ov_class("OVM", "mixed", ())
OV_CLASSES = {"OVS": OVS, "OVX": OVX, "OVM": OVM}
OV_ROUTES = ("a", "b", "c")


def gen_overlap_history(rng, steps):
    spec = {"cls": rng.choice(sorted(OV_CLASSES)),
            "listen": rng.choice(["none", "otc", "obs", "both", "both"]),
            "dyn": rng.getrandbits(OV_NPROPS) | rng.getrandbits(OV_NPROPS),
            "init": rng.choice(["alias_all", "alias_ab", "alias_ab", "alias_bc", "distinct",
                                "late"])}
    ops = []
    for _ in range(steps):
        c = rng.random()
        op = {"r": rng.randrange(3), "m": rng.getrandbits(OV_NPROPS) | rng.getrandbits(OV_NPROPS),
              "sel": rng.randrange(12), "own": rng.randrange(4)}
        if c < 0.27:
            op["op"] = "leaf"
            op["x"] = [rng.randrange(10), rng.randrange(24), rng.randrange(2), rng.randrange(5)]
        elif c < 0.42:
            op["op"], op["x"] = "route_set", [rng.randrange(3), rng.randrange(-3, 12)]
        elif c < 0.55:
            op["op"] = "kids_assign"
            op["x"] = [rng.randrange(12), rng.randrange(4), rng.randrange(-4, 16),
                       rng.randrange(-4, 16)]
        elif c < 0.67:
            op["op"] = rng.choice(["k_append", "k_append", "k_insert", "k_pop", "k_set", "k_set",
                                   "k_extend", "k_remove", "k_clear", "k_reverse", "k_setslice"])
            op["x"] = [rng.randrange(12), rng.randrange(-3, 6), rng.randrange(-4, 16),
                       rng.randrange(-4, 16)]
        elif c < 0.72:
            op["op"], op["x"] = "one_set", [rng.randrange(12), rng.randrange(-5, 16)]
        elif c < 0.77:
            op["op"], op["x"] = "sub_set", [rng.randrange(12), rng.randrange(-3, 8)]
        elif c < 0.83:
            op["op"] = rng.choice(["hs_append", "hs_pop", "hs_set", "hs_assign", "hs_insert"])
            op["x"] = [rng.randrange(4), rng.randrange(-3, 12), rng.randrange(-3, 12)]
        elif c < 0.86:
            op["op"], op["x"] = "compound", [rng.randrange(1, 8), rng.randrange(-3, 12),
                                             rng.randrange(-3, 12)]
        elif c < 0.94:
            op["op"], op["x"] = "copy", [rng.choice(COPY_KINDS)]
        else:
            op["op"], op["x"] = rng.choice(["irr", "kid_w", "holder_w"]), [rng.randrange(24)]
        ops.append(op)
    return spec, ops


class OverlapHistory(MiniHistory):
    pfx = "overlapping-paths/"
    cpfx = "ovl_"

    def fp(self, o):
        return {p: tuple([_ov_fp(o, path) for path in paths]) for p, paths in OV_PATHS.items()}

    # -- the object graph ----------------------------------------------------
    def routes(self, o):
        """(route label, holder) for every direct route of the owner."""
        out = [(n, getattr(o, n)) for n in OV_ROUTES]
        out += [("hs", h) for h in o.hs]
        return [(n, h) for n, h in out if h is not None]

    def holders(self, o):
        out, seen = [], set()
        for n, h in self.routes(o):
            for x in (h, h.sub):
                if x is not None and id(x) not in seen:
                    seen.add(id(x))
                    out.append(x)
        return out

    def kids(self, o):
        out, seen = [], set()
        for h in self.holders(o):
            for k in list(h.kids) + [h.one]:
                if k is not None and id(k) not in seen:
                    seen.add(id(k))
                    out.append(k)
        return out

    def nroutes(self, o, h):
        """Over how many direct routes (incl. as a sub-holder) the owner reaches holder h."""
        return len([1 for n, x in self.routes(o) if x is h or x.sub is h])

    def hcands(self, o, deep=None):
        out = self.holders(o)
        seen = set(id(x) for x in out)
        for x in self.hpool:
            if id(x) not in seen:
                seen.add(id(x))
                out.append(x)
        if deep is not None:
            out = [h for h in out if bool(h.deep) == deep]
        return out

    def kcands(self, o):
        out = self.kids(o)
        seen = set(id(x) for x in out)
        for x in self.kpool:
            if id(x) not in seen:
                seen.add(id(x))
                out.append(x)
        return out

    def kid(self, o, ref, none_ok=False):
        if ref < 0:
            if none_ok and ref == -1:
                return None
            k = OKid(x=-ref % 4, y=(-ref + 1) % 3)
            self.kpool.append(k)
            del self.kpool[:-8]
            return k
        c = self.kcands(o)
        return c[ref % len(c)]

    def holder(self, o, ref, none_ok=True, deep=False):
        if ref < 0:
            if none_ok and ref == -1:
                return None
            h = OHolder(kids=[self.kid(o, -ref), self.kid(o, ref)][:-ref % 3], deep=int(deep))
            self.hpool.append(h)
            del self.hpool[:-8]
            return h
        c = self.hcands(o, deep)
        if not c:
            return self.holder(o, -2, none_ok, deep)
        return c[ref % len(c)]

    def make(self):
        K = [OKid(x=i % 4, y=i % 3) for i in range(6)]
        D = [OHolder(kids=[K[3], K[0]], one=K[3], deep=1), OHolder(kids=[K[4]], deep=1)]
        H = [OHolder(kids=[K[0], K[1], K[0]], one=K[0], sub=D[0]),
             OHolder(kids=[K[1], K[2]], one=K[2], sub=D[0]),
             OHolder(kids=[], sub=D[1])]
        self.kpool, self.hpool = K, H + D
        init = self.spec.get("init", "alias_ab")
        kw = {"alias_all": dict(a=H[0], b=H[0], c=H[0], hs=[H[0], H[1]]),
              "alias_ab": dict(a=H[0], b=H[0], c=H[1], hs=[H[1], H[0], H[1]]),
              "alias_bc": dict(a=H[1], b=H[0], c=H[0], hs=[H[2], H[0]]),
              "distinct": dict(a=H[0], b=H[1], c=H[2], hs=[]),
              "late": dict(a=H[1], b=H[1], c=H[0], hs=[H[1]])}[init]
        if init == "late":
            o = self.cls()
            for n in ("hs", "c", "b", "a"):
                setattr(o, n, kw[n])
        else:
            o = self.cls(**kw)
        return o

    def setup(self):
        self.cls = OV_CLASSES[self.spec["cls"]]
        # holders that lost one route of an owner while staying reachable over another one, and
        # the containers put on such holders afterwards (held strongly: no id() reuse)
        self.cut = []
        self.replaced = []
        self.attach(self.make(), "fresh")

    def reaching(self, h):
        """serial -> every property, for the live owners that reach holder h."""
        return {q.sn: OV_PROPS for q in self.live
                if any(x is h for x in self.holders(q.obj))}

    def note_cuts(self, o, before):
        """A route moved away from a holder that the owner still reaches: remember it."""
        after = self.holders(o)
        now = collections.Counter((m, id(x)) for m, x in self.routes(o))
        gone_routes = []
        for n, h in before:          # with multiplicity (a holder twice in the list)
            if now[(n, id(h))] > 0:
                now[(n, id(h))] -= 1
            else:
                gone_routes.append(h)
        for h in gone_routes:
            for x in (h, h.sub):
                if x is not None and any(x is y for y in after):
                    self.count("route_cut_holder_still_reachable")
                    if not any(x is y for y in self.cut):
                        self.cut.append(x)
        del self.cut[:-12]

    def one(self, op):
        name, x = op["op"], op["x"]
        r = self.live[-1] if op["own"] or len(self.live) == 1 else \
            self.live[op["sel"] % len(self.live)]
        o = r.obj
        touched, nev, fam = None, 1, name
        after = None
        if name == "leaf":
            mine = self.kids(o)
            hot = [k for h in self.replaced for k in h.kids if any(k is y for y in mine)]
            if x[0] < 3 and hot:
                k = hot[x[1] % len(hot)]
            elif x[0] < 8 and mine:
                k = mine[x[1] % len(mine)]
            else:
                c = self.kcands(o)
                k = c[x[1] % len(c)]
            where = "reachable" if any(k is y for y in mine) else "unreachable"
            if any(k is y for y in hot):
                where = "in-container-replaced-after-route-cut"
                self.count("leaf_changes_in_container_replaced_after_route_cut")
            attr = "xy"[x[2]]

            def fn():
                v = getattr(k, attr)
                setattr(k, attr, x[3] if v != x[3] else (x[3] + 1) % 5)
            fam = "leaf-set/" + where

            def after():
                if where != "unreachable":
                    self.count("leaf_changes_on_" + _okind(r.origin))
        elif name == "route_set":
            attr = OV_ROUTES[x[0]]
            new = self.holder(o, x[1])
            before = self.routes(o)
            touched = {r.sn: OV_PROPS}

            def fn():
                setattr(o, attr, new)
            fam = "route-set"

            def after():
                self.note_cuts(o, before)
        elif name == "compound":
            kw = {}
            for i, n in enumerate(OV_ROUTES):
                if x[0] >> i & 1:
                    kw[n] = self.holder(o, x[1 + i % 2] + i)
            before = self.routes(o)
            touched = {r.sn: OV_PROPS}
            nev = len(kw)

            def fn():
                o.trait_set(**kw)
            fam = "compound"

            def after():
                self.note_cuts(o, before)
        elif name.startswith("hs_"):
            a, b = self.holder(o, x[1], none_ok=False), self.holder(o, x[2], none_ok=False)
            before = self.routes(o)
            touched = {r.sn: OV_PROPS}
            nev = 2

            def fn():
                lst = o.hs
                n = len(lst)
                if name == "hs_append":
                    lst.append(a)
                elif name == "hs_insert":
                    lst.insert(x[0], a)
                elif name == "hs_pop":
                    if n:
                        lst.pop(x[0] % n)
                elif name == "hs_set":
                    if n:
                        lst[x[0] % n] = a
                else:
                    o.hs = [a, b, a][:x[0]]
                if len(o.hs) > 4:
                    del o.hs[4:]
            fam = "holder-list"

            def after():
                self.note_cuts(o, before)
        elif name == "kids_assign" or name.startswith("k_"):
            hs = self.holders(o)
            cut = [h for h in self.cut if any(h is y for y in hs)]
            if name == "kids_assign" and x[1] < 2 and cut:
                h = cut[x[0] % len(cut)]
            elif hs:
                h = hs[x[0] % len(hs)]
            else:
                h = self.hpool[x[0] % len(self.hpool)]
            touched = self.reaching(h)
            if name == "kids_assign":
                a, b = self.kid(o, x[2]), self.kid(o, x[3])
                new = [[a, b], [a, b, a], list(h.kids), [a]][x[1]]

                def fn():
                    h.kids = new
                fam = "container-replaced"
                was_cut = any(h is y for y in self.cut)
                self.count("container_replaced")
                if max([self.nroutes(q.obj, h) for q in self.live]) > 1:
                    self.count("container_replaced_on_holder_reached_by_several_routes")

                def after():
                    if was_cut:
                        self.count("container_replaced_on_holder_after_route_cut")
                        if not any(h is y for y in self.replaced):
                            self.replaced.append(h)
                        del self.replaced[:-6]
            else:
                a, b = self.kid(o, x[2]), self.kid(o, x[3])
                nev = 2

                def fn():
                    lst = h.kids
                    n = len(lst)
                    if name == "k_append":
                        lst.append(a)
                    elif name == "k_insert":
                        lst.insert(x[1], a)
                    elif name == "k_extend":
                        lst.extend([a, b])
                    elif name == "k_pop":
                        if n:
                            lst.pop(x[1] % n)
                    elif name == "k_remove":
                        if n:
                            lst.remove(lst[x[1] % n])
                    elif name == "k_set":
                        if n:
                            lst[x[1] % n] = a
                    elif name == "k_setslice":
                        lst[max(0, x[1]):max(0, x[1]) + 1] = [a, b]
                    elif name == "k_reverse":
                        lst.reverse()
                    else:
                        del lst[:]
                    if len(lst) > 6:
                        del lst[6:]
                fam = "container-mutated"
        elif name == "one_set":
            hs = self.holders(o) or self.hpool
            h = hs[x[0] % len(hs)]
            new = self.kid(o, x[1], none_ok=True)
            touched = self.reaching(h)

            def fn():
                h.one = new
            fam = "holder-instance-set"
        elif name == "sub_set":
            hs = [h for h in (self.holders(o) or self.hpool) if not h.deep] or \
                [h for h in self.hpool if not h.deep]
            h = hs[x[0] % len(hs)]
            new = self.holder(o, x[1], deep=True)
            touched = self.reaching(h)
            old = h.sub

            def fn():
                h.sub = new
            fam = "sub-holder-set"

            def after():
                # the old sub-holder may still be reached through another holder's sub
                if old is not None and old is not new:
                    for q in self.live:
                        if any(old is y for y in self.holders(q.obj)) and \
                                any(h is y for y in self.holders(q.obj)):
                            self.count("route_cut_holder_still_reachable")
                            if not any(old is y for y in self.cut):
                                self.cut.append(old)
        elif name == "copy":
            holder = []
            kind = x[0]

            def fn():
                if kind.startswith("pickle"):
                    holder.append(pickle.loads(pickle.dumps(o, int(kind[6:]))))
                elif kind == "deepcopy":
                    holder.append(copy.deepcopy(o))
                elif kind == "clone":
                    holder.append(o.clone_traits())
                else:
                    holder.append(o.clone_traits(copy=kind[6:]))
            fam = "copy/" + _okind(kind)
        elif name == "kid_w":
            c = self.kcands(o)
            k = c[x[0] % len(c)]

            def fn():
                k.w += 1
            fam = "irrelevant"
        elif name == "holder_w":
            c = self.hcands(o)
            h = c[x[0] % len(c)]

            def fn():
                h.w += 1
            fam = "irrelevant"
        else:
            def fn():
                o.irr += 1
            fam = "irrelevant"
        # one mutation may reach a property once per declared path
        self.judged_step(fam, fn, touched, nev * OV_MAXPATHS, reads=0)
        if after is not None:
            after()
        if name == "copy":
            new = holder[0]
            self.attach(new, x[0])
            self.count("copies")
            self.count("copies_" + _okind(x[0]))
            # the copy of a holder that is known to have lost a route is such a holder too when
            # it is the same object (shallow clones); deep copies start with a clean slate
            if len(self.live) > 3:
                del self.live[0]
        self.judged_step("reads", lambda: None, None, 1, reads=op["r"], mask=op["m"])


def midflight(ctx, rng):
    """Unjudged observation: reads made inside a change handler of the dependency itself
    (a static `_a_changed`) run before the observer that invalidates the cache."""
    ST.reset()
    o = PM(a=0)
    o.sn = ST.next_serial()
    for _ in range(20):
        if rng.random() < 0.5:
            o.cp, o.c_a
        ST.mid[:] = []
        o.a = rng.randrange(4)
        for pname, read, want in ST.mid:
            ctx.count("midflight_reads_not_judged")
            if read != want:
                ctx.count("midflight_stale_%s_not_judged" % ("cached" if PROPS[pname][1]
                                                             else "uncached"))
        # after the dispatch has finished the ordinary law holds again
        for pname in ("cp", "c_a", "up"):
            ctx.ev()
            ctx.count("reads_checked")
            if getattr(o, pname) != compute(o, PROPS[pname][0]):
                ctx.violation("stale-read/after-midflight-read/%s"
                              % ("cached" if PROPS[pname][1] else "uncached"),
                              "property %s stale after a read made inside _a_changed" % pname,
                              {"prop": pname})
                return


def run(ctx):
    from vf.ctx import CaseTimeout
    push_exception_handler(handler=_legacy_exc, reraise_exceptions=False, main=True)
    _obs_push_exception_handler(handler=_obs_exc, reraise_exceptions=False)
    sink = _ShrinkingSink(ctx)
    steps = 20
    nh = ctx.scale(2600, 90000)
    for h in range(nh):
        if not ctx.mine(h):
            continue
        # The property speaks of observe= dependencies only; the legacy depends_on strata the
        # prototype carried are switched off (a depends_on defect is not a C12 violation).
        legacy = False
        shared = False
        # every 4th round of histories: the getter is supplied / overridden below the class that
        # declares the observed Property (balanced over the shards)
        inherited = (h // ctx.nshards) % 4 == 3
        cid = ("dep:%d" if legacy else "depshared:%d" if shared else
               "inh:%d" if inherited else "h:%d") % h
        if not ctx.begin(cid):
            continue
        try:
            rng = ctx.rng("hist", h)
            if legacy:
                # legacy mechanism, no element reachable twice inside one object
                spec, ops = gen_history(rng, steps, legacy=True, unique=True)
            elif shared:
                # legacy mechanism with repeated / shared elements: one collapsed key
                spec, ops = gen_history(rng, steps, legacy=True, collapse=SHARED_KEY)
            elif inherited:
                spec, ops = gen_history(rng, steps, classes=INHERITED_GETTER_CLASSES)
            else:
                spec, ops = gen_history(rng, steps)
            History(sink, spec, ops).run()
            ctx.count("histories")
            if h < ctx.nshards:
                ctx.sample({"class": spec["cls"], "listeners": spec["listen"], "init": spec["init"],
                            "first_ops": [[o["op"], o["x"], "reads=%d" % o["r"]] for o in ops[:6]]})
        except CaseTimeout:
            ctx.timed_out({"case": cid})
            continue
        finally:
            ctx.end()
    # small dedicated strata (own keys and counters)
    for tag, gen, engine, n, steps2 in (
            ("it", gen_it_history, InstanceTraitHistory, ctx.scale(320, 9000), 25),
            ("churn", gen_churn_history, ChurnHistory, ctx.scale(320, 9000), 30),
            ("cm", gen_cm_history, ComparisonModeHistory, ctx.scale(288, 9000), 25),
            ("chain", gen_chain_history, ChainHistory, ctx.scale(352, 11000), 25),
            ("ovl", gen_overlap_history, OverlapHistory, ctx.scale(256, 9000), 25),
            # strata of open findings (every failure collapses into the finding's key)
            ("chain0", gen_chain_defaults_history, ChainDefaultsHistory, ctx.scale(48, 480), 4),
            ("chainu", gen_chain_uncached_history, ChainUncachedHistory, ctx.scale(48, 480), 8)):
        for h in range(n):
            if not ctx.mine(h):
                continue
            cid = "%s:%d" % (tag, h)
            if not ctx.begin(cid):
                continue
            try:
                spec, ops = gen(ctx.rng(tag, h), steps2)
                engine(sink, spec, ops).run()
                ctx.count(tag + "_histories")
                if h < 2 and ctx.shard < 2:
                    ctx.sample({"stratum": engine.collapse or engine.pfx, "class": spec["cls"],
                                "listeners": spec["listen"],
                                "first_ops": [[o["op"], o["x"]] for o in ops[:8]]})
            except CaseTimeout:
                ctx.timed_out({"case": cid})
                continue
            finally:
                ctx.end()
    nm = ctx.scale(160, 1600)
    for m in range(nm):
        if not ctx.mine(m):
            continue
        if not ctx.begin("mid:%d" % m):
            continue
        try:
            midflight(ctx, ctx.rng("mid", m))
        except CaseTimeout:
            ctx.timed_out({"case": "mid:%d" % m})
            continue
        finally:
            ctx.end()
    ctx.note("midflight_reads", "reads made inside a static change handler of the dependency itself "
             "(before the invalidating observer runs) are counted in midflight_* counters and "
             "are not judged; see META assumptions")
    ctx.note("depends_on_strata", "switched off: the property is about Property(observe=...); the legacy "
             "depends_on mechanism (which goes stale when an element reachable twice loses one "
             "occurrence, see DESIGN.md 5.3) is outside its statement")
