"""C14 sub-check A, family `ident`: identity-hashed mutable objects as SET MEMBERS and DICT KEYS.

Hashable does not mean immutable: every HasTraits instance and every plain Python object
hashes by identity and may carry mutable containers.  A copy that treats the members of
a set or the keys of a dict as values (and therefore shares them with the original) looks
right to every `==` comparison -- the copy's set even compares equal to the original's,
it holds the very same objects.  This family therefore compares object GRAPHS:

* sharing: no object or mutable container reachable from the copy through traits whose
  copy policy is deep is an object of the original (the step at which the original's
  object is met -- set member, dict key, dict value, list item, tuple item ... and the
  type of the holding container -- is the mechanism key);
* value equality: nodes carry unique names; the name-labelled graph of the copy equals
  the original's (sets as sets of labelled members, dicts by labelled keys);
* graph consistency: one object of the original reachable along two deep-policy paths
  (in `shapes` and in `selected`, a dict key that is also its own value, a member of two
  sets) is ONE object in the copy;
* liveness: the rebuilt sets / dicts reject invalid members / keys / values, accept a
  new member with exactly-once notification on the copy (items handler, observer, an
  observer looking THROUGH the set members at their lists) and none on the original;
  every member and key of the copy is then mutated and the original must be unchanged.

Placement family: Set(Instance) (copy='deep' from the trait type, plus 'shallow', 'ref',
transient), Dict(Instance, Float) and Dict(Instance, Instance) with copy='deep'
metadata and a Dict without (judged only where the mode itself is deep: pickle,
clone_traits(copy='deep'); its behaviour under copy.deepcopy belongs to the known
by-reference finding and is left to the `obj` family), sets as Dict values and List
items, Set(Any) / Dict(Any, Any) holding plain objects, tuples and frozensets that wrap
objects, sets nested in members, cycles through members, and Any(copy='deep') holding
plain set / dict and standalone TraitSet / TraitDict / TraitList values.  The container
values themselves also go through copy.deepcopy and pickle directly.
"""
import collections
import copy as copy_mod
import pickle

from traits.api import (
    HasTraits, TraitError, Any, Int, Float, Str, List, Dict, Set, Instance, observe,
)
from traits.trait_list_object import TraitList
from traits.trait_dict_object import TraitDict
from traits.trait_set_object import TraitSet

from vf.util import short
from vf.monitors import _c14_objs as A

ILOG = []


def _log(obj, tag):
    ILOG.append((obj, tag))


class Tok:
    """A plain (picklable, identity-hashed) object with mutable content."""

    def __init__(self, name):
        self.name = name
        self.trail = [name]

    def __repr__(self):
        return "Tok(%s)" % self.name


class KShape(HasTraits):
    name = Str
    points = List(Int)
    owner = Instance(HasTraits)
    mates = Set(Instance("KShape"))

    def _points_items_changed(self, event):
        _log(self, "shape:points_items")


class KScene(HasTraits):
    name = Str
    shapes = List(Instance(KShape))
    focus = Instance(KShape)
    selected = Set(Instance(KShape))
    weights = Dict(Instance(KShape), Float, copy="deep")
    links = Dict(Instance(KShape), Instance(KShape), copy="deep")
    plainw = Dict(Instance(KShape), Float)
    index = Dict(Str, Set(Instance(KShape)), copy="deep")
    groups = List(Set(Instance(KShape)))
    toks = Set(Any)
    tokmap = Dict(Any, Any, copy="deep")
    bag = Any(copy="deep")
    sel_sh = Set(Instance(KShape), copy="shallow")
    sel_ref = Set(Instance(KShape), copy="ref")
    t_sel = Set(Instance(KShape), transient=True)
    tags = Set(Str)
    sizes = Dict(Str, Int)

    def _selected_items_changed(self, event):
        _log(self, "selected_items")

    def _weights_items_changed(self, event):
        _log(self, "weights_items")

    @observe("selected.items")
    def _o_selected(self, event):
        _log(self, "o:selected.items")

    @observe("weights.items")
    def _o_weights(self, event):
        _log(self, "o:weights.items")

    @observe("selected:items:points:items")
    def _o_through(self, event):
        _log(self, "o:selected.items.points.items")


SCENE_PERSISTENT = ("name", "shapes", "focus", "selected", "weights", "links", "plainw", "index", "groups",
                    "toks", "tokmap", "bag", "sel_sh", "sel_ref", "tags", "sizes")
SCENE_TRANSIENT = ("t_sel",)
SHAPE_PERSISTENT = ("name", "points", "owner", "mates")
TOK_ATTRS = ("name", "trail")
A.EXTRA_PERSISTENT[KScene] = SCENE_PERSISTENT
A.EXTRA_PERSISTENT[KShape] = SHAPE_PERSISTENT

IMODES = A.COPY_MODES + [
    ("clone-all-deep", "clone-all-deep", lambda o: o.clone_traits(traits="all", copy="deep")),
]


def is_node(x):
    return isinstance(x, (HasTraits, Tok))


def attrs_of(n):
    if isinstance(n, KScene):
        return SCENE_PERSISTENT + SCENE_TRANSIENT
    if isinstance(n, KShape):
        return SHAPE_PERSISTENT
    if isinstance(n, Tok):
        return TOK_ATTRS
    return ()


# --------------------------------------------------------------------------- states
def make_scene(rng):
    """(scene, feature vector).  Every node has a unique name."""
    n = rng.randint(2, 6)
    shapes = [KShape(name="s%d" % i, points=[rng.randint(0, 9) for _ in range(rng.randint(0, 3))]) for i in range(n)]
    toks = [Tok("t%d" % i) for i in range(rng.randint(1, 3))]
    S = KScene(name="root")

    def some(p=0.5, pool=shapes):
        return [x for x in pool if rng.random() < p]
    S.shapes = some(0.7)
    if rng.random() < 0.6:
        S.focus = rng.choice(shapes)
    S.selected = set(some(0.6))
    for k in some(0.5):
        S.weights[k] = rng.randint(0, 9) / 2.0
    for k in some(0.4):
        S.links[k] = k if rng.random() < 0.4 else rng.choice(shapes)
    for k in some(0.4):
        S.plainw[k] = 1.5
    for g in rng.sample(["g0", "g1"], rng.randint(0, 2)):
        S.index[g] = set(some(0.5))
    for _ in range(rng.randint(0, 2)):
        S.groups.append(set(some(0.5)))
    for _ in range(rng.randint(0, 4)):
        c = rng.randrange(6)
        if c == 0:
            S.toks.add(rng.choice(toks))
        elif c == 1:
            S.toks.add((rng.choice(shapes), rng.randint(0, 3)))
        elif c == 2:
            S.toks.add(frozenset({rng.choice(toks)}))
        elif c == 3:
            S.toks.add(rng.choice(shapes))
        elif c == 4:
            S.toks.add((rng.choice(toks), (rng.choice(shapes),)))
        else:
            S.toks.add(rng.choice([5, "str", (1, 2)]))
    for _ in range(rng.randint(0, 3)):
        c = rng.randrange(4)
        key = [rng.choice(toks), (rng.choice(shapes), "k"), rng.choice(shapes), "plain"][c]
        S.tokmap[key] = rng.choice([rng.choice(shapes), [1, 2], rng.choice(toks), 7, {"z": [1]}])
    c = bagkind = rng.randrange(8)
    if c == 0:
        S.bag = set(some(0.6))
    elif c == 1:
        S.bag = {k: [1] for k in some(0.6)}
    elif c == 2:
        S.bag = TraitSet(some(0.6))
    elif c == 3:
        S.bag = TraitDict({k: [2] for k in some(0.6)})
    elif c == 4:
        S.bag = TraitList(some(0.6))
    elif c == 5:
        S.bag = [set(some(0.5)), {rng.choice(toks): rng.choice(shapes)}]
    S.sel_sh = set(some(0.4))
    S.sel_ref = set(some(0.4))
    S.t_sel = set(some(0.4))
    S.tags = set(rng.sample(["x", "y", "z"], rng.randint(0, 3)))
    S.sizes = {k: rng.randint(0, 9) for k in rng.sample(["a", "b"], rng.randint(0, 2))}
    for s in some(0.3):
        s.owner = S
    for s in some(0.3):
        s.mates = set(x for x in some(0.4) if x is not s)
    # a short history of set / dict mutators
    for _ in range(rng.randint(0, 6)):
        c = rng.randrange(9)
        x = rng.choice(shapes)
        try:
            if c == 0:
                S.selected.add(x)
            elif c == 1:
                S.selected.discard(x)
            elif c == 2:
                S.selected ^= set(some(0.4))
            elif c == 3:
                S.selected |= set(some(0.3))
            elif c == 4:
                S.weights[x] = 4.5
            elif c == 5:
                S.weights.pop(x, None)
            elif c == 6:
                S.weights.update({y: 0.5 for y in some(0.3)})
            elif c == 7:
                x.points.append(rng.randint(0, 9))
            else:
                S.selected.add("invalid")
        except TraitError:
            pass
    del ILOG[:]
    feat = (len(S.selected) > 0, len(S.weights) > 0, any(k is v for k, v in S.links.items()),
            any(not any(s is x for x in S.shapes) for s in S.selected), len(S.toks) > 0, min(bagkind, 6))
    return S, feat


# --------------------------------------------------------------------------- walks
def _mutable_inside(x, memo):
    """Does the (immutable) tuple / frozenset x wrap a mutable object?"""
    if id(x) in memo:
        return memo[id(x)]
    memo[id(x)] = False
    r = False
    for e in x:
        if is_node(e) or A.is_cont(e):
            r = True
        elif isinstance(e, (tuple, frozenset)) and _mutable_inside(e, memo):
            r = True
    memo[id(x)] = r
    return r


def reach(root):
    """id -> object for everything mutable reachable from root (nodes, containers) and for
    every tuple / frozenset wrapping something mutable.  All traits, no policy."""
    seen, wrap = {}, {}
    stack = [root]
    while stack:
        x = stack.pop()
        if id(x) in seen:
            continue
        if is_node(x):
            seen[id(x)] = x
            for nm in attrs_of(x):
                stack.append(getattr(x, nm))
        elif A.is_cont(x):
            seen[id(x)] = x
            stack.extend(A.children_of(x))
        elif isinstance(x, (tuple, frozenset)):
            if _mutable_inside(x, wrap):
                seen[id(x)] = x
                stack.extend(x)
    return seen


def _step_children(y):
    """[(child, step)] of a container / wrapper y."""
    tn = type(y).__name__
    if isinstance(y, dict):
        return [(k, tn + ".dict-key") for k in y.keys()] + [(v, tn + ".dict-value") for v in y.values()]
    if isinstance(y, (set, frozenset)):
        return [(e, tn + ".set-member") for e in y]
    if isinstance(y, list):
        return [(e, tn + ".list-item") for e in y]
    if isinstance(y, tuple):
        return [(e, tn + ".tuple-item") for e in y]
    return []


def walk_copy(C, mclass, oids):
    """Walk the copy along the traits whose effective policy is deep (pickle: all).
    Returns (shared, names, skipped) with
      shared: [(step, description)] objects of the original met in the copy,
      names:  name -> {id: set of steps by which that object was reached},
      skipped: number of traits left to another family (no copy metadata under deepcopy)."""
    shared = []
    names = collections.defaultdict(dict)
    seen = set()
    skipped = [0]

    def value(v, step):
        stack = [(v, step)]
        while stack:
            y, st = stack.pop()
            if is_node(y):
                names[(type(y).__name__, y.name)].setdefault(id(y), set()).add(st)
                if id(y) in oids:
                    shared.append((st, "%s %r" % (type(y).__name__, y.name)))
                    continue
                node(y)
            elif A.is_cont(y) or isinstance(y, (tuple, frozenset)):
                if id(y) in seen:
                    continue
                seen.add(id(y))
                if id(y) in oids:
                    shared.append((st, type(y).__name__))
                    continue
                stack.extend(_step_children(y))

    def node(n):
        if id(n) in seen:
            return
        seen.add(id(n))
        for nm in attrs_of(n):
            if isinstance(n, HasTraits):
                meta = n.base_trait(nm).copy
                if meta is None and mclass == "deepcopy":
                    skipped[0] += 1
                    continue
                if A.effective(mclass, meta) != "deep":
                    continue
            value(getattr(n, nm), "%s.attr" % type(n).__name__)
    names[(type(C).__name__, getattr(C, "name", "?"))].setdefault(id(C), set()).add("root")
    node(C)
    return shared, names, skipped[0]


def odd_step(per_id):
    """{id: steps} of the several copy objects standing for ONE original object -> the step that
    names the split: the first step of the object reached along the fewest kinds of path."""
    odd = sorted(per_id.values(), key=lambda st: (len(st), sorted(st)))[0]
    return sorted(odd)[0]


def canon(root):
    """Name-labelled graph: {(class, name): [labelled attributes of every distinct object bearing
    that name]} (one entry per name in a well-formed state); nodes appear as ('ref', class, name),
    sets as frozensets, dicts as frozensets of (key, value) pairs."""
    table = {}
    stack = [root]

    def lab(x):
        if is_node(x):
            stack.append(x)
            return ("ref", type(x).__name__, x.name)
        if isinstance(x, dict):
            return ("dict", type(x).__name__, frozenset((lab(k), lab(v)) for k, v in x.items()))
        if isinstance(x, (set, frozenset)):
            return ("set", type(x).__name__, frozenset(lab(e) for e in x))
        if isinstance(x, (list, tuple)):
            return (type(x).__name__,) + tuple(lab(e) for e in x)
        return (type(x).__name__, x)
    while stack:
        n = stack.pop()
        per = table.setdefault((type(n).__name__, n.name), {})
        if id(n) in per:
            continue
        per[id(n)] = None
        per[id(n)] = {nm: lab(getattr(n, nm)) for nm in attrs_of(n) if nm not in SCENE_TRANSIENT}
    out = {}
    for key, per in table.items():
        uniq = []
        for attrs in per.values():
            if attrs not in uniq:
                uniq.append(attrs)
        out[key] = uniq
    return out


def canon_diff(a, b):
    """None or (node key, trait name, description) of the first difference."""
    if a == b:
        return None
    for key in sorted(a, key=repr):
        if key not in b:
            return (key, "?", "object %r missing in the copy" % (key,))
        if a[key] != b[key]:
            x = a[key][0]
            for y in b[key]:
                for nm in x:
                    if x[nm] != y.get(nm):
                        return (key, nm, "%s vs %s" % (short(x[nm], 90), short(y.get(nm), 90)))
            return (key, "?", "%d vs %d distinct contents under one name" % (len(a[key]), len(b[key])))
    extra = sorted(set(b) - set(a), key=repr)
    return (extra[0] if extra else "?", "?", "objects only in the copy: %r" % (extra[:3],))


TRAIT_KIND = {
    "shapes": "list-item", "focus": "attr", "selected": "set-member", "weights": "dict-key",
    "links": "dict-key+value", "plainw": "dict-key.no-copy-metadata", "index": "dict-value.set-member",
    "groups": "list-item.set-member", "toks": "set-member.any", "tokmap": "dict-key.any", "bag": "any.copy-deep",
    "sel_sh": "set-member.copy-shallow", "sel_ref": "set-member.copy-ref", "tags": "set-member.str",
    "sizes": "dict.str", "name": "scalar", "points": "member.list", "owner": "member.backref",
    "mates": "member.set-member", "trail": "plain-object.list", "?": "?",
}


# --------------------------------------------------------------------------- liveness
class Stop(Exception):
    pass


def battery(ctx, rng, mode, mclass, O, C, oids, fail):
    def rejected(what, action):
        try:
            action()
            out = "ok"
        except TraitError:
            out = "TE"
        except Exception as e:  # noqa: BLE001
            out = type(e).__name__
        ctx.ev()
        if out != "TE":
            fail("invalid-%s-%s" % (what, "accepted" if out == "ok" else "wrong-exception"),
                 "%s on the copy gave %s" % (what, out))
        ctx.count("ident_rejections")

    def expect(what, action, expected):
        del ILOG[:]
        try:
            action()
        except Exception as e:  # noqa: BLE001
            fail("valid-mutation-raised/" + what, "%s: %r" % (type(e).__name__, e))
        seen = collections.Counter((id(o), tag) for o, tag in ILOG)
        del ILOG[:]
        ctx.ev()
        for (oid, tag) in seen:
            if oid in oids:
                fail("event-on-original/" + tag, "%s on the copy fired %r on an object of the original" % (what, tag))
        exp = {(id(o), t): k for (o, t), k in expected.items()}
        for key, k in exp.items():
            got = seen.get(key, 0)
            if got == 0:
                fail("handler-not-fired/" + key[1], "%s: %r never fired (saw %s)"
                     % (what, key[1], sorted(t for _i, t in seen)))
            if got != k:
                fail("handler-fired-%dx/%s" % (min(got, 3), key[1]), "%s: %r fired %d times" % (what, key[1], got))
        for key in seen:
            if key not in exp:
                fail("unexpected-event/" + key[1], "%s also fired %r" % (what, key[1]))
        ctx.count("ident_notify_probes")
    own = lambda x: id(x) not in oids                                   # noqa: E731
    # invalid members / keys / values
    rejected("set-member", lambda: C.selected.add("nope"))
    rejected("dict-key", lambda: C.weights.update({"nope": 1.0}))
    if len(C.weights):
        k0 = next(iter(C.weights))
        rejected("dict-value", lambda: C.weights.__setitem__(k0, "bad"))
    rejected("dict-key", lambda: C.links.__setitem__(5, None))
    for g in list(C.index.values())[:1]:
        rejected("set-member", lambda: g.add(5))
    for g in list(C.groups)[:1]:
        rejected("set-member", lambda: g.update([object()]))
    rejected("set-member", lambda: C.sel_sh.add("nope"))
    rejected("set-member", lambda: C.t_sel.add("nope"))
    # a new member: exactly-once notification on the copy
    new = KShape(name="new", points=[1])
    expect("selected.add", lambda: C.selected.add(new), {(C, "selected_items"): 1, (C, "o:selected.items"): 1})
    expect("weights.setitem", lambda: C.weights.__setitem__(new, 2.0),
           {(C, "weights_items"): 1, (C, "o:weights.items"): 1})
    expect("new.points.append", lambda: new.points.append(3),
           {(new, "shape:points_items"): 1, (C, "o:selected.items.points.items"): 1})
    C.selected.discard(new)
    del C.weights[new]
    del ILOG[:]
    # every member / key of the copy: its list is live, the observer through the set follows it
    members = []
    for m in list(C.selected) + list(C.weights) + list(C.links) + [m for g in C.index.values() for m in g]:
        if isinstance(m, KShape) and own(m) and not any(m is x for x in members):
            members.append(m)
    for m in members:
        rejected("member-list-item", lambda: m.points.append("p"))
        exp = {(m, "shape:points_items"): 1}
        if m in C.selected:
            exp[(C, "o:selected.items.points.items")] = 1
        expect("member.points.append", lambda: m.points.append(99), exp)
        ctx.count("ident_members_mutated")
    # plain objects and wrapped objects held by the copy under a deep policy
    stack = list(C.toks) + list(C.tokmap.keys()) + list(C.tokmap.values())
    while stack:
        x = stack.pop()
        if isinstance(x, Tok) and own(x):
            x.trail.append("touched")
            ctx.count("ident_members_mutated")
        elif isinstance(x, KShape) and own(x) and not any(x is m for m in members):
            members.append(x)
            x.points.append(77)
            ctx.count("ident_members_mutated")
        elif isinstance(x, (tuple, frozenset)):
            stack.extend(x)
    del ILOG[:]


# --------------------------------------------------------------------------- per (state, mode)
def check_ident_copy(ctx, rng, mode, mclass, fn, O, feat):
    ctx.count("ident_copies")
    before = canon(O)
    oall = reach(O)
    oids = set(oall)
    if any(isinstance(x, KShape) for x in O.selected):
        ctx.count("ident_copies_with_instance_members")
    if any(isinstance(x, KShape) for x in O.weights) or any(isinstance(x, KShape) for x in O.links):
        ctx.count("ident_copies_with_instance_keys")
    del ILOG[:]
    try:
        C = fn(O)
    except Exception as e:  # noqa: BLE001
        ctx.violation("ident/%s/copy-raised/%s" % (mclass, type(e).__name__),
                      "%s of a scene raised %s: %s" % (mode, type(e).__name__, short(e, 200)), {"mode": mode})
        return
    del ILOG[:]
    ctx.ev()
    if type(C) is not KScene:
        ctx.violation("ident/%s/class-differs" % mclass, "%s gave a %s" % (mode, type(C).__name__), {"mode": mode})
        return
    # 1. values as name-labelled graphs
    after = canon(C)
    ctx.ev(len(before) * 4)
    ctx.count("ident_nodes_compared", len(before))
    d = canon_diff(before, after)
    if d:
        ctx.violation("ident/%s/value-differs/%s" % (mclass, TRAIT_KIND.get(d[1], "?")),
                      "%s: %s.%s differs between original and copy: %s" % (mode, d[0], d[1], d[2]),
                      {"mode": mode, "node": d[0], "trait": d[1]})
        return
    ctx.ev()
    if mclass != "clone-all-deep" and len(C.t_sel):
        ctx.violation("ident/%s/transient-not-default" % mclass,
                      "%s: transient t_sel holds %d members in the copy" % (mode, len(C.t_sel)), {"mode": mode})
        return
    # 2. sharing and 3. graph consistency along the deep-policy paths
    shared, names, skipped = walk_copy(C, mclass, oids)
    ctx.ev()
    ctx.count("ident_sharing_checked")
    ctx.count("ident_objects_walked", sum(len(v) for v in names.values()))
    if skipped:
        ctx.count("ident_traits_left_to_obj_family", skipped)
    violated = False
    if shared:
        violated = True
        steps = sorted(set(s for s, _w in shared))
        for step in steps:          # one mechanism key per (holding container type, step)
            first = [w for s, w in shared if s == step]
            ctx.violation("ident/%s/shared-object/%s" % (mclass, step),
                          "%s: the copy holds an object of the ORIGINAL where the copy policy is deep: %s reached as "
                          "%s (%d objects by this step, %d in all) - editing the copy edits the original"
                          % (mode, first[0], step, len(first), len(shared)),
                          {"mode": mode, "steps": steps, "shared": [list(s) for s in shared[:8]]})
    split = {k: v for k, v in names.items() if len(v) > 1}
    ctx.count("ident_alias_checked")
    multi = sum(1 for v in names.values() if any(len(st) > 1 for st in v.values()))
    ctx.count("ident_objects_reached_by_two_paths", multi)
    if split:
        violated = True
        k = sorted(split, key=repr)[0]
        steps = sorted(set(s for st in split[k].values() for s in st))
        ctx.violation("ident/%s/alias-split/%s" % (mclass, odd_step(split[k])),
                      "%s: %s %r is ONE object in the original but %d different objects in the copy (reached as %s): "
                      "the copy's graph is not the image of the original's"
                      % (mode, k[0], k[1], len(split[k]), steps), {"mode": mode, "node": list(k), "steps": steps})
    ctx.sig("ident", mclass, feat, bool(shared), bool(split))
    if violated:
        return
    # 4. liveness, then the original must be untouched
    def fail(complaint, msg):
        ctx.violation("ident/%s/%s" % (mclass, complaint), "%s copy: %s" % (mode, msg), {"mode": mode})
        raise Stop()
    try:
        battery(ctx, rng, mode, mclass, O, C, oids, fail)
    except Stop:
        return
    finally:
        del ILOG[:]
    ctx.ev()
    strict = mclass in ("pickle", "deepcopy", "clone-deep", "clone-all-deep")
    d = canon_diff(before, canon(O))
    if d:
        # under a by-reference mode the members of plainw / sel_ref ... are the original's: the battery only
        # touches members that are the copy's own, so this holds for every mode
        ctx.violation("ident/%s/original-changed/%s" % (mclass, TRAIT_KIND.get(d[1], "?")),
                      "%s: mutating the members / keys of the copy changed the original: %s.%s: %s"
                      % (mode, d[0], d[1], d[2]), {"mode": mode, "strict": strict})
        return
    ctx.count("ident_copies_ok")


# --------------------------------------------------------------------------- the container values themselves
VALUE_MODES = [("pickle2", "pickle", lambda c: pickle.loads(pickle.dumps(c, 2))),
               ("pickle5", "pickle", lambda c: pickle.loads(pickle.dumps(c, 5))),
               ("deepcopy", "deepcopy", copy_mod.deepcopy), ("deepcopy", "deepcopy", copy_mod.deepcopy)]


def check_ident_values(ctx, rng, O):
    shapes = [x for x in reach(O).values() if isinstance(x, KShape)]
    if not shapes:
        return
    # back references to the owning scene are removed first: a pickle that STARTS inside a cycle
    # through a HasTraits object restores that object while the container is still being filled
    # (pickle's own recursion order); whole-object copies, where the statement applies, keep them
    for x in shapes:
        x.owner = None
    k = shapes[0]
    pool = [("selected", O.selected), ("weights", O.weights), ("links", O.links), ("index", O.index),
            ("groups", O.groups), ("toks", O.toks), ("tokmap", O.tokmap), ("plainw", O.plainw),
            ("TraitSet", TraitSet(shapes[:3])), ("TraitDict", TraitDict({s: [s] for s in shapes[:3]})),
            ("TraitDict.key-is-value", TraitDict({k: k})), ("TraitList", TraitList(shapes[:2] + shapes[:1]))]
    for nm, c in rng.sample(pool, 5):
        if not len(c):
            continue
        mode, mclass, fn = VALUE_MODES[rng.randrange(len(VALUE_MODES))]
        ctx.count("ident_value_copies")
        ctx.ev()
        tname = type(c).__name__
        oids = set(reach(c))
        try:
            cc = fn(c)
        except Exception as e:  # noqa: BLE001
            ctx.violation("ident-value/%s/copy-raised/%s/%s" % (mclass, type(e).__name__, tname),
                          "%s of the %s value (%s, %d entries) raised %s: %s"
                          % (mode, nm, tname, len(c), type(e).__name__, short(e, 160)), {"mode": mode, "value": nm})
            return
        complaint, detail = None, ""
        if type(cc) is not type(c):
            complaint = "type-differs"
        elif cc is c:
            complaint = "same-object"
        else:
            holder_o, holder_c = Tok("holder"), Tok("holder")
            holder_o.trail, holder_c.trail = c, cc
            d = canon_diff(canon(holder_o), canon(holder_c))
            if d:
                complaint, detail = "content-differs", d[2]
            else:
                shared, names, _sk = walk_copy(holder_c, mclass, oids)
                split = {k2: v for k2, v in names.items() if len(v) > 1}
                if shared:
                    complaint = "shared-object/" + sorted(set(s for s, _w in shared))[0]
                    detail = "%s reached as %s (%d shared)" % (shared[0][1], shared[0][0], len(shared))
                elif split:
                    k2 = sorted(split, key=repr)[0]
                    complaint = "alias-split/" + odd_step(split[k2])
                    detail = "%r is %d objects in the copy" % (k2, len(split[k2]))
        ctx.sig("ident-value", mclass, nm, complaint)
        if complaint:
            ctx.violation("ident-value/%s/%s" % (mclass, complaint),
                          "%s of the %s value (%s, %d entries): %s %s" % (mode, nm, tname, len(c), complaint, detail),
                          {"mode": mode, "value": nm})
            return
        ctx.count("ident_value_copies_ok")


def calibrate():
    """The battery's expectations must hold on a never-copied scene."""
    import random

    class _Ctx:
        def ev(self, n=1):
            pass

        def count(self, *a):
            pass

        def sig(self, *a):
            pass
    for s in range(4):
        rng = random.Random(s)
        O, _f = make_scene(rng)
        bad = []

        def fail(complaint, msg):
            bad.append((complaint, msg))
            raise Stop()
        try:
            battery(_Ctx(), rng, "fresh", "fresh", O, O, set(), fail)
        except Stop:
            pass
        if bad:
            raise RuntimeError("C14 ident battery does not hold on a never-copied object: %r" % (bad[:2],))
    del ILOG[:]


def run_ident(ctx):
    calibrate()
    n = ctx.scale(96, 3200)
    per = 8
    for b in range(0, n, per):
        if not ctx.mine(b // per + 9):
            continue
        if not ctx.begin("ident:%d" % b):
            continue
        try:
            for i in range(b, min(n, b + per)):
                for mode, mclass, fn in IMODES:
                    O, feat = make_scene(ctx.rng("ident", i))       # fresh original per mode, same history
                    check_ident_copy(ctx, ctx.rng("ident-probe", i, mode), mode, mclass, fn, O, feat)
                ctx.count("ident_states")
                check_ident_values(ctx, ctx.rng("ident-values", i), O)
            if b == 0:
                ctx.sample({"sub": "ident", "class": "KScene", "placements": sorted(set(TRAIT_KIND.values())),
                            "modes": [m[0] for m in IMODES]})
        finally:
            del ILOG[:]
            ctx.end()
