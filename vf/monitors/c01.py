"""C01 -- assigned values always lie in the trait's declared domain.

For every (trait spec, value, route) the outcome of the real assignment is
compared with the outcome set allowed by an independent reference predicate
(vf/reference.py, written from the documentation).  See DESIGN.md 4 / C01.
"""
import math
import re

import numpy as np

from traits.api import (
    HasTraits, TraitError, MetaHasTraits, Int, Float, Complex, Str, Bytes, Bool, BaseInt, BaseFloat,
    BaseComplex, BaseStr, BaseBytes, BaseBool, CInt, CFloat, CComplex, CStr, CBytes, CBool,
    BaseCInt, BaseCFloat, BaseCStr, BaseCBool, Range, BaseRange, Enum, BaseEnum, Tuple, BaseTuple,
    Union, Either, String, PrefixList, PrefixMap, Map, Callable, BaseCallable, Instance, BaseInstance,
    Type, This, List, Dict, Set, Array, ArrayOrNone, CArray, Date, Time, Datetime, Any, Trait,
    Undefined, Title, Regex, Module, ValidatedTuple, Property,
)

from vf.lattice import lattice, Plain, PlainSub
from vf import reference as rf
from vf.reference import plainify  # noqa: F401  (re-exported for other monitors)
from vf.util import same, short
from vf.monitors import _c01_more as more

META = {
    "level": "exploration",
    "rule": ("cases = (trait spec, lattice value, route) with specs = the atomic catalogue (every "
             "validated trait type of traits.api with its option grid) plus seeded nestings "
             "(Tuple/Union/Either/List/Dict/Set of atomic specs, depth <= 2 quick / 3 thorough), values = "
             "the ~300-value lattice of vf/lattice.py, routes = attribute assignment, constructor "
             "keyword, trait_set. distinct_nontrivial = distinct (spec kind, value class, outcome "
             "class) triples. Stratum 'arrays' (vf/monitors/_c01_more.py): the Array/CArray/ArrayOrNone "
             "option grid (14 dtypes incl. declared non-native and structured x 5 casting rules x 8 shape "
             "rules, direct and as Tuple/List/Union/Either/Dict member; every dtype x casting pair in "
             "every run) x the ndarray value family (non-native byte order obtained by astype / "
             "byteswap+view / frombuffer, strided-transposed-broadcast-read-only views, zero-size, 0-d, "
             "ndarray subclasses, structured/string/datetime dtypes, ragged and nested sequences); the "
             "oracle is a domain predicate on the READABLE array (dtype identical to the declared one "
             "byte order included, shape rule, content = the documented astype conversion). Stratum "
             "'deferred': assignment THROUGH DelegatesTo / PrototypedFrom / Delegate(modify or not) x "
             "naming (same, renamed, prefix*) x the trait governing the delegated-to attribute on that "
             "delegate object (class trait, add_trait instance trait shadowing it, instance-only trait, "
             "subclass override, listener-made clone, delegate swapped in after a read, shadow added "
             "and removed, two-hop chains same-kind and mixed) x 28 ordered pairs of differing domains; "
             "values = those on which the two domains disagree plus a sample of the rest. Stratum "
             "'deepconv': declarations with a CONVERTING member (Float, Int, Complex, Bool, Range, the C* "
             "casts, PrefixList, String) two or more trait levels deep -- 22 covering chains (Tuple in Tuple, "
             "Tuple in Union / Either, Tuple as List item / Dict key / Dict value / Set item, ValidatedTuple "
             "around and inside Tuple, Union / Either / List / Dict as a Tuple item) x the converting leaves, "
             "plus random trees of depth <= 3 quick / 4 thorough -- x values BUILT FROM THE DECLARATION in 13 "
             "patterns (all items exact; every item / every deep item / one single deep item an equal-valued "
             "value of another type such as 1 for 1.0, True for 1, np.float64 for float; a deep conversion to "
             "a non-equal value; outer-level conversion only; mixed; one invalid or protocol-raising item at "
             "depth; wrong inner shape; tuple subclasses as inner containers; one inner tuple object in two "
             "places), three routes each, the readback compared exact-type-first at every depth, and every "
             "rejection repeated over a previously assigned valid value (which must stay)."),
    "phases": [{"name": "main", "flavour": "P", "shards": 16}],
    "gates": {
        "quick": {"evaluations": 80000, "accepted": 10000, "rejected": 30000, "converted": 1500,
                  "passthrough_seen": 50, "no_effect_checked": 30000, "families": 12,
                  "family_judgements": 10000,
                  "array_specs": 44, "array_judgements": 2000, "array_nonnative_accepted": 250,
                  "array_nonnative_rejected": 700, "array_view_accepted": 100,
                  "array_degenerate_accepted": 25,
                  "deferred_specs": 60, "deferred_judgements": 1700, "deferred_accepted": 1800,
                  "deferred_rejected": 3000, "deferred_discriminating_nonclass": 500,
                  "deep_specs": 60, "deep_judgements": 1800, "deep_accepted": 1400,
                  "deep_equal_converted_accepted": 800, "deep_identity_accepted": 170,
                  "deep_subclass_accepted": 340, "deep_rejected": 450, "deep_reject_after_valid": 300},
        "thorough": {"evaluations": 1000000, "accepted": 100000, "rejected": 400000,
                     "converted": 15000, "passthrough_seen": 500, "no_effect_checked": 400000,
                     "families": 12, "family_judgements": 10000,
                     "array_specs": 580, "array_judgements": 140000, "array_nonnative_accepted": 15000,
                     "array_nonnative_rejected": 75000, "array_view_accepted": 5000,
                     "array_degenerate_accepted": 1300,
                     "deferred_specs": 700, "deferred_judgements": 160000, "deferred_accepted": 90000,
                     "deferred_rejected": 400000, "deferred_discriminating_nonclass": 20000,
                     "deep_specs": 900, "deep_judgements": 54000, "deep_accepted": 41000,
                     "deep_equal_converted_accepted": 23000, "deep_identity_accepted": 5000,
                     "deep_subclass_accepted": 9800, "deep_rejected": 12500,
                     "deep_reject_after_valid": 8900},
    },
    "assumptions": [
        "vf/reference.py (about 300 lines of per-type predicates written from the docstrings and "
        "manual) is the trusted specification of each declared domain",
        "for compound traits any accepting member's conversion is an acceptable stored value "
        "(which member wins is C03's question)",
        "File/Directory exists=True, UUID, WeakRef are excluded (domain depends on filesystem/GC)",
        "a value assigned through a deferring trait is judged by the trait that governs the "
        "delegated-to attribute on that delegate OBJECT (an instance trait shadows the class trait, as "
        "for a direct assignment); its TraitError may name either the deferring or the delegated-to "
        "attribute",
        "an Array's declared dtype includes its byte order (numpy dtype equality)",
    ],
}

LO_HI = [(0.0, 1.0), (None, 1.0), (0.0, None), (-1.5, 10.0)]


def atomic_specs():
    """name -> (kind, thunk building a fresh trait, reference function)."""
    S = {}

    def add(name, kind, thunk, ref):
        S[name] = (kind, thunk, ref)
    add("Int", "Int", lambda: Int(), rf.ref_int)
    add("BaseInt", "Int", lambda: BaseInt(), rf.ref_int)
    add("Float", "Float", lambda: Float(), rf.ref_float)
    add("BaseFloat", "Float", lambda: BaseFloat(), rf.ref_float)
    add("Complex", "Complex", lambda: Complex(), rf.ref_complex)
    add("BaseComplex", "Complex", lambda: BaseComplex(), rf.ref_complex)
    add("Str", "Str", lambda: Str(), rf.ref_isinstance(str))
    add("BaseStr", "Str", lambda: BaseStr(), rf.ref_isinstance(str))
    add("Title", "Str", lambda: Title(), rf.ref_isinstance(str))
    add("Bytes", "Bytes", lambda: Bytes(), rf.ref_isinstance(bytes))
    add("BaseBytes", "Bytes", lambda: BaseBytes(), rf.ref_isinstance(bytes))
    add("Bool", "Bool", lambda: Bool(), rf.ref_bool)
    add("BaseBool", "Bool", lambda: BaseBool(), rf.ref_bool)
    add("CInt", "CInt", lambda: CInt(), rf.ref_cast(int, (ValueError, TypeError)))
    add("BaseCInt", "CInt", lambda: BaseCInt(), rf.ref_cast(int, (ValueError, TypeError)))
    add("CFloat", "CFloat", lambda: CFloat(), rf.ref_cast(float, (ValueError, TypeError)))
    add("BaseCFloat", "CFloat", lambda: BaseCFloat(), rf.ref_cast(float, (ValueError, TypeError)))
    add("CComplex", "CComplex", lambda: CComplex(), rf.ref_cast(complex, (ValueError, TypeError)))
    add("CStr", "CStr", lambda: CStr(), rf.ref_cast(str, Exception))
    add("BaseCStr", "CStr", lambda: BaseCStr(), rf.ref_cast(str, Exception))
    add("CBytes", "CBytes", lambda: CBytes(), rf.ref_cast(bytes, Exception))
    add("CBool", "CBool", lambda: CBool(), rf.ref_cast(bool, Exception))
    add("BaseCBool", "CBool", lambda: BaseCBool(), rf.ref_cast(bool, Exception))
    # float ranges: all bound / exclusivity combinations
    for lo, hi in LO_HI:
        for xl in (False, True):
            for xh in (False, True):
                if (lo is None and xl) or (hi is None and xh):
                    continue
                nm = "Range(%r,%r,xl=%d,xh=%d)" % (lo, hi, xl, xh)
                add(nm, "Range.float",
                    lambda lo=lo, hi=hi, xl=xl, xh=xh: Range(lo, hi, value=0.5, exclude_low=xl, exclude_high=xh),
                    rf.ref_range_float(lo, hi, xl, xh))
    add("BaseRange(0.0,1.0)", "Range.float", lambda: BaseRange(0.0, 1.0), rf.ref_range_float(0.0, 1.0, False, False))
    add("BaseRange(0.0,1.0,xx)", "Range.float", lambda: BaseRange(0.0, 1.0, 0.5, exclude_low=True, exclude_high=True),
        rf.ref_range_float(0.0, 1.0, True, True))
    add("Range(0,10.0)", "Range.float", lambda: Range(0, 10.0), rf.ref_range_float(0, 10.0, False, False))
    for lo, hi in ((0, 10), (-5, 5), (None, 10), (0, None), (2 ** 63, 2 ** 64)):
        for xl in (False, True):
            for xh in (False, True):
                if (lo is None and xl) or (hi is None and xh):
                    continue
                dv = 3 if (lo, hi) != (2 ** 63, 2 ** 64) else 2 ** 63 + 1
                nm = "Range(%r,%r,xl=%d,xh=%d)" % (lo, hi, xl, xh)
                add(nm, "Range.int",
                    lambda lo=lo, hi=hi, xl=xl, xh=xh, dv=dv: Range(lo, hi, value=dv, exclude_low=xl, exclude_high=xh),
                    rf.ref_range_int(lo, hi, xl, xh))
    add("BaseRange(0,10)", "Range.int", lambda: BaseRange(0, 10), rf.ref_range_int(0, 10))
    # enums
    add("Enum(1,'a',None,2.5)", "Enum", lambda: Enum(1, "a", None, 2.5), rf.ref_enum((1, "a", None, 2.5)))
    add("Enum([1,2,3])", "Enum", lambda: Enum([1, 2, 3]), rf.ref_enum((1, 2, 3)))
    add("Enum((1,),(2,),(1,2))", "Enum", lambda: Enum((1,), (2,), (1, 2)), rf.ref_enum(((1,), (2,), (1, 2))))
    add("Enum(2,[1,2,3])", "Enum", lambda: Enum(2, [1, 2, 3]), rf.ref_enum((1, 2, 3)))
    add("Enum({'a','b'})", "Enum", lambda: Enum("a", {"a", "b"}), rf.ref_enum(("a", "b")))
    add("Enum('yes','no')", "Enum", lambda: Enum("yes", "no"), rf.ref_enum(("yes", "no")))
    add("Enum(0.5,nan-free)", "Enum", lambda: Enum(0.5, 1.0, 0), rf.ref_enum((0.5, 1.0, 0)))
    add("BaseEnum('x','y')", "BaseEnum", lambda: BaseEnum("x", "y"), rf.ref_enum(("x", "y")))
    add("BaseEnum(1,2,(1,2))", "BaseEnum", lambda: BaseEnum(1, 2, (1, 2)), rf.ref_enum((1, 2, (1, 2))))
    # strings
    add("String(1,3)", "String", lambda: String("a", minlen=1, maxlen=3), rf.ref_string(1, 3, ""))
    add("String(regex=^a)", "String", lambda: String("a", regex="^a"), rf.ref_string(0, 10 ** 9, "^a"))
    add("String(2,4,^[ab]+$)", "String", lambda: String("ab", minlen=2, maxlen=4, regex="^[ab]+$"),
        rf.ref_string(2, 4, "^[ab]+$"))
    add("String()", "String", lambda: String(), rf.ref_string(0, 10 ** 9, ""))
    # full option grid: each length bound alone / together, with and without a regex
    for mn in (0, 1, 3):
        for mx in (None, 2, 4):
            for rx in ("", "^[a-z]+$", "^a"):
                if (mn, mx, rx) in ((0, None, ""),) or (mx is not None and mx < mn):
                    continue
                dv = {"": "abc", "^[a-z]+$": "abc", "^a": "abc"}[rx][:mx or 3]
                if len(dv) < mn:
                    continue
                kw = {"minlen": mn}
                if mx is not None:
                    kw["maxlen"] = mx
                if rx:
                    kw["regex"] = rx
                add("String(%d,%s,%r)" % (mn, mx, rx), "String",
                    lambda dv=dv, kw=kw: String(dv, **kw),
                    rf.ref_string(mn, mx if mx is not None else 10 ** 9, rx))
    add("Regex(^[0-9]+$,minlen=3)", "String", lambda: Regex("123", regex="^[0-9]+$", minlen=3),
        rf.ref_string(3, 10 ** 9, "^[0-9]+$"))
    add("Regex(^[0-9]+$,maxlen=2)", "String", lambda: Regex("1", regex="^[0-9]+$", maxlen=2),
        rf.ref_string(0, 2, "^[0-9]+$"))
    add("Regex(^[0-9]+$)", "String", lambda: Regex("1", regex="^[0-9]+$"), rf.ref_string(0, 10 ** 9, "^[0-9]+$"))
    add("PrefixList", "PrefixList", lambda: PrefixList(["yes", "no", "yellow"]),
        rf.ref_prefixlist(["yes", "no", "yellow"]))
    add("PrefixList2", "PrefixList", lambda: PrefixList(["alpha", "al", "beta"]),
        rf.ref_prefixlist(["alpha", "al", "beta"]))
    # differently configured traits of one type living in one process (judged interleaved by the
    # family cases below): the same string is an exact member here, a unique prefix there,
    # ambiguous or foreign elsewhere
    add("PrefixList3", "PrefixList", lambda: PrefixList(["yellow", "never", "albatross", "b"]),
        rf.ref_prefixlist(["yellow", "never", "albatross", "b"]))
    add("PrefixList4", "PrefixList", lambda: PrefixList(["apple", "cherry"]),
        rf.ref_prefixlist(["apple", "cherry"]))
    add("PrefixMap2", "PrefixMap", lambda: PrefixMap({"yellow": 1, "never": 0, "albatross": 3, "b": 4}),
        rf.ref_prefixmap({"yellow": 1, "never": 0, "albatross": 3, "b": 4}))
    add("PrefixMap3", "PrefixMap", lambda: PrefixMap({"apple": 1, "cherry": 2}),
        rf.ref_prefixmap({"apple": 1, "cherry": 2}))
    add("Map2", "Map", lambda: Map({"y": 1, "n": 0, 2: 2}), rf.ref_map({"y": 1, "n": 0, 2: 2}))
    add("Map", "Map", lambda: Map({"yes": 1, "no": 0, 1: 2}), rf.ref_map({"yes": 1, "no": 0, 1: 2}))
    add("PrefixMap", "PrefixMap", lambda: PrefixMap({"yes": 1, "no": 0, "yellow": 3}),
        rf.ref_prefixmap({"yes": 1, "no": 0, "yellow": 3}))
    add("Callable", "Callable", lambda: Callable(), rf.ref_callable(True))
    add("Callable(nn)", "Callable", lambda: Callable(allow_none=False), rf.ref_callable(False))
    add("BaseCallable", "Callable", lambda: BaseCallable(), rf.ref_callable(True))
    add("Instance(Plain)", "Instance", lambda: Instance(Plain), rf.ref_instance(Plain, True))
    add("Instance(Plain,nn)", "Instance", lambda: Instance(Plain, allow_none=False), rf.ref_instance(Plain, False))
    add("Instance(int)", "Instance", lambda: Instance(int), rf.ref_instance(int, True))
    add("Instance(PlainSub)", "Instance", lambda: Instance(PlainSub), rf.ref_instance(PlainSub, True))
    add("BaseInstance(Plain)", "Instance", lambda: BaseInstance(Plain), rf.ref_instance(Plain, True))
    # a trait type called with new options is a documented way to derive a variant (clone)
    add("Range(0.0,1.0)(2.0 default)", "Range.float", lambda: Range(0.0, 10.0)(2.0),
        rf.ref_range_float(0.0, 10.0, False, False))
    add("Int(5) clone", "Int", lambda: Int()(5), rf.ref_int)
    add("String(1,3)('ab')", "String", lambda: String("a", minlen=1, maxlen=3)("ab"), rf.ref_string(1, 3, ""))
    add("Enum(1,2,3)(2)", "Enum", lambda: Enum(1, 2, 3)(2), rf.ref_enum((1, 2, 3)))
    # BaseInstance.clone takes allow_none explicitly "in the same way that it's handled in the
    # initializer", so the derived variant's domain is the one the initializer would give
    add("Instance(Plain)(allow_none=False)", "Instance.clone", lambda: Instance(Plain)(allow_none=False),
        rf.ref_instance(Plain, False))
    add("Instance(Plain,nn)(allow_none=True)", "Instance.clone",
        lambda: Instance(Plain, allow_none=False)(allow_none=True), rf.ref_instance(Plain, True))
    add("BaseInstance(Plain)(allow_none=False)", "Instance.clone", lambda: BaseInstance(Plain)(allow_none=False),
        rf.ref_instance(Plain, False))
    add("Instance(name)(allow_none=False)", "Instance.clone", lambda: Instance("vf.lattice.Plain")(allow_none=False),
        rf.ref_instance(Plain, False))
    add("Instance(Plain,adapt=yes)(allow_none=False)", "Instance.clone",
        lambda: Instance(Plain, adapt="yes")(allow_none=False), rf.ref_instance(Plain, False))
    # classes given by (module-qualified) NAME are resolved lazily, at the first non-None valid
    # assignment: the class trait is shared by the lattice loop, so values judged after that
    # assignment see the resolved state (direct and nested uses)
    NM = "vf.lattice.Plain"
    add("Instance(name)", "Instance.byname", lambda: Instance(NM), rf.ref_instance(Plain, True))
    add("Instance(name,nn)", "Instance.byname", lambda: Instance(NM, allow_none=False),
        rf.ref_instance(Plain, False))
    add("Tuple(Instance(name),Int)", "nest:Instance.byname", lambda: Tuple(Instance(NM), Int),
        rf.ref_tuple(rf.ref_instance(Plain, True), rf.ref_int))
    add("Dict(Str,Instance(name))", "nest:Instance.byname", lambda: Dict(Str, Instance(NM)),
        rf.ref_dict(rf.ref_isinstance(str), rf.ref_instance(Plain, True)))
    add("Union(Instance(name),Int)", "nest:Instance.byname", lambda: Union(Instance(NM), Int),
        rf.ref_union(rf.ref_instance(Plain, True), rf.ref_int))
    add("Either(Instance(name),Str)", "nest:Instance.byname", lambda: Either(Instance(NM), Str),
        rf.ref_union(rf.ref_instance(Plain, True), rf.ref_isinstance(str)))
    add("List(Instance(name))", "nest:Instance.byname", lambda: List(Instance(NM)),
        rf.ref_list(rf.ref_instance(Plain, True)))
    add("List(Tuple(Instance(name),Int))", "nest:Instance.byname", lambda: List(Tuple(Instance(NM), Int)),
        rf.ref_list(rf.ref_tuple(rf.ref_instance(Plain, True), rf.ref_int)))
    add("Tuple(Type(name),Int)", "nest:Instance.byname", lambda: Tuple(Type(NM), Int),
        rf.ref_tuple(rf.ref_type(Plain, True), rf.ref_int))
    add("Type(Plain)", "Type", lambda: Type(Plain), rf.ref_type(Plain, True))
    add("Type(Plain,nn)", "Type", lambda: Type(Plain, klass=Plain, allow_none=False), rf.ref_type(Plain, False))
    add("Date", "Date", lambda: Date(), rf.ref_date(False, False))
    add("Date(dt,none)", "Date", lambda: Date(allow_datetime=True, allow_none=True), rf.ref_date(True, True))
    add("Date(none)", "Date", lambda: Date(allow_none=True), rf.ref_date(False, True))
    import datetime as _dt
    add("Time", "Time", lambda: Time(), rf.ref_simple_instance(_dt.time, False))
    add("Time(none)", "Time", lambda: Time(allow_none=True), rf.ref_simple_instance(_dt.time, True))
    add("Datetime", "Datetime", lambda: Datetime(), rf.ref_simple_instance(_dt.datetime, False))
    add("Datetime(none)", "Datetime", lambda: Datetime(allow_none=True), rf.ref_simple_instance(_dt.datetime, True))
    # a tuple with its own predicate over CONVERTING members
    add("ValidatedTuple(CFloat,CFloat,a<b)", "ValidatedTuple",
        lambda: ValidatedTuple(CFloat, CFloat, fvalidate=lambda t: t[0] < t[1]),
        rf.ref_validated_cast_tuple((float, float), lambda t: t[0] < t[1]))
    add("ValidatedTuple(CInt,CInt,a<b)", "ValidatedTuple",
        lambda: ValidatedTuple(CInt, CInt, fvalidate=lambda t: t[0] < t[1]),
        rf.ref_validated_cast_tuple((int, int), lambda t: t[0] < t[1]))
    add("ValidatedTuple(CInt,CFloat,a!=b)", "ValidatedTuple",
        lambda: ValidatedTuple(CInt, CFloat, fvalidate=lambda t: t[0] != t[1]),
        rf.ref_validated_cast_tuple((int, float), lambda t: t[0] != t[1]))
    # validated Property traits: the declaring class, subclasses overriding nothing / only the
    # getter / only the setter / both (the value must still be validated by the declared trait)
    for pname, mk_inner, dflt, pref in (
            ("Range(0.0,10.0)", lambda: Range(0.0, 10.0), 0.5, rf.ref_range_float(0.0, 10.0, False, False)),
            ("Float", lambda: Float(), 0.0, rf.ref_float),
            ("Enum('a','b')", lambda: Enum("a", "b"), "a", rf.ref_enum(("a", "b"))),
            ("Int", lambda: Int(), 0, rf.ref_int)):
        for variant in ("base", "sub-none", "sub-getter", "sub-setter", "sub-both", "subsub-setter"):
            add("Property(%s)/%s" % (pname, variant), "Property.validated",
                lambda mk_inner=mk_inner, dflt=dflt, variant=variant: _property_class(mk_inner, dflt, variant),
                pref)
    add("Array(f8)", "Array", lambda: Array(dtype="float64"), rf.ref_array(np.dtype("float64"), None))
    add("Array(shape(None,2))", "Array", lambda: Array(shape=(None, 2)), rf.ref_array(None, (None, 2)))
    add("Array(i4,((1,3),))", "Array", lambda: Array(dtype="int32", shape=((1, 3),)),
        rf.ref_array(np.dtype("int32"), ((1, 3),)))
    add("Array(f8,(2,(1,None)))", "Array", lambda: Array(dtype="float64", shape=(2, (1, None))),
        rf.ref_array(np.dtype("float64"), (2, (1, None))))
    add("Array(i8,safe)", "Array", lambda: Array(dtype="int64", casting="safe"),
        rf.ref_array(np.dtype("int64"), None, "safe"))
    add("Array(f4,same_kind)", "Array", lambda: Array(dtype="float32", casting="same_kind"),
        rf.ref_array(np.dtype("float32"), None, "same_kind"))
    add("ArrayOrNone(f8,(None,))", "ArrayOrNone", lambda: ArrayOrNone(dtype="float64", shape=(None,)),
        rf.ref_array_or_none(np.dtype("float64"), (None,)))
    return S


def _property_class(mk_inner, dflt, variant):
    """Returns a CLASS (not a trait): x is a validated Property storing into _x."""
    def getter(self):
        return self.__dict__.get("_x", dflt)

    def setter(self, value):
        self.__dict__["_x"] = value
    Base = MetaHasTraits("PBase", (HasTraits,), {
        "x": Property(mk_inner()), "other": Int(3), "_get_x": getter, "_set_x": setter})
    if variant == "base":
        return Base

    def getter2(self):
        return self.__dict__.get("_x", dflt)

    def setter2(self, value):
        self.__dict__["_x"] = value
    body = {"sub-none": {}, "sub-getter": {"_get_x": getter2}, "sub-setter": {"_set_x": setter2},
            "sub-both": {"_get_x": getter2, "_set_x": setter2}, "subsub-setter": {}}[variant]
    Sub = MetaHasTraits("PSub", (Base,), body)
    if variant == "subsub-setter":
        Sub = MetaHasTraits("PSubSub", (Sub,), {"_set_x": setter2})
    return Sub


COLL_OK = ("Int", "Float", "Str", "Bool", "CInt", "Range(0.0,1.0,xl=0,xh=0)", "Range(0,10,xl=0,xh=0)",
           "Enum([1,2,3])", "Enum('yes','no')", "Instance(Plain)", "Callable(nn)", "String(1,3)",
           "PrefixList", "Complex", "Bytes", "CStr", "Range(0.0,1.0,xl=1,xh=1)", "Map",
           "Instance(Plain,nn)", "BaseEnum('x','y')")


def gen_nesting(rng, atoms, depth):
    """Returns (name, kind, thunk, ref) of a random nested spec."""
    def pick(d):
        if d <= 0 or rng.random() < 0.35:
            nm = rng.choice(COLL_OK)
            kind, th, ref = atoms[nm]
            return nm, th, ref
        c = rng.randrange(6)
        if c == 0:
            k = rng.randint(1, 3)
            ms = [pick(d - 1) for _ in range(k)]
            return ("Tuple(%s)" % ",".join(m[0] for m in ms),
                    lambda ms=ms: Tuple(*[m[1]() for m in ms]), rf.ref_tuple(*[m[2] for m in ms]))
        if c == 1:
            k = rng.randint(2, 3)
            ms = [pick(d - 1) for _ in range(k)]
            return ("Union(%s)" % ",".join(m[0] for m in ms),
                    lambda ms=ms: Union(*[m[1]() for m in ms]), rf.ref_union(*[m[2] for m in ms]))
        if c == 2:
            k = rng.randint(2, 3)
            ms = [pick(d - 1) for _ in range(k)]
            with_none = rng.random() < 0.3
            refs = [m[2] for m in ms] + ([rf.ref_none] if with_none else [])
            return ("Either(%s%s)" % (",".join(m[0] for m in ms), ",None" if with_none else ""),
                    lambda ms=ms, wn=with_none: Either(*([m[1]() for m in ms] + ([None] if wn else []))),
                    rf.ref_union(*refs))
        if c == 3:
            m = pick(d - 1)
            lo, hi = rng.choice([(0, 10 ** 9), (0, 10 ** 9), (1, 3), (2, 2), (0, 1)])
            return ("List(%s,%d..%s)" % (m[0], lo, hi if hi < 10 ** 9 else ""),
                    lambda m=m, lo=lo, hi=hi: List(m[1](), minlen=lo, maxlen=hi) if hi < 10 ** 9 else List(m[1]()),
                    rf.ref_list(m[2], lo, hi))
        if c == 4:
            m = pick(0)
            return ("Set(%s)" % m[0], lambda m=m: Set(m[1]()), rf.ref_set(m[2]))
        if c == 5:
            km = pick(0)
            vm = pick(d - 1)
            return ("Dict(%s,%s)" % (km[0], vm[0]), lambda km=km, vm=vm: Dict(km[1](), vm[1]()),
                    rf.ref_dict(km[2], vm[2]))
        ms = [pick(d - 1) for _ in range(2)]
        return ("Trait(None,%s)" % ",".join(m[0] for m in ms),
                lambda ms=ms: Trait(None, *[m[1]() for m in ms]),
                rf.ref_union(rf.ref_none, *[m[2] for m in ms]))
    nm, th, ref = pick(depth)
    kind = nm.split("(")[0] if "(" in nm else nm
    return nm, "nest:" + kind, th, ref


class Raised:
    pass


def attempt(fn):
    try:
        fn()
        return ("ok", None)
    except TraitError as e:
        return ("TE", e)
    except Exception as e:
        return ("EXC", e)


def judge(ctx, name, kind, K, ref, vid, vclass, v):
    """Run the three routes for one (spec, value)."""
    try:
        r = ref(v)
    except Exception as e:  # reference crashed: harness defect, make it loud but not a violation
        ctx.count("reference_crashes")
        return None
    for route in ("setattr", "trait_set", "ctor"):
        ctx.ev()
        if route == "ctor":
            o = None
            holder = []

            def go():
                holder.append(K(x=v))
            out = attempt(go)
            if out[0] == "ok":
                o = holder[0]
        else:
            o = K()
            try:
                before_x = o.x      # materialise the default: "no effect" is about readable values
            except Exception:
                # the declaration's own implicit default is outside its domain (e.g. a Tuple
                # whose member default is None): nothing readable to compare with
                before_x = Raised
                ctx.count("default_unreadable")
            before_other = o.other
            before_dict = dict(o.__dict__)
            if route == "setattr":
                out = attempt(lambda: setattr(o, "x", v))
            else:
                out = attempt(lambda: o.trait_set(x=v))
        complaint = None
        outcome = out[0]
        if outcome == "ok":
            try:
                stored = o.x
            except Exception as e:
                stored = Raised
                complaint = "unreadable-after-accept"
            if complaint is None:
                if not r.acceptable():
                    complaint = "accepted-outside-domain"
                elif not r.matches(stored):
                    complaint = "stored-not-documented-conversion"
                else:
                    ctx.count("accepted")
                    if not (stored is v):
                        ctx.count("converted")
        elif outcome == "TE":
            if r.acceptable() and not r.rej:
                complaint = "rejected-inside-domain"
            else:
                ctx.count("rejected")
                msg = str(out[1])
                if "'x'" not in msg:
                    complaint = "traiterror-does-not-name-attribute"
        else:
            et = type(out[1])
            if et in r.passes or (et is OverflowError and r.passes):
                ctx.count("passthrough_seen")
            elif r.passes and any(issubclass(et, p) for p in r.passes):
                ctx.count("passthrough_seen")
            else:
                complaint = "foreign-exception:" + et.__name__
        if complaint is None and outcome != "ok" and route != "ctor":
            ctx.count("no_effect_checked")
            try:
                now_other = o.other
                now_x = o.x if before_x is not Raised else Raised
                if now_x is not before_x and not same(now_x, before_x):
                    complaint = "attribute-changed-on-failure"
                elif now_other is not before_other:
                    complaint = "other-attribute-changed-on-failure"
                elif set(o.__dict__) != set(before_dict):
                    complaint = "dict-keys-changed-on-failure"
            except Exception:
                complaint = "unreadable-after-failure"
        ctx.sig(kind, vclass, outcome if outcome != "EXC" else "EXC:" + type(out[1]).__name__)
        if complaint:
            if outcome == "ok":
                oc = "stored:" + (type(stored).__name__ if stored is not Raised else "?")
            elif outcome == "TE":
                oc = "TraitError"
            else:
                oc = type(out[1]).__name__
            key = "%s/%s/%s" % (complaint, kind, vclass)
            ctx.violation(key, "%s: spec %s <- %s (%s) via %s: outcome %s %s; reference allows %r"
                          % (complaint, name, vid, short(v, 60), route, outcome,
                             short(stored, 80) if outcome == "ok" else short(out[1], 160), r),
                          {"spec": name, "value_id": vid, "route": route, "outcome": outcome,
                           "reference": repr(r)})
            return complaint
    return None


def run(ctx):
    atoms = atomic_specs()
    specs = [(nm,) + atoms[nm] for nm in atoms]
    nnest = ctx.scale(500, 20000)
    depth = ctx.scale(2, 3)
    for i in range(nnest):
        specs.append(gen_nesting(ctx.rng("nest", i), atoms, depth))
    ctx.note("atomic_specs", len(atoms))
    for si, (name, kind, thunk, ref) in enumerate(specs):
        if not ctx.mine(si):
            continue
        if not ctx.begin("spec:%d:%s" % (si, name[:80])):
            continue
        try:
            try:
                made = thunk()
                if isinstance(made, type):
                    K = made              # the spec builds its own class
                else:
                    K = MetaHasTraits("K%d" % si, (HasTraits,), {"x": made, "other": Int(3)})
            except Exception as e:
                ctx.count("spec_construction_failed")
                continue
            ctx.count("specs")
            vals = lattice(extra_floats=(-1.5,))
            if si >= len(atoms) and ctx.quick:
                rng = ctx.rng("vals", si)
                vals = rng.sample(vals, 120)
            if "byname" in kind:
                vals = vals + lattice(extra_floats=(-1.5,))    # second pass: after lazy resolution
            nbad = 0
            for vid, vclass, v in vals:
                if judge(ctx, name, kind, K, ref, vid, vclass, v):
                    nbad += 1
                    if nbad >= 6:
                        break
            if si % 37 == 0:
                ctx.sample({"spec": name, "values": len(vals), "routes": 3})
        finally:
            ctx.end()
    # ---- families: differently configured traits of ONE type, alive in one process and fed the
    # same values interleaved (value-major, member order alternating), so that anything a trait
    # type remembers beyond its own instance (a class-level cache, a shared table, a lazily
    # installed validator) meets a configuration it is wrong for
    groups = {}
    for nm in atoms:
        kind, thunk, ref = atoms[nm]
        groups.setdefault(kind, []).append((nm, thunk, ref))
    fi = 0
    for kind in sorted(groups):
        members = groups[kind]
        if len(members) < 2:
            continue
        for c0 in range(0, len(members), 6):
            chunk = members[c0:c0 + 6]
            if len(chunk) < 2:
                chunk = members[-2:]
            fi += 1
            if not ctx.mine(fi):
                continue
            if not ctx.begin("family:%s:%d" % (kind, c0)):
                continue
            try:
                live = []
                for j, (nm, thunk, ref) in enumerate(chunk):
                    try:
                        made = thunk()
                        K = made if isinstance(made, type) else MetaHasTraits(
                            "F%d_%d" % (fi, j), (HasTraits,), {"x": made, "other": Int(3)})
                    except Exception:
                        continue
                    live.append([nm, K, ref, 0])
                ctx.count("families")
                vals = lattice(extra_floats=(-1.5,))
                for k, (vid, vclass, v) in enumerate(vals):
                    for m in (live if k % 2 == 0 else live[::-1]):
                        if m[3] >= 6:
                            continue
                        ctx.count("family_judgements")
                        if judge(ctx, m[0], kind, m[1], m[2], vid, vclass, v):
                            m[3] += 1
            finally:
                ctx.end()
    # ---- stratum "arrays": the ndarray value family (byte orders, views, zero-size, subclasses,
    # structured dtypes, sequences) against the Array/CArray/ArrayOrNone option grid
    more.run_arrays(ctx, judge, 0)
    # ---- stratum "deferred": assignment through DelegatesTo / PrototypedFrom / Delegate, judged by
    # the trait governing the delegated-to attribute on that delegate object
    more.run_deferred(ctx, 0)
    # ---- stratum "deepconv": converting members two or more trait levels deep (Tuple in Tuple /
    # Union / Either / List / Dict / Set, ValidatedTuple) x values built from the declaration that
    # need an equal-valued conversion exactly at the inner level; exact-type readback at every depth
    more.run_deepconv(ctx, judge, 0)
