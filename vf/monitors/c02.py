"""C02 -- change handlers fire exactly once per real change, with truthful old/new.

Reference change criterion over (comparison mode, value readable before, value
readable after); every mechanism's call log must equal the reference sequence
(count and order), old/new must be the identical objects, a raising handler must
not undo the assignment nor silence the others.  See DESIGN.md 4 / C02.
"""
import numpy as np

from traits.api import (
    HasTraits, MetaHasTraits, TraitError, Any, Int, Float, Str, Bool, List, Dict, Set, Tuple,
    Instance, Event, Array, Range, Enum, Either, ComparisonMode, Undefined, Button,
    push_exception_handler, pop_exception_handler,
)
from traits.observation import api as obsapi

from vf.util import short

META = {
    "level": "exploration",
    "rule": ("cases = random 12-op histories (assign valid / equal-not-identical / identical / NaN / "
             "==-raising / rejected values, reads incl. first read of a default) on one attribute, over "
             "trait kind x comparison mode x handler mix (static _x_changed/_x_fired arity 0-4, "
             "_anytrait_changed, on_trait_change function arity 0-4 and bound method, two observe "
             "handlers) x which handler raises x exception type. distinct_nontrivial = distinct (kind, "
             "mode, op class, value relation, notified?, raiser) signatures of assignments. Three further "
             "strata keep that oracle and vary where the governing trait comes from (16-op histories over "
             "several names on 1-3 instances of a base class / subclass / a subclass created mid-history; "
             "every handler records the object and name it was registered for, so calls for another name "
             "or object are seen): 'wild' = one to three wildcard traits (_, pre_, __, HasPrivateTraits), "
             "several names born through one prefix by assignment / read / listener registration; 'redef' "
             "= add_trait over a class, wildcard-made or earlier instance trait (other kind and/or "
             "comparison mode) and add_trait of new names while static, anytrait, on_trait_change "
             "(function, bound method, whole-object), observe, @observe and nested observe handlers are "
             "attached; 'private' = declared names with a leading underscore whose magic-named handlers "
             "are spelled as the compiler mangles them, over subclass layouts. A fifth stratum, 'churn', "
             "varies the POPULATION of handlers during a 22-step history over 2-4 names (with and without "
             "static handlers) on 1-2 objects: registrations and removals are interleaved with the "
             "assignments -- on_trait_change for one name / several names in one call (list, 'a, b') / "
             "through an owner (function arity 0-4, bound method, priority), on_trait_change with no name "
             "(object-level; name omitted / None / 'anytrait'), observe for one / several names / through "
             "an owner; removal with remove=True or by dropping the owner of a bound method, handlers put "
             "back after removal -- so each (object, name) passes through the states trait-level listeners "
             "never / live / all left x object-level listeners never / live / all left; after every change "
             "each currently registered handler must have been called exactly once and each removed one "
             "not at all."),
    "phases": [{"name": "main", "flavour": "P", "shards": 16}],
    "gates": {
        "quick": {"evaluations": 20000, "notifying_assignments": 6000, "silent_assignments": 1500,
                  "rejected_assignments": 1500, "reads": 2000, "raising_handler_calls": 1500,
                  "oldnew_checked": 15000, "listeners_leaving_during_delivery": 1200,
                  "listener_owners_dropped_during_delivery": 400,
                  "listeners_joining_during_delivery": 400, "reused_definitions": 500,
                  "wild_histories": 500, "redef_histories": 500, "private_histories": 150,
                  "wild_assignments_notifying": 3500, "wild_assignments_silent": 500,
                  "redef_assignments_notifying": 2500, "redef_assignments_silent": 350,
                  "private_assignments_notifying": 1000,
                  "wildcard_names_born_after_a_sibling": 2500,
                  "assignments_while_several_names_share_a_wildcard_with_static_handlers": 2500,
                  "redefinitions": 1500, "redefinitions_with_observers_attached": 600,
                  "changes_after_redefinition_owed_to_observers": 300,
                  "changes_after_redefinition_owed_to_legacy_handlers": 500,
                  "new_names_added": 700, "assignments_to_added_names": 250,
                  "late_subclasses": 300, "assignments_on_late_subclass_instances": 500,
                  "changes_of_private-name/static-inherited": 80,
                  "handler_obligations_checked": 20000,
                  "churn_histories": 800, "churn_assignments_notifying": 6500,
                  "churn_assignments_silent": 800, "churn_registrations_trait_level": 3000,
                  "churn_registrations_object_level": 1000, "churn_removals_trait_level": 2000,
                  "churn_removals_object_level": 650, "churn_removals_by_dropping_the_owner": 100,
                  "churn_handlers_registered_again_after_removal": 400,
                  "churn_last_trait_level_listener_removed_while_object_level_listeners_remain": 200,
                  "churn_last_object_level_listener_removed_while_trait_level_listeners_remain": 180,
                  "churn_changes_with_trait-level=left,object-level=live": 180,
                  "churn_changes_with_trait-level=live,object-level=left": 230,
                  "churn_changes_with_trait-level=left,object-level=left": 230,
                  "churn_event_firings_with_trait-level=left,object-level=live": 70,
                  "churn_handler_obligations_checked": 10000,
                  "churn_removed_handlers_seen_silent": 5000, "churn_raising_handler_calls": 600},
        "thorough": {"evaluations": 4000000, "notifying_assignments": 1500000,
                     "silent_assignments": 400000, "rejected_assignments": 400000, "reads": 500000,
                     "raising_handler_calls": 400000, "oldnew_checked": 4000000,
                     "unread_first_assignments": 100000, "quiet_sets_ok": 250000,
                     "quiet_sets_rejected": 50000, "layout:split": 250000,
                     "other_trait_assignments": 700000,
                     "listeners_leaving_during_delivery": 300000,
                     "listener_owners_dropped_during_delivery": 100000,
                     "listeners_joining_during_delivery": 100000, "reused_definitions": 120000,
                     "wild_histories": 50000, "redef_histories": 50000, "private_histories": 15000,
                     "wild_assignments_notifying": 350000, "wild_assignments_silent": 50000,
                     "redef_assignments_notifying": 250000, "redef_assignments_silent": 35000,
                     "private_assignments_notifying": 90000,
                     "wildcard_names_born_after_a_sibling": 250000,
                     "assignments_while_several_names_share_a_wildcard_with_static_handlers": 250000,
                     "redefinitions": 150000, "redefinitions_with_observers_attached": 60000,
                     "changes_after_redefinition_owed_to_observers": 30000,
                     "changes_after_redefinition_owed_to_legacy_handlers": 50000,
                     "new_names_added": 70000, "assignments_to_added_names": 25000,
                     "late_subclasses": 30000, "assignments_on_late_subclass_instances": 50000,
                     "changes_of_private-name/static-inherited": 7500,
                     "handler_obligations_checked": 1800000,
                     "churn_histories": 48000, "churn_assignments_notifying": 390000,
                     "churn_assignments_silent": 48000, "churn_registrations_trait_level": 180000,
                     "churn_registrations_object_level": 60000,
                     "churn_removals_trait_level": 120000, "churn_removals_object_level": 39000,
                     "churn_removals_by_dropping_the_owner": 6000,
                     "churn_handlers_registered_again_after_removal": 24000,
                     "churn_last_trait_level_listener_removed_while_object_level_listeners_remain": 12000,
                     "churn_last_object_level_listener_removed_while_trait_level_listeners_remain": 10800,
                     "churn_changes_with_trait-level=left,object-level=live": 10800,
                     "churn_changes_with_trait-level=live,object-level=left": 13800,
                     "churn_changes_with_trait-level=left,object-level=left": 13800,
                     "churn_event_firings_with_trait-level=left,object-level=live": 4200,
                     "churn_handler_obligations_checked": 600000,
                     "churn_removed_handlers_seen_silent": 300000,
                     "churn_raising_handler_calls": 36000},
    },
    "assumptions": [
        "value pools avoid objects whose == and != are mutually inconsistent (the statement's "
        "'compares unequal' is only well defined when they agree)",
        "del obj.x is not in the statement's alphabet and is not generated",
        "strata wild/redef give names with a leading underscore no magic-named _name_changed method "
        "(whether a name-mangled method counts as registered for a wildcard-made name is not settled by "
        "the statement); stratum private judges them on declared names only",
        "the value left readable after add_trait replaced a definition is adopted as 'before', not judged",
        "stratum churn: a removal repeats the name argument of a registration call (names registered one "
        "by one or through a list may also be removed through a list); what a removal spelled differently "
        "from the registration takes away, and double registration of one handler for one name, are "
        "registration semantics (C09), not judged here",
    ],
}


class BadEq:
    def __eq__(self, o):
        raise RuntimeError("eq")

    def __ne__(self, o):
        raise RuntimeError("ne")

    __hash__ = object.__hash__

    def __repr__(self):
        return "BadEq()"


class ArrEq:
    def __eq__(self, o):
        return np.array([True, False])

    def __ne__(self, o):
        return np.array([True, False])

    __hash__ = object.__hash__

    def __repr__(self):
        return "ArrEq()"


class AlwaysEq:
    """equal to everything (identity mode must still notify, equality must not)"""
    def __eq__(self, o):
        return True

    def __ne__(self, o):
        return False

    __hash__ = object.__hash__

    def __repr__(self):
        return "AlwaysEq()"


class X(HasTraits):
    pass


SHARED_OBJ = X()
SHARED_NAN = float("nan")
SHARED_BADEQ = BadEq()


KINDS = {
    "Any": lambda m: Any(comparison_mode=m),
    "Int": lambda m: Int(comparison_mode=m),
    "Float": lambda m: Float(comparison_mode=m),
    "Str": lambda m: Str(comparison_mode=m),
    "Bool": lambda m: Bool(comparison_mode=m),
    "ListInt": lambda m: List(Int, comparison_mode=m),
    "DictStrInt": lambda m: Dict(Str, Int, comparison_mode=m),
    "SetInt": lambda m: Set(Int, comparison_mode=m),
    "Tuple": lambda m: Tuple(Int, Str, comparison_mode=m),
    "Inst": lambda m: Instance(X, comparison_mode=m),
    "Range": lambda m: Range(0.0, 10.0, comparison_mode=m),
    "Enum": lambda m: Enum(1, 2, "a", 1.0, comparison_mode=m),
    "Either": lambda m: Either(Int, Str, None, comparison_mode=m),
    "Event": lambda m: Event(),
    "EventInt": lambda m: Event(Int),
    "Button": lambda m: Button(),
    "Array": lambda m: Array(comparison_mode=m),
    "Dyn": lambda m: Int(comparison_mode=m),
    "DynList": lambda m: List(Int, comparison_mode=m),
    # dynamic defaults returning a SHARED pre-existing object
    "DynNone": lambda m: Any(comparison_mode=m),
    "DynObj": lambda m: Any(comparison_mode=m),
    "DynNan": lambda m: Any(comparison_mode=m),
    "DynBadEq": lambda m: Any(comparison_mode=m),
    "FactoryObj": lambda m: Any(factory=_shared_factory, comparison_mode=m),
}


def _shared_factory():
    return SHARED_OBJ


# value readable before anything was read or assigned, for kinds where the harness knows it
# without reading (so that a history may START with an assignment)
KNOWN_DEFAULT = {
    "Any": None, "Int": 0, "Str": "", "Bool": False, "Inst": None, "Either": None, "Dyn": 5,
    "DynNone": None, "DynObj": SHARED_OBJ, "DynNan": SHARED_NAN, "DynBadEq": SHARED_BADEQ,
    "FactoryObj": SHARED_OBJ,
}
DYN_DEFAULTS = {"DynNone": None, "DynObj": SHARED_OBJ, "DynNan": SHARED_NAN, "DynBadEq": SHARED_BADEQ}


def pool(kind):
    return pools()[kind]


def pools():
    nan1, nan2 = float("nan"), float("nan")
    x1 = X()
    l1 = [1, 2]
    d1 = {"a": 1}
    t1 = (1, "a")
    ae = AlwaysEq()
    return {
        "Any": [1, 1.0, True, "ab", "".join(["a", "b"]), l1, [1, 2], l1, nan1, nan1, nan2, BadEq(),
                BadEq(), ArrEq(), None, None, np.array([1, 2]), np.array([1, 2]), np.array([1, 2, 3]),
                x1, x1, X(), ae, ae, AlwaysEq(), (1, 2), (1, 2)],
        "Int": [1, 1, True, 2, np.int32(2), "bad", None, 10 ** 20, 10 ** 20 + 0, 0],
        "Float": [1.0, 1, True, nan1, nan1, nan2, 0.0, -0.0, "bad", 1e300 * 10],
        "Str": ["ab", "".join(["a", "b"]), "c", 1, None, ""],
        "Bool": [True, False, True, np.bool_(True), 1, None],
        "ListInt": [l1, [1, 2], l1, [3], [], "bad", [1, "x"]],
        "DictStrInt": [d1, {"a": 1}, d1, {}, {"b": 2}, {1: 1}, "bad"],
        "SetInt": [{1}, {1}, set(), {2, 3}, {"x"}, "bad"],
        "Tuple": [t1, (1, "a"), t1, (2, "b"), (1, 2), "bad", (True, "a")],
        "Inst": [x1, x1, X(), None, None, 5],
        "Range": [1.0, 1, 1.0, 5, 10.0, 11.0, "bad", nan1],
        "Enum": [1, 1.0, True, 2, "a", "".join(["a"]), 3, None],
        "Either": [1, 1.0, True, "a", None, None, 2, [1]],
        "Event": [1, 1, None, l1, l1, Undefined],
        "EventInt": [1, 1, 2, "bad"],
        "Button": [1, None, None],
        "Array": [np.array([1, 2]), np.array([1, 2]), np.array([1.0, 2.0]), [1, 2], np.array([1, 2, 3]),
                  "bad", np.array([[1, 2], [3, 4]])],
        "Dyn": [5, 5, 6, "bad"],
        "DynList": [[7], [7], [8], "bad"],
        "DynNone": [None, None, 1, x1, None],
        "DynObj": [SHARED_OBJ, SHARED_OBJ, x1, None, SHARED_OBJ],
        "DynNan": [SHARED_NAN, SHARED_NAN, nan1, 1.0, SHARED_NAN],
        "DynBadEq": [SHARED_BADEQ, SHARED_BADEQ, BadEq(), 1, SHARED_BADEQ],
        "FactoryObj": [SHARED_OBJ, SHARED_OBJ, x1, None, SHARED_OBJ],
    }


EXCS = [RuntimeError, TraitError, ValueError, KeyError, ZeroDivisionError]


def expected_change(is_event, mode, before, after):
    if is_event or mode == ComparisonMode.none:
        return True
    if after is before:
        return False
    if mode == ComparisonMode.identity:
        return True
    try:
        return not bool(before == after)
    except Exception:
        return True


def relation(before, after):
    if after is before:
        return "identical"
    try:
        return "equal" if bool(before == after) else "unequal"
    except Exception:
        return "eq-raises"


def run_history(ctx, h, legacy_errs, obs_errs):
    rng = ctx.rng("hist", h)
    kind = rng.choice(list(KINDS))
    mode = rng.choice([ComparisonMode.none, ComparisonMode.identity, ComparisonMode.equality])
    st_ar = rng.randrange(0, 5)
    otc_ar = rng.randrange(0, 5)
    mechs = ["static", "any", "otc", "otcm", "obs", "obs2"]
    raiser = rng.choice([None, None] + mechs)
    exc = rng.choice(EXCS)
    LOG = []          # (mech, old|MISSING, new|MISSING)
    M = object()

    def rec(mech, old=M, new=M):
        LOG.append((mech, old, new))
        if raiser == mech:
            ctx.count("raising_handler_calls")
            raise exc("boom")
    ns = {"x": KINDS[kind](mode), "other": Int(0)}
    # one trait definition object serving several attributes / classes: the definition has
    # already been turned into a class trait (twice) before the class under test is built
    reused = rng.random() < 0.3
    if reused:
        MetaHasTraits("Earlier", (HasTraits,), {"x": ns["x"], "z": ns["x"]})
        ctx.count("reused_definitions")
    is_event = kind in ("Event", "EventInt", "Button")
    sfx = "fired" if is_event and rng.random() < 0.5 else "changed"
    statics = [lambda self: rec("static"), lambda self, new: rec("static", M, new),
               lambda self, old, new: rec("static", old, new),
               lambda self, name, old, new: rec("static", old, new),
               lambda self, name, old, new: rec("static", old, new)]
    ns["_x_" + sfx] = statics[st_ar]

    def anyc(self, name, old, new):
        if name == "x":
            rec("any", old, new)
    ns["_anytrait_changed"] = anyc
    if kind == "Dyn":
        ns["_x_default"] = lambda self: 5
    if kind == "DynList":
        ns["_x_default"] = lambda self: [7]
    if kind in DYN_DEFAULTS:
        ns["_x_default"] = lambda self, _d=DYN_DEFAULTS[kind]: _d

    def bound_handler(self, obj, name, old, new):
        rec("otcm", old, new)
    ns["bound_handler"] = bound_handler
    # a second trait with its own comparison mode, assigned at random points: static anytrait
    # machinery is shared by all traits of a class
    ymode = rng.choice([ComparisonMode.none, ComparisonMode.identity, ComparisonMode.equality])
    ns["y"] = Any(comparison_mode=ymode)
    # where the magic-named handlers come from: the class body itself, or a different base
    # class than the one declaring the trait (a mixin, plain or HasTraits, either base order)
    layout = rng.choice(["flat", "flat", "mixin-plain", "mixin-traits", "mixin-first", "sub"])
    if layout == "flat":
        K = MetaHasTraits("K", (HasTraits,), ns)
    else:
        handler_names = [k for k in ns if (k.startswith("_x_") and k != "_x_default") or k == "_anytrait_changed"]
        decl = {k: v for k, v in ns.items() if k not in handler_names}
        hand = {k: ns[k] for k in handler_names}
        Model = MetaHasTraits("Model", (HasTraits,), decl)
        if layout == "sub":
            K = MetaHasTraits("K", (Model,), hand)          # handlers supplied by a subclass
        else:
            if layout == "mixin-traits":
                Mixin = MetaHasTraits("Mixin", (HasTraits,), hand)
            else:
                Mixin = type("Mixin", (object,), hand)
            bases = (Mixin, Model) if layout == "mixin-first" else (Model, Mixin)
            K = MetaHasTraits("K", bases, {})
        if rng.random() < 0.3:
            K = MetaHasTraits("K2", (K,), {})               # a further subclass inherits it all
    cfg_layout = layout
    o = K()
    otcs = [lambda: rec("otc"), lambda new: rec("otc", M, new), lambda name, new: rec("otc", M, new),
            lambda obj, name, new: rec("otc", M, new), lambda obj, name, old, new: rec("otc", old, new)]
    f_otc = otcs[otc_ar]
    ob1 = lambda e: rec("obs", e.old, e.new)
    ob2 = lambda e: rec("obs2", e.old, e.new)
    regs = [lambda: o.on_trait_change(f_otc, "x"), lambda: o.on_trait_change(o.bound_handler, "x"),
            lambda: o.observe(ob1, "x"), lambda: o.observe(ob2, "x")]
    # further listeners that LEAVE (or join) the trait's notifier list while a notification is
    # being delivered: one-shots removing themselves, listeners removing an earlier one, a
    # bound-method listener whose owner dies because a running handler dropped the last
    # reference, listeners registering another.  The six recorders above stay registered
    # throughout, so each of them is still owed exactly one call per change; a listener that
    # left is owed none on LATER assignments.
    cur = {"step": -1}
    extras = []

    def mk_extra(i):
        ek = rng.choice(["oneshot-otc", "oneshot-obs", "kill-prev", "drop-owner", "adder"])
        st = {"kind": ek, "at": rng.randint(1, 3), "calls": 0, "gone_at": None, "late": 0}
        extras.append(st)

        def seen():
            st["calls"] += 1
            if st["gone_at"] is not None and cur["step"] > st["gone_at"]:
                st["late"] += 1
            return st["calls"] == st["at"]
        if ek == "oneshot-otc":
            def h():
                if seen() and st["gone_at"] is None:
                    o.on_trait_change(h, "x", remove=True)
                    st["gone_at"] = cur["step"]
                    ctx.count("listeners_leaving_during_delivery")
            st["remove"] = lambda: o.on_trait_change(h, "x", remove=True)
            return [lambda: o.on_trait_change(h, "x")]
        if ek == "oneshot-obs":
            def h(e):
                if seen() and st["gone_at"] is None:
                    o.observe(h, "x", remove=True)
                    st["gone_at"] = cur["step"]
                    ctx.count("listeners_leaving_during_delivery")
            st["remove"] = lambda: o.observe(h, "x", remove=True)
            return [lambda: o.observe(h, "x")]
        if ek == "kill-prev":
            def h():
                if seen():
                    for prev in extras[:i][::-1]:
                        if prev["gone_at"] is None and prev.get("remove"):
                            try:
                                prev["remove"]()
                            except Exception:
                                continue
                            prev["gone_at"] = cur["step"]
                            ctx.count("listeners_leaving_during_delivery")
                            break
            return [lambda: o.on_trait_change(h, "x")]
        if ek == "drop-owner":
            class Owner:
                def handle(self):
                    seen()
            refs = [Owner()]
            dst = {"calls": 0}

            def dropper():
                dst["calls"] += 1
                if dst["calls"] == st["at"] and refs:
                    del refs[:]
                    st["gone_at"] = cur["step"]
                    ctx.count("listeners_leaving_during_delivery")
                    ctx.count("listener_owners_dropped_during_delivery")
            two = [lambda: o.on_trait_change(refs[0].handle, "x"), lambda: o.on_trait_change(dropper, "x")]
            return two if rng.random() < 0.6 else two[::-1]

        def h():
            if seen():
                o.on_trait_change(lambda: None, "x")
                ctx.count("listeners_joining_during_delivery")
        return [lambda: o.on_trait_change(h, "x")]
    for i in range(rng.choice([0, 0, 1, 2, 3])):
        for r in mk_extra(i):
            regs.insert(rng.randint(0, len(regs)), r)
    for r in regs:
        r()
    if extras:
        ctx.count("histories_with_leaving_or_joining_listeners")
    P = pool(kind)
    x_shared = X()
    trace = []
    cfg = {"kind": kind, "mode": mode.name, "static_arity": st_ar, "otc_arity": otc_ar,
           "raiser": raiser, "exc": exc.__name__, "suffix": sfx, "layout": cfg_layout,
           "ymode": ymode.name, "extra_listeners": [(e["kind"], e["at"]) for e in extras],
           "definition_reused": reused}
    ctx.count("layout:" + ("flat" if cfg_layout == "flat" else "split"))
    ypool = [1, 1, 1.0, "a", None, None, x_shared, x_shared, [1], [1]]

    def viol(complaint, msg):
        ctx.violation("%s/%s/%s" % (complaint, "event" if is_event else kind, mode.name if not is_event else "-"),
                      "%s: %s | config %r | history %r" % (complaint, msg, cfg, trace),
                      {"config": cfg, "history": list(trace)})
        return True

    # the attribute has been neither read nor assigned yet: for kinds whose default the harness
    # knows, the first assignment may come before any read
    unread = kind in KNOWN_DEFAULT and rng.random() < 0.6
    for step in range(12):
        cur["step"] = step
        for st in extras:
            if st["late"]:
                return viol("listener-called-after-it-left/" + st["kind"],
                            "a %s listener that left the notifier list at step %d was called again on a "
                            "later assignment" % (st["kind"], st["gone_at"]))
        del LOG[:], legacy_errs[:], obs_errs[:]
        opk = rng.choice(["set", "set", "set", "read", "set", "setq", "sety"])
        if step == 0 and rng.random() < 0.5:
            opk = "sety"          # another trait of the class fires first
        if opk == "sety":
            trace.append("set y")
            try:
                o.y = rng.choice(ypool)
            except Exception as e:
                return viol("assignment-raised:" + type(e).__name__, "assigning the other trait let %r escape" % (e,))
            ctx.count("other_trait_assignments")
            if [e for e in LOG if e[0] != "any"] or any(True for e in LOG if e[0] == "any"):
                # recorders only log changes of x (the anytrait recorder filters by name)
                return viol("other-trait-notified-x-handlers", "assigning y called %r" % [e[0] for e in LOG])
            continue
        if unread and step == 0:
            opk = "set"
            ctx.count("unread_first_assignments")
        if opk == "setq":
            # quiet set (documented not to notify); a rejected one must not disturb later ops
            v = rng.choice(P)
            trace.append("setq " + short(v, 30))
            before = Undefined if is_event else o.x
            unread = False
            del LOG[:]
            try:
                o.trait_setq(x=v)
                okq = True
            except TraitError:
                okq = False
            except Exception as e:
                return viol("quiet-set-raised:" + type(e).__name__, "trait_setq let %r escape" % (e,))
            ctx.ev()
            ctx.count("quiet_sets_ok" if okq else "quiet_sets_rejected")
            if LOG:
                return viol("quiet-set-notified", "trait_setq called %r" % [e[0] for e in LOG])
            if not okq and not is_event and o.x is not before:
                return viol("rejected-changed-value", "value changed by a rejected quiet set")
            continue
        if opk == "read":
            if is_event:
                continue
            unread = False
            trace.append("read")
            v0 = o.x
            ctx.ev()
            ctx.count("reads")
            if LOG:
                return viol("read-notified", "a read called %r" % [e[0] for e in LOG])
            if o.x is not v0:
                return viol("read-not-stable", "two consecutive reads returned different objects")
            continue
        v = rng.choice(P)
        trace.append(("set-unread " if unread else "set ") + short(v, 30))
        if unread:
            before = KNOWN_DEFAULT[kind]
            unread = False
        else:
            before = Undefined if is_event else o.x
        if LOG:
            return viol("read-notified", "reading the value before an assignment called handlers")
        try:
            o.x = v
            ok = True
        except TraitError:
            ok = False
        except Exception as e:
            return viol("assignment-raised:" + type(e).__name__, "assignment let %r escape" % (e,))
        ctx.ev()
        snap = list(LOG)      # handlers must not be triggered by the monitor's own reads below
        after = v if is_event else o.x
        if len(LOG) != len(snap):
            return viol("read-notified", "reading the value after an assignment called handlers")
        if not ok:
            ctx.count("rejected_assignments")
            ctx.sig(kind, mode.name, "rejected")
            if snap:
                return viol("rejected-notified", "a rejected assignment called %r" % [e[0] for e in snap])
            if not is_event and after is not before:
                return viol("rejected-changed-value", "value changed by a rejected assignment")
            if legacy_errs or obs_errs:
                return viol("rejected-exception-channel", "rejected assignment put something on an exception channel")
            continue
        exp = expected_change(is_event, mode, before, after)
        ctx.count("notifying_assignments" if exp else "silent_assignments")
        ctx.sig(kind, mode.name, relation(before, after) if not is_event else "event", exp, raiser)
        counts = {}
        for e in snap:
            counts[e[0]] = counts.get(e[0], 0) + 1
        for m in mechs:
            if counts.get(m, 0) != (1 if exp else 0):
                return viol("%s-called-%d-expected-%d" % (m, counts.get(m, 0), int(exp)),
                            "before=%s after=%s relation=%s" % (short(before, 40), short(after, 40),
                                                                 relation(before, after)))
        for (m, eo, en) in snap:
            if en is not M:
                ctx.count("oldnew_checked")
                if en is not after:
                    return viol("%s-new-not-readable-value" % m, "new=%s readable=%s" % (short(en), short(after)))
            if eo is not M:
                if is_event:
                    if eo is not Undefined:
                        return viol("%s-event-old-not-Undefined" % m, "old=%s" % short(eo))
                elif eo is not before:
                    return viol("%s-old-not-previous-value" % m, "old=%s previous=%s" % (short(eo), short(before)))
        if raiser and exp:
            chan = obs_errs if raiser.startswith("obs") else legacy_errs
            if not chan:
                return viol("handler-exception-vanished", "raising %s handler left nothing on its exception channel" % raiser)
        if not raiser and (legacy_errs or obs_errs):
            return viol("unexpected-exception-on-channel", short((legacy_errs or obs_errs)[0], 200))
        if not is_event and o.x is not after:
            return viol("value-unstable-after-assignment", "")
    return False


def run(ctx):
    legacy_errs, obs_errs = [], []
    push_exception_handler(lambda *a: legacy_errs.append(a), reraise_exceptions=False, main=True)
    obsapi.push_exception_handler(lambda e: obs_errs.append(e))
    try:
        nh = ctx.scale(6000, 1500000)
        B = 50
        for b in range(0, nh, B):
            if not ctx.mine(b // B):
                continue
            if not ctx.begin("hist:%d" % b):
                continue
            try:
                for h in range(b, min(nh, b + B)):
                    run_history(ctx, h, legacy_errs, obs_errs)
                    ctx.count("histories")
                if b < B * ctx.nshards:
                    ctx.sample({"history_batch_from": b, "size": B})
            finally:
                ctx.end()
        # strata over the provenance of the governing trait (see _c02_worlds.py): names made by
        # wildcard traits, and definitions replaced / added at run time with handlers attached
        from vf.monitors import _c02_worlds
        BW = 25
        for si, (stratum, nw) in enumerate((("wild", ctx.scale(900, 100000)),
                                            ("redef", ctx.scale(900, 100000)),
                                            ("private", ctx.scale(300, 30000)),
                                            ("churn", ctx.scale(1600, 200000)))):
            for b in range(0, nw, BW):
                if not ctx.mine(b // BW + si):
                    continue
                if not ctx.begin("%s:%d" % (stratum, b)):
                    continue
                try:
                    for h in range(b, min(nw, b + BW)):
                        if stratum == "churn":
                            _c02_worlds.run_churn(ctx, h, legacy_errs, obs_errs)
                        else:
                            _c02_worlds.run_world(ctx, stratum, h, legacy_errs, obs_errs)
                        ctx.count("histories")
                    if b < BW * ctx.nshards:
                        ctx.sample({"stratum": stratum, "history_batch_from": b, "size": BW})
                finally:
                    ctx.end()
    finally:
        obsapi.pop_exception_handler()
        pop_exception_handler()
