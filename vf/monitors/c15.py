"""C15 -- the observe mini-language means what its grammar and tables say.

Oracle: an independent recursive-descent recogniser + denotation written from
the 24 rules of ``_dsl_grammar.lark`` and the table of the user manual
(``notification.rst``): the meaning of a string is the *set of root-to-leaf
paths* ``(observer kind, name | metadata | '*', notify, optional)``.  It is
compared with the paths read off the ``ObserverGraph`` objects returned by
``compile_str``.  Further laws: rejection is by ``ValueError`` only; re-parsing
after lru-cache eviction gives ``==`` objects with equal hashes; whitespace and
redundant-bracket respellings compile to ``==`` graphs; registration by one
spelling is removed by another on a live object (notifier census restored);
a text keeps its denotation while it is used, together with expression objects,
in the list forms of observe / @observe / Property(observe=...) (workload g).
See DESIGN.md section 4 / C15.
"""
from collections import Counter
from functools import lru_cache
import itertools

from traits.api import HasTraits, Instance, List, Dict, Set, Str, Int
from traits.observation import api as oapi

META = {
    "level": "exploration",
    "rule": ("cases = strings: (a) EVERY token string over the 10 symbols {a b items + * . : , [ ]} of "
             "length 1..6 (quick, 1 111 110 strings) / 1..8 (thorough, 111 111 110 strings), tokens "
             "concatenated with one blank only between two adjacent words ('+' is its own symbol, so "
             "'+a' and '+items' arise); (b) every derivation *shape* of the grammar (parallel / series "
             "/ bracket structure x connector choice) with <= 4 leaves to bracket depth 3 and 5 leaves "
             "to depth 2 (thorough: <= 5 leaves depth 3, plus a seed-rotated 1-in-8 slice of 6 leaves "
             "depth 2), leaves filled by a seeded sample of atoms (names incl. itemsx/Items/unicode, "
             "items, +metadata, terminal *), plus random larger derivations; each accepted string is "
             "re-spelt with sampled whitespace (space, tab, newline, CR, FF, mixed, edges) and "
             "redundant brackets (whole, doubled, one element, one series, a sub-series); (c) random "
             "character-level strings and 1-3 character edits of valid strings over a hostile alphabet "
             "(unicode letters/digits, NBSP, VT, EM SPACE, NEL, ZWSP, NUL, ...); (d) parse/compile of 8 "
             "strings before and after >= 300 other accepted strings (lru eviction); (e) observe by "
             "one spelling / remove by another on a live object tree with a notifier census; (f) what "
             "the filter elements select: two generated classes per case whose traits (Int, Str, Float, "
             "Bool, Any, List) carry metadata values of every truthiness class (undefined, None, truthy, "
             "falsy: False 0 '' 0.0 () [] {} b'' 0j frozenset() and an object with __bool__ False; in a "
             "fifth of the cases an object whose bool() raises), patterns prefix x filter (prefix: none, "
             "link, list items, bracketed links, bracketed link+items; filter: +name, [+name], "
             "[+n1,+n2], *), every tabled trait assigned, the traits that fired compared with the "
             "documented selection computed from the declaration table (a value was given and is not "
             "None), again after add_trait on targets and non-targets and after a new list item, then "
             "removal by a respelling (census restored, silence); metadata names spelt __like_this__ "
             "form their own stratum; "
             "(g) the list forms accepted by HasTraits.observe, the @observe decorator and "
             "Property(observe=...): lists of 1-4 elements, each a text (any spelling) or an expression "
             "object (parse(text), or the same pattern built with trait()/metadata()/anytrait()/"
             "*_items()/then()/|), all-text, all-expression and mixed, in every order (quick: <= 6 orders "
             "of a 4-list), an element given twice in a quarter of the uses, each list used through all "
             "three routes on live classes (observe: registered 1-3 times and removed as a list, removed "
             "piece by piece through respellings, registered piece by piece and removed as a list, with "
             "notifier census and silence afterwards; decorator and Property on freshly made classes), "
             "BETWEEN two evaluations of the denotation of every text involved and of its whitespace / "
             "bracket respellings (compile_str paths == reference paths, graphs == the ones fetched "
             "before, parse ==, compile_expr(parse) paths) and of every expression object; what the "
             "handlers / the property receive when every value trait and every link trait of a depth-2 "
             "object tree is assigned is compared with the reference paths interpreted on that tree; "
             "the plain texts are also observed alone on a second fresh tree before and after (same "
             "outcome, fires as denoted, removal by a respelling restores the census). "
             "distinct_nontrivial counts distinct signatures (rejected: the reference's reject reason; "
             "accepted: top-level width, bracket depth, leaf-count class, */+metadata/items present, "
             "bracket before a connector, connector kinds; respellings: part x variant kind x whether "
             "expression/graph objects were equal; cache and live outcome classes).  Every string is "
             "non-trivial: it is rejected for a stated reason or has a denotation that is compared."),
    "phases": [{"name": "main", "flavour": "P", "shards": 16}],
    "gates": {
        "quick": {"evaluations": 600000, "accepted": 200000, "rejected": 380000,
                  "tok_strings": 370000, "shape_cases": 64000, "variants_checked": 120000,
                  "random_accepted": 6000, "random_rejected": 12000,
                  "cache_rechecks": 400, "cache_evicted_reparse": 400,
                  "live_roundtrips": 500, "live_attached": 400, "reject_reasons_seen": 100,
                  "distinct_meaning_pairs": 70000,
                  "meta_cases": 600, "meta_selected_fired": 12000, "meta_falsy_fired": 6000,
                  "meta_boolraises_fired": 250, "meta_added_before_fired": 700,
                  "meta_added_later_fired": 800, "meta_added_later_falsy_fired": 400,
                  "meta_new_item_fired": 1200, "meta_unselected_silent": 20000,
                  "meta_removed_silent": 600, "meta_dunder_cases": 30,
                  "listform_cases": 240, "listform_uses": 2800, "listform_mixed_str_first": 800,
                  "listform_mixed_expr_first": 1000, "listform_all_str": 400, "listform_all_expr": 450,
                  "listform_rechecks": 7500, "listform_fired_matched": 2900,
                  "listform_piecewise_removed": 1100, "listform_removed_silent": 1000,
                  "listform_decorated_classes": 1000, "listform_property_classes": 750,
                  "listform_repeated_element": 700, "listform_second_object_probes": 600,
                  "listform_second_object_fired": 450},
        "thorough": {"evaluations": 40000000, "accepted": 1500000, "rejected": 36000000,
                     "tok_strings": 37000000, "shape_cases": 500000, "variants_checked": 1000000,
                     "random_accepted": 200000, "random_rejected": 400000,
                     "cache_rechecks": 8000, "cache_evicted_reparse": 8000,
                     "live_roundtrips": 10000, "live_attached": 9000, "reject_reasons_seen": 100,
                     "distinct_meaning_pairs": 600000,
                     "meta_cases": 10000, "meta_selected_fired": 200000, "meta_falsy_fired": 100000,
                     "meta_boolraises_fired": 4000, "meta_added_before_fired": 11000,
                     "meta_added_later_fired": 13000, "meta_added_later_falsy_fired": 6500,
                     "meta_new_item_fired": 20000, "meta_unselected_silent": 330000,
                     "meta_removed_silent": 10000, "meta_dunder_cases": 300,
                     "listform_cases": 6000, "listform_uses": 125000, "listform_mixed_str_first": 37000,
                     "listform_mixed_expr_first": 50000, "listform_all_str": 19000,
                     "listform_all_expr": 17000, "listform_rechecks": 190000,
                     "listform_fired_matched": 140000, "listform_piecewise_removed": 58000,
                     "listform_removed_silent": 47000, "listform_decorated_classes": 47000,
                     "listform_property_classes": 34000, "listform_repeated_element": 34000,
                     "listform_second_object_probes": 15000, "listform_second_object_fired": 11000},
    },
    "exhaustive_parts": ("all token strings over {a,b,items,+,*,.,:,',',[,]} of length 1..6 (quick) / "
                         "1..8 (thorough): acceptance, exception class and denotation checked on every "
                         "one, unpruned; all derivation shapes with <= 4 leaves to bracket depth 3 "
                         "(thorough: <= 5 leaves)"),
    "assumptions": ["the rules of _dsl_grammar.lark (NAME=/[a-zA-Z_]\\w*/ with Python's unicode \\w, "
                    "keyword items, WS=[ \\t\\f\\r\\n]+ ignored between tokens, '*' only as the "
                    "last element of a top-level series) and the manual's table are the contract; the "
                    "manual's prose example \"[a.*, b.c]\" is not",
                    "the meaning of a pattern is its set of root-to-leaf paths (kind, arg, notify, "
                    "optional); multiplicities of identical paths are not part of it",
                    "strings stay far below the interpreter recursion limit (<= ~80 elements); the "
                    "translator recurses once per series element",
                    "'+name' selects the traits for which metadata `name` was given and is not None "
                    "(manual table; docstrings of metadata() and MetadataFilter); '*' selects every "
                    "trait; truthiness of the metadata value plays no role",
                    "list forms: a list argument means the union of its elements (manual: 'a list of "
                    "expressions'); only plain trait assignments on a tree-shaped object graph are "
                    "judged, as sets of (object, trait) that reached the handler - never multiplicities; "
                    "a Property whose own list would observe every root trait ('*' first) is not built",
                    "graph nodes are read through their public attributes (name, notify, optional, "
                    "filter.metadata_name) and classified by class name"],
    "case_timeout": 900,
}

# ===========================================================================
# Reference: tokens, recogniser, denotation (independent of traits)
# ===========================================================================
WS_CHARS = " \t\f\r\n"
PUNCT = "+*.:,[]"


class Reject(Exception):
    def __init__(self, reason):
        Exception.__init__(self, reason)
        self.reason = reason


def _char_class(c):
    o = ord(c)
    if c.isspace():
        return "space-like"          # NBSP, VT, FS.., EM SPACE: not in the grammar's WS
    if o < 32 or o == 127:
        return "control"
    if 0xD800 <= o <= 0xDFFF:
        return "surrogate"
    if c.isalpha():
        return "letter-start" if o > 127 else "letter"
    if c.isalnum():
        return "digit-start"
    if o < 128:
        return "ascii-punct"
    return "other"


def tokenize(s):
    toks = []
    i, n = 0, len(s)
    while i < n:
        c = s[i]
        if c in WS_CHARS:
            i += 1
        elif c in PUNCT:
            toks.append((c, c))
            i += 1
        elif c == "_" or "a" <= c <= "z" or "A" <= c <= "Z":
            j = i + 1
            while j < n and (s[j] == "_" or s[j].isalnum()):
                j += 1
            toks.append(("NAME", s[i:j]))
            i = j
        else:
            raise Reject("bad-char:" + _char_class(c))
    return toks


_TOKNAME = {"NAME": "name", "+": "plus", "*": "star", ".": "dot", ":": "colon", ",": "comma",
            "[": "open", "]": "close", None: "end"}


def ref_parse(s):
    """AST of `s` or raises Reject(reason).

    top / bracket contents: tuple of series; series: tuple of (element, connector|None);
    element: ('n', name) | ('i',) | ('m', name) | ('*',) | ('g', parallel)."""
    toks = tokenize(s)
    ntok = len(toks)
    pos = 0

    def kind():
        return toks[pos][0] if pos < ntok else None

    def element(depth, prev):
        nonlocal pos
        k = kind()
        if k == "NAME":
            v = toks[pos][1]
            pos += 1
            return ("i",) if v == "items" else ("n", v)
        if k == "+":
            pos += 1
            if kind() != "NAME":
                raise Reject("plus-then-" + _TOKNAME[kind()])
            v = toks[pos][1]
            pos += 1
            return ("m", v)
        if k == "[":
            pos += 1
            alts = parallel(depth + 1)
            if kind() != "]":
                raise Reject("in-brackets-" + _TOKNAME[kind()] + "-after-element")
            pos += 1
            return ("g", alts)
        if k == "*":
            raise Reject("star-in-brackets")
        raise Reject("%s-after-%s" % (_TOKNAME[k], prev))

    def series(depth, prev):
        nonlocal pos
        out = []
        while True:
            if depth == 0 and kind() == "*":
                pos += 1
                if kind() in (".", ":"):
                    raise Reject("star-before-connector")
                out.append((("*",), None))
                return tuple(out)
            e = element(depth, prev)
            c = kind()
            if c == "." or c == ":":
                pos += 1
                out.append((e, c))
                prev = "connector"
            else:
                out.append((e, None))
                return tuple(out)

    def parallel(depth):
        nonlocal pos
        alts = [series(depth, "open" if depth else "start")]
        while kind() == ",":
            pos += 1
            alts.append(series(depth, "comma"))
        return tuple(alts)

    top = parallel(0)
    if pos != ntok:
        raise Reject("top-level-%s-after-element" % _TOKNAME[kind()])
    return top


_ITEMS = (("trait", "items"), ("dict_items", None), ("list_items", None), ("set_items", None))


def _elem_paths(e, notify):
    t = e[0]
    if t == "n":
        return [(("trait", e[1], notify, False),)]
    if t == "i":
        return [((k, a, notify, True),) for k, a in _ITEMS]
    if t == "m":
        return [(("metadata", e[1], notify, None),)]
    if t == "*":
        return [(("anytrait", "*", notify, None),)]
    out = []
    for s in e[1]:
        out.extend(_series_paths(s, notify))
    return out


def _series_paths(series, notify):
    acc = [()]
    for e, c in series:
        nf = notify if c is None else (c == ".")
        ps = _elem_paths(e, nf)
        acc = [a + p for a in acc for p in ps]
    return acc


def ref_paths(top):
    out = set()
    for s in top:
        out.update(_series_paths(s, True))
    return out


# ---- classification helpers (used for keys and signatures only) -----------
def _trees(par, notify, children, flag):
    """Canonical trees of a parallel; flag[0] is set when some node gets two
    identical child subtrees (used only to *name* one mechanism key)."""
    out = []
    for series in par:
        cur = children
        for e, c in reversed(series):
            nf = notify if c is None else (c == ".")
            if e[0] == "g":
                cur = _trees(e[1], nf, cur, flag)
            else:
                if len(set(cur)) != len(cur):
                    flag[0] = True
                fs = frozenset(cur)
                cur = [(p[0], fs) for p in _elem_paths(e, nf)]
        out.extend(cur)
    return out


def has_dup_siblings(top):
    flag = [False]
    _trees(top, True, [], flag)
    return flag[0]


def ast_features(top):
    f = {"depth": 0, "star": False, "meta": False, "meta_items": False, "items": False,
         "group": False, "group_left": False, "quiet": False, "dot": False, "series": False,
         "parallel": len(top) > 1, "inner_parallel": False, "nonascii": False, "odd_name": False,
         "leaves": 0}

    def walk(par, d):
        if d > f["depth"]:
            f["depth"] = d
        for series in par:
            if len(series) > 1:
                f["series"] = True
            for e, c in series:
                if c == ":":
                    f["quiet"] = True
                elif c == ".":
                    f["dot"] = True
                t = e[0]
                if t == "g":
                    f["group"] = True
                    if c is not None:
                        f["group_left"] = True
                    if len(e[1]) > 1:
                        f["inner_parallel"] = True
                    walk(e[1], d + 1)
                    continue
                f["leaves"] += 1
                if t == "*":
                    f["star"] = True
                elif t == "i":
                    f["items"] = True
                elif t == "m":
                    f["meta"] = True
                    if e[1] == "items":
                        f["meta_items"] = True
                if t in "nm":
                    if not e[1].isascii():
                        f["nonascii"] = True
                    elif e[1] not in ("a", "b", "items") and t == "n":
                        f["odd_name"] = True
    walk(top, 0)
    return f


def primary_feature(top, s):
    f = ast_features(top)
    if f["nonascii"]:
        return "unicode-name"
    if f["star"]:
        return "star"
    if f["meta_items"]:
        return "metadata-named-items"
    if f["meta"]:
        return "metadata"
    if f["depth"] >= 2:
        return "nested-brackets"
    if f["group_left"]:
        return "brackets-before-connector"
    if f["group"]:
        return "brackets"
    if f["items"]:
        return "items"
    if f["odd_name"]:
        return "other-name"
    if f["quiet"]:
        return "quiet-series"
    if f["series"]:
        return "series"
    if f["parallel"]:
        return "parallel"
    return "single-name"


_WSNAME = {"\t": "tab", "\n": "newline", "\r": "cr", "\f": "formfeed", " ": "space"}


def shape_class(top):
    f = ast_features(top)
    lv = f["leaves"]
    return (min(len(top), 3), f["depth"], lv if lv < 3 else 3 if lv < 5 else 5, f["star"], f["meta"],
            f["items"], f["group_left"], (f["dot"], f["quiet"]))


# ---- rendering ------------------------------------------------------------
def ast_tokens(top):
    out = []

    def par(p):
        for i, series in enumerate(p):
            if i:
                out.append(",")
            for e, c in series:
                t = e[0]
                if t == "n":
                    out.append(e[1])
                elif t == "i":
                    out.append("items")
                elif t == "m":
                    out.append("+")
                    out.append(e[1])
                elif t == "*":
                    out.append("*")
                else:
                    out.append("[")
                    par(e[1])
                    out.append("]")
                if c is not None:
                    out.append(c)
    par(top)
    return out


def render(top):
    return "".join(ast_tokens(top))


WS_KINDS = {"ws-space": [" "], "ws-tab": ["\t"], "ws-newline": ["\n"], "ws-cr": ["\r", "\r\n"],
            "ws-formfeed": ["\f"], "ws-mixed": [" ", "  ", "\t", "\n", "\r\n", "\f", " \t\n "]}
WS_KIND_NAMES = sorted(WS_KINDS)


def render_ws(tokens, rng, kind):
    if kind == "ws-edges":
        pool = WS_KINDS["ws-mixed"]
        return rng.choice(pool) + "".join(tokens) + rng.choice(pool)
    pool = WS_KINDS[kind]
    out = []
    placed = False
    for i, t in enumerate(tokens):
        if i and rng.random() < 0.6:
            out.append(rng.choice(pool))
            placed = True
        out.append(t)
    if not placed or rng.random() < 0.3:
        out.append(rng.choice(pool))
    if rng.random() < 0.3:
        out.insert(0, rng.choice(pool))
    return "".join(out)


def _has_star(par):
    for series in par:
        for e, c in series:
            if e[0] == "*" or (e[0] == "g" and _has_star(e[1])):
                return True
    return False


def _map_series(top, fn):
    """Apply fn(series, depth) -> series to every series, bottom-up; rebuild."""
    def par(p, d):
        out = []
        for series in p:
            ns = tuple(((("g", par(e[1], d + 1)), c) if e[0] == "g" else (e, c)) for e, c in series)
            out.append(fn(ns, d))
        return tuple(out)
    return par(top, 0)


def bracket_variant(top, rng, kind):
    """A respelling of `top` with redundant brackets, or None if not applicable."""
    if kind == "br-whole":
        if _has_star(top):
            return None
        return (((("g", top), None),),)
    if kind == "br-double":
        if _has_star(top):
            return None
        return (((("g", (((("g", top), None),),)), None),),)
    sites = []
    counter = [0]

    def collect(series, d):
        idx = counter[0]
        counter[0] += 1
        n = len(series) - (1 if series[-1][0][0] == "*" else 0)
        if kind == "br-element":
            sites.extend((idx, i, i) for i in range(n))
        elif kind == "br-series":
            if n == len(series):
                sites.append((idx, 0, n - 1))
        else:  # br-span: a contiguous run of >= 2 elements, not the whole series
            for i in range(n):
                for j in range(i + 1, n):
                    if not (i == 0 and j == len(series) - 1):
                        sites.append((idx, i, j))
        return series
    _map_series(top, collect)
    if not sites:
        return None
    sidx, i, j = sites[rng.randrange(len(sites))]
    counter[0] = 0

    def rewrite(series, d):
        idx = counter[0]
        counter[0] += 1
        if idx != sidx:
            return series
        inner = tuple(series[i:j]) + ((series[j][0], None),)
        return tuple(series[:i]) + ((("g", (inner,)), series[j][1]),) + tuple(series[j + 1:])
    return _map_series(top, rewrite)


BR_KINDS = ["br-whole", "br-element", "br-series", "br-span", "br-double"]

# ===========================================================================
# Implementation side
# ===========================================================================
_ITEMKIND = {"ListItemObserver": "list_items", "DictItemObserver": "dict_items",
             "SetItemObserver": "set_items"}


def node_desc(node):
    tn = type(node).__name__
    if tn == "NamedTraitObserver":
        return ("trait", node.name, node.notify, node.optional)
    k = _ITEMKIND.get(tn)
    if k is not None:
        return (k, None, node.notify, node.optional)
    if tn == "FilteredTraitObserver":
        f = node.filter
        if type(f).__name__ == "MetadataFilter":
            return ("metadata", f.metadata_name, node.notify, None)
        if getattr(f, "__name__", None) == "anytrait_filter":
            return ("anytrait", "*", node.notify, None)
        return ("filter:" + type(f).__name__, None, node.notify, None)
    return ("node:" + tn, None, getattr(node, "notify", None), getattr(node, "optional", None))


def fmt_paths(paths, limit=6):
    """Compact literal form of a path set for samples."""
    out = []
    for p in sorted(paths, key=repr)[:limit]:
        out.append(" -> ".join("%s%s%s%s" % (k, "" if a is None else "(%s)" % a,
                                             "" if nf else " [quiet]", " [optional]" if opt else "")
                               for k, a, nf, opt in p))
    if len(paths) > limit:
        out.append("... %d paths" % len(paths))
    return out


def impl_paths(graphs):
    out = set()
    stack = [(g, ()) for g in graphs]
    while stack:
        g, prefix = stack.pop()
        p = prefix + (node_desc(g.node),)
        ch = g.children
        if ch:
            for c in ch:
                stack.append((c, p))
        else:
            out.add(p)
    return out


def _proj(paths, keep):
    return {tuple(tuple(n[i] for i in keep) for n in p) for p in paths}


def diff_feature(ref, imp):
    """Name the kind of difference between two path sets (for the key)."""
    for keep, label, idx in (((0, 1, 3), "notify", 2), ((0, 1, 2), "optional", 3)):
        if _proj(ref, keep) != _proj(imp, keep):
            continue
        for p in sorted(ref ^ imp, key=repr):
            pk = tuple(tuple(n[i] for i in keep) for n in p)
            for q in sorted(imp if p in ref else ref, key=repr):
                if q != p and tuple(tuple(n[i] for i in keep) for n in q) == pk:
                    for k, (x, y) in enumerate(zip(p, q)):
                        if x[idx] != y[idx]:
                            return "%s-%s" % (label, "final" if k == len(p) - 1 else "interior")
        return label
    if _proj(ref, (0, 1)) == _proj(imp, (0, 1)):
        return "notify+optional"
    if _proj(ref, (0, 2, 3)) == _proj(imp, (0, 2, 3)):
        return "name"
    r2, i2 = _proj(ref, (0, 1)), _proj(imp, (0, 1))
    missing, extra = r2 - i2, i2 - r2

    def culprit(path, others):
        """kind of the first node at which `path` leaves every path of `others`"""
        prefixes = {q[:k] for q in others for k in range(1, len(q) + 1)}
        for k in range(1, len(path) + 1):
            if path[:k] not in prefixes:
                return str(path[k - 1][0])
        return "shorter-path"
    if missing and not extra:
        return "missing-path/" + culprit(sorted(missing, key=repr)[0], i2)
    if extra and not missing:
        return "extra-path/" + culprit(sorted(extra, key=repr)[0], r2)
    return "different-paths"


class Checker:
    """Runs one string through the reference and the implementation."""

    def __init__(self, ctx):
        self.ctx = ctx
        self.n = Counter()
        self.sigs = set()
        self.reasons = set()
        self.sampled = set()
        self.prev = None

    def sample(self, part, obj):
        """At most one literal case per workload part and shard."""
        if part not in self.sampled:
            self.sampled.add(part)
            self.ctx.sample(obj)

    def flush(self):
        ctx = self.ctx
        for k, v in self.n.items():
            if k == "evaluations":
                ctx.ev(v)
            else:
                ctx.count(k, v)
        self.n.clear()
        self.prev = None            # cases are self-contained (replay)

    def sig(self, *parts):
        if parts not in self.sigs:
            self.sigs.add(parts)
            self.ctx.sig(*parts)

    def call(self, fn, s):
        try:
            return ("ok", fn(s))
        except ValueError:
            return ("reject", None)
        except Exception as e:  # noqa: BLE001 - outcome classification
            return ("wrong", type(e).__name__)

    def check(self, s, part, also_parse=True):
        """Returns (ast, expr, graphs, paths) when both sides accept and agree,
        ("rejected",) when both reject, None after a violation."""
        ctx = self.ctx
        n = self.n
        n["evaluations"] += 1
        try:
            ast = ref_parse(s)
            reason = None
        except Reject as r:
            ast = None
            reason = r.reason
        rc = self.call(oapi.compile_str, s)
        rp = self.call(oapi.parse, s) if (also_parse or rc[0] != "reject" or ast is not None) else rc
        for stage, r in (("parse", rp), ("compile_str", rc)):
            if r[0] == "wrong":
                ctx.violation("wrong-exception/%s/%s" % (r[1], stage),
                              "%s(%r) raised %s (reference %s)" % (stage, s, r[1],
                                                                  "accepts" if ast is not None else
                                                                  "rejects: " + reason),
                              {"string": s, "stage": stage, "exception": r[1],
                               "reference": "accept" if ast is not None else reason})
                return None
        if ast is None:
            if reason not in self.reasons:
                self.reasons.add(reason)
                n["reject_reasons_seen"] += 1
            if rp[0] == "ok" or rc[0] == "ok":
                who = "+".join(x for x, r in (("parse", rp), ("compile_str", rc)) if r[0] == "ok")
                ctx.violation("accept-mismatch/impl-accepts/" + reason,
                              "%s accepts %r which the grammar rejects (%s)" % (who, s, reason),
                              {"string": s, "reference_reason": reason, "accepted_by": who,
                               "result": repr(rc[1] if rc[0] == "ok" else rp[1])[:600]})
                return None
            n["rejected"] += 1
            self.sig("rej", reason)
            return ("rejected",)
        # reference accepts
        if rp[0] == "reject":
            canon = render(ast)
            feat = primary_feature(ast, s)
            if canon != s and self.call(oapi.parse, canon)[0] == "ok":
                # the blanks are at fault: find which kind by replacing one kind at a time
                feat = "ws-space"
                for ch in "\t\n\r\f":
                    if ch in s and self.call(oapi.parse, s.replace(ch, " "))[0] == "ok":
                        feat = "ws-" + _WSNAME[ch]
                        break
                else:
                    if any(ch in s for ch in "\t\n\r\f"):
                        t = s
                        for ch in "\t\n\r\f":
                            t = t.replace(ch, " ")
                        if self.call(oapi.parse, t)[0] == "ok":
                            feat = "ws-several-kinds"
            ctx.violation("accept-mismatch/impl-rejects/" + feat,
                          "parse rejects %r which the grammar derives" % (s,),
                          {"string": s, "canonical": canon, "ast": ast})
            return None
        if rc[0] == "reject":
            feat = "duplicate-sibling-branches" if has_dup_siblings(ast) else primary_feature(ast, s)
            ctx.violation("accept-mismatch/impl-rejects/compile-stage/" + feat,
                          "parse accepts %r (as the grammar does) but compile_str raises ValueError"
                          % (s,), {"string": s, "ast": ast, "parse_result": repr(rp[1])[:600]})
            n["compile_stage_rejects"] += 1
            return None
        expr, graphs = rp[1], rc[1]
        want = ref_paths(ast)
        try:
            got = impl_paths(graphs)
        except Exception as e:  # noqa: BLE001
            ctx.violation("paths-differ/unreadable-graph/" + type(e).__name__,
                          "cannot read the graphs compiled from %r: %r" % (s, e), {"string": s})
            return None
        if want != got:
            feat = diff_feature(want, got)
            ctx.violation("paths-differ/" + feat,
                          "compile_str(%r): reference paths %s, compiled paths %s"
                          % (s, sorted(want - got, key=repr)[:4], sorted(got - want, key=repr)[:4]),
                          {"string": s, "only_reference": sorted(want - got, key=repr)[:20],
                           "only_compiled": sorted(got - want, key=repr)[:20]})
            return None
        # patterns with different meanings must not compare equal (else removal by
        # text would match a registration of another pattern): checked against the
        # previous accepted string, which in the enumerations is a near miss
        prev = self.prev
        self.prev = (want, graphs, s)
        if prev is not None and prev[0] != want and len(prev[1]) == len(graphs):
            n["distinct_meaning_pairs"] += 1
            try:
                equal = list(prev[1]) == list(graphs)
            except Exception:  # noqa: BLE001
                equal = False
            if equal:
                ctx.violation("equality/different-paths-equal-graphs",
                              "compile_str(%r) == compile_str(%r) although the patterns differ"
                              % (prev[2], s), {"first": prev[2], "second": s})
                return None
        n["accepted"] += 1
        n["paths_compared"] += len(want)
        self.sig("acc", shape_class(ast))
        return (ast, expr, graphs, want)

    # -- spelling ------------------------------------------------------------
    def same_compiled(self, base, other):
        """graphs compare == as multisets, by the implementation's own eq/hash."""
        try:
            return Counter(base) == Counter(other)
        except Exception:  # noqa: BLE001
            return False

    def check_variant(self, base, vkind, vs, part):
        """base = result of check() on the original spelling; vs = respelling."""
        ctx = self.ctx
        ast, expr, graphs, paths = base
        try:
            vast = ref_parse(vs)
        except Reject as r:
            raise AssertionError("oracle bug: respelling %r (%s) rejected by reference: %s"
                                 % (vs, vkind, r.reason))
        if ref_paths(vast) != paths:
            raise AssertionError("oracle bug: respelling %r (%s) changes the reference meaning"
                                 % (vs, vkind))
        r = self.check(vs, part)
        self.n["variants_checked"] += 1
        if r is None:
            return False
        if not self.same_compiled(graphs, r[2]):
            ctx.violation("spelling/%s/graphs-unequal" % vkind,
                          "compile_str(%r) != compile_str(%r) although both denote the same paths"
                          % (render(ast), vs), {"base": render(ast), "variant": vs, "kind": vkind})
            return False
        self.sig(part, "var", vkind, r[2] == graphs, r[1] == expr)
        return True

    def near_miss(self, base, rng, part):
        """A string one token away from `base` with another meaning: through the
        previous-accepted comparison in check() its graphs must not equal base's."""
        toks = ast_tokens(base[0])
        sites = [i for i, t in enumerate(toks) if t in (".", ":") or (t[0] not in PUNCT and t != "items")]
        if not sites:
            return
        i = rng.choice(sites)
        t = toks[i]
        toks[i] = ":" if t == "." else "." if t == ":" else t + rng.choice(["x", "_", "1"])
        self.prev = (base[3], base[2], render(base[0]))
        self.n["near_misses"] += 1
        self.check("".join(toks), part)

    def variants(self, base, rng, part, nws, nbr):
        ast = base[0]
        toks = ast_tokens(ast)
        for _ in range(nws):
            kind = rng.choice(WS_KIND_NAMES + ["ws-edges"])
            if not self.check_variant(base, kind, render_ws(toks, rng, kind), part):
                return False
        for _ in range(nbr):
            kind = rng.choice(BR_KINDS)
            v = bracket_variant(ast, rng, kind)
            if v is None:
                continue
            vs = render(v) if rng.random() < 0.7 else render_ws(ast_tokens(v), rng, "ws-mixed")
            if not self.check_variant(base, kind, vs, part):
                return False
        if rng.random() < 0.5:
            self.near_miss(base, rng, part)
        return True


# ===========================================================================
# Workload (a): exhaustive token strings
# ===========================================================================
SYMS = ["a", "b", "items", "+", "*", ".", ":", ",", "[", "]"]
_WORD = (True, True, True, False, False, False, False, False, False, False)


def tok_string(L, index):
    """The index-th token string of length L (base-10 digits, most significant
    first); a blank separates two adjacent words so that tokens stay tokens."""
    digits = []
    for _ in range(L):
        index, d = divmod(index, 10)
        digits.append(d)
    digits.reverse()
    out = []
    prev_word = False
    for d in digits:
        w = _WORD[d]
        if w and prev_word:
            out.append(" ")
        out.append(SYMS[d])
        prev_word = w
    return "".join(out), digits


def part_tokens(ctx, ck):
    Lmax = ctx.scale(6, 8)
    bno = 0
    for L in range(1, Lmax + 1):
        total = 10 ** L
        bsize = 2000 if L <= 6 else 20000
        for b0 in range(0, total, bsize):
            bno += 1
            if not ctx.mine(bno):
                continue
            cid = "tok:%d:%d" % (L, b0)
            if not ctx.begin(cid, {"L": L, "from": b0, "to": min(total, b0 + bsize)}):
                continue
            try:
                rng = ctx.rng("tok", L, b0)
                nacc = 0
                for idx in range(b0, min(total, b0 + bsize)):
                    s, digits = tok_string(L, idx)
                    r = ck.check(s, "tok", also_parse=(idx % 8 == 0))
                    ck.n["tok_strings"] += 1
                    if r is None:
                        continue
                    if len(r) == 1:
                        # a rejected string stays rejected under any blank placement
                        if idx % 64 == 0:
                            toks = [SYMS[d] for d in digits]
                            ck.check(" ".join(toks), "tok-ws", also_parse=False)
                            ck.check("\t" + " \n".join(toks) + "\r", "tok-ws", also_parse=False)
                        continue
                    nacc += 1
                    if L <= 5 or nacc % 4 == 0:
                        ck.variants(r, rng, "tok-var", 1, 1)
                    if L >= 4:
                        ck.sample("tok", {"part": "token-string", "string": s,
                                          "paths": fmt_paths(r[3])})
            finally:
                ck.flush()
                ctx.end()


# ===========================================================================
# Workload (b): derivation shapes
# ===========================================================================
@lru_cache(maxsize=None)
def cnt_E(n, d):
    c = 1 if n == 1 else 0
    if d > 0:
        c += cnt_P(n, d - 1)
    return c


@lru_cache(maxsize=None)
def cnt_S(n, d):
    c = cnt_E(n, d)
    for k in range(1, n):
        c += cnt_E(k, d) * cnt_S(n - k, d) * 2
    return c


@lru_cache(maxsize=None)
def cnt_P(n, d):
    c = cnt_S(n, d)
    for k in range(1, n):
        c += cnt_S(k, d) * cnt_P(n - k, d)
    return c


LEAF = ("L",)


def unrank_E(n, d, i):
    if n == 1:
        if i == 0:
            return LEAF
        i -= 1
    return ("g", unrank_P(n, d - 1, i))


def unrank_S(n, d, i):
    c = cnt_E(n, d)
    if i < c:
        return ((unrank_E(n, d, i), None),)
    i -= c
    for k in range(1, n):
        cs = cnt_S(n - k, d)
        block = cnt_E(k, d) * cs * 2
        if i < block:
            i, conn = divmod(i, 2)
            e, r = divmod(i, cs)
            return ((unrank_E(k, d, e), ".:"[conn]),) + unrank_S(n - k, d, r)
        i -= block
    raise IndexError(i)


def unrank_P(n, d, i):
    c = cnt_S(n, d)
    if i < c:
        return (unrank_S(n, d, i),)
    i -= c
    for k in range(1, n):
        cp = cnt_P(n - k, d)
        block = cnt_S(k, d) * cp
        if i < block:
            s, r = divmod(i, cp)
            return (unrank_S(k, d, s),) + unrank_P(n - k, d, r)
        i -= block
    raise IndexError(i)


NAMES_COMMON = ["a", "b", "a", "b", "c", "items_", "itemsx", "Items", "_", "a1", "x_y", "item"]
NAMES_ODD = ["a\u00e9", "b\u0663", "a\u00b2", "_\u017f", "Z9_", "__items__", "aitems", "i",
             "a\uff21", "n\u2167", "a\u4e2d\u6587", "k\U0001d51e"]


def pick_atom(rng, allow_star):
    r = rng.random()
    if allow_star and r < 0.3:
        return ("*",)
    r = rng.random()
    if r < 0.22:
        return ("i",)
    if r < 0.40:
        nm = rng.choice(["m", "a", "items", "b", "meta_1"]) if rng.random() < 0.9 else rng.choice(NAMES_ODD)
        return ("m", nm)
    if r < 0.96:
        return ("n", rng.choice(NAMES_COMMON))
    return ("n", rng.choice(NAMES_ODD))


def fill(shape, rng):
    """Replace the leaves of a shape by atoms; '*' only where the grammar has it."""
    def par(p, top):
        out = []
        for series in p:
            ns = []
            last = len(series) - 1
            for k, (e, c) in enumerate(series):
                if e[0] == "g":
                    ns.append((("g", par(e[1], False)), c))
                else:
                    ns.append((pick_atom(rng, top and k == last), c))
            out.append(tuple(ns))
        return tuple(out)
    return par(shape, True)


def random_derivation(rng, max_depth=3, budget=10):
    """A random AST (bigger than the enumerated shapes)."""
    left = [budget]

    def element(d, allow_star):
        left[0] -= 1
        if d < max_depth and left[0] > 1 and rng.random() < 0.3:
            return ("g", parallel(d + 1, False))
        return pick_atom(rng, allow_star)

    def series(d, top):
        out = []
        while True:
            more = left[0] > 0 and rng.random() < 0.5
            e = element(d, top and not more)
            if more:
                out.append((e, rng.choice(".:")))
            else:
                out.append((e, None))
                return tuple(out)

    def parallel(d, top):
        out = [series(d, top)]
        while left[0] > 0 and rng.random() < 0.35:
            out.append(series(d, top))
        return tuple(out)
    return parallel(0, True)


def part_shapes(ctx, ck):
    # (leaves, bracket depth, stride): stride 1 = every shape; stride k = a
    # seed-rotated 1-in-k slice of the batches
    if ctx.quick:
        grid = [(n, 3, 1) for n in (1, 2, 3, 4)] + [(5, 2, 1)]
    else:
        grid = [(n, 3, 1) for n in (1, 2, 3, 4, 5)] + [(6, 2, 8)]
    nws, nbr = 1, 1
    bsize = 1500
    bno = 0
    for n, d, stride in grid:
        total = cnt_P(n, d)
        for b0 in range(0, total, bsize):
            if stride > 1 and (b0 // bsize + ctx.seed) % stride:
                continue
            bno += 1
            if not ctx.mine(bno):
                continue
            cid = "shape:%d:%d:%d" % (n, d, b0)
            if not ctx.begin(cid, {"leaves": n, "depth": d, "from": b0}):
                continue
            try:
                rng = ctx.rng("shape", n, d, b0)
                for idx in range(b0, min(total, b0 + bsize)):
                    ast = fill(unrank_P(n, d, idx), rng)
                    s = render(ast)
                    r = ck.check(s, "shape")
                    ck.n["shape_cases"] += 1
                    if r is None or len(r) == 1:
                        if r is not None:
                            raise AssertionError("oracle bug: derivation %r rejected by reference" % s)
                        continue
                    ck.variants(r, rng, "shape-var", nws, nbr)
                    if n >= 3 and idx > b0 + 7:
                        ck.sample("shape", {"part": "derivation", "string": s,
                                            "paths": fmt_paths(r[3])})
            finally:
                ck.flush()
                ctx.end()
    # random larger derivations
    nrand = ctx.scale(6000, 200000)
    bsize = 250
    for b0 in range(0, nrand, bsize):
        if not ctx.mine(b0 // bsize):
            continue
        if not ctx.begin("rder:%d" % b0):
            continue
        try:
            rng = ctx.rng("rder", b0)
            for k in range(bsize):
                ast = random_derivation(rng, 3, rng.choice([4, 6, 8, 12, 20]))
                s = render(ast) if rng.random() < 0.5 else render_ws(ast_tokens(ast), rng, "ws-mixed")
                r = ck.check(s, "rder")
                ck.n["random_derivations"] += 1
                if r is None or len(r) == 1:
                    if r is not None:
                        raise AssertionError("oracle bug: derivation %r rejected by reference" % s)
                    continue
                ck.variants(r, rng, "rder-var", 1, 2)
        finally:
            ck.flush()
            ctx.end()


# ===========================================================================
# Workload (c): random character-level strings
# ===========================================================================
PIECES = (["a", "b", "c", "_", "x1", "items", "items", "Items", "item", "itemsx", "ITEMS"]
          + list("+*.:,[]") * 3
          + [" ", " ", "\t", "\n", "\r", "\f", "\v", "\x1c", "\x85", "\u00a0", "\u2003", "\u3000",
             "\u2028", "\u200b", "\ufeff"]
          + ["1", "9", "\u00e9", "\u017f", "\u0663", "\u00b2", "\u2460", "\u2167", "\uff41", "\uff10",
             "\u0301", "\u00df", "\u4e2d", "\U0001d51e", "\u0130"]
          + ["(", ")", "-", "|", "'", "\"", "\\", "\x00", "/", "=", "!", "&", "{", "}", ";", "#", "@",
             "..", "::", ",,", "[]", "+ ", "+\n", "*.", ".*", ":*"])


def random_string(rng):
    r = rng.random()
    if r < 0.25:
        return "".join(rng.choice(PIECES) for _ in range(rng.randint(0, 10)))
    ast = random_derivation(rng, 3, rng.choice([2, 3, 5, 8]))
    toks = ast_tokens(ast)
    s = "".join(toks) if rng.random() < 0.5 else render_ws(toks, rng, "ws-mixed")
    if r < 0.32:
        return s
    chars = list(s)
    for _ in range(rng.choice([1, 1, 1, 2, 3])):
        op = rng.randrange(5)
        pos = rng.randrange(len(chars) + 1)
        if op == 0 or not chars:
            chars.insert(pos, rng.choice(PIECES))
        elif op == 1:
            del chars[min(pos, len(chars) - 1)]
        elif op == 2:
            chars[min(pos, len(chars) - 1)] = rng.choice(PIECES)
        elif op == 3:
            p = min(pos, len(chars) - 1)
            chars.insert(p, chars[p])
        else:
            p = min(pos, len(chars) - 1)
            q = rng.randrange(len(chars))
            chars[p], chars[q] = chars[q], chars[p]
    return "".join(chars)


def part_random(ctx, ck):
    total = ctx.scale(60000, 2000000)
    bsize = 1000
    for b0 in range(0, total, bsize):
        if not ctx.mine(b0 // bsize):
            continue
        if not ctx.begin("rand:%d" % b0):
            continue
        try:
            rng = ctx.rng("rand", b0)
            for k in range(bsize):
                s = random_string(rng)
                r = ck.check(s, "rand")
                ck.n["random_strings"] += 1
                if r is None:
                    continue
                if len(r) == 1:
                    ck.n["random_rejected"] += 1
                else:
                    ck.n["random_accepted"] += 1
                    if not s.isascii():
                        ck.n["random_accepted_nonascii"] += 1
                    if k % 4 == 0:
                        ck.variants(r, rng, "rand-var", 1, 1)
                if len(r) == 1 and not s.isascii() and len(s) > 4:
                    ck.sample("rand", {"part": "random", "string": s, "outcome": "both reject"})
        finally:
            ck.flush()
            ctx.end()


# ===========================================================================
# Workload (d): cache eviction
# ===========================================================================
def cache_case(ctx, ck, rng):
    targets = []
    seen = set()
    while len(targets) < 8:
        ast = random_derivation(rng, 3, rng.choice([1, 2, 4, 8]))
        s = render(ast) if rng.random() < 0.6 else render_ws(ast_tokens(ast), rng, "ws-mixed")
        if s in seen:
            continue
        seen.add(s)
        r = ck.check(s, "cache")
        if r is None:
            return
        ast, expr, graphs, paths = r
        try:
            e2 = oapi.parse(s)
            same_now = (e2 == expr and hash(e2) == hash(expr))
        except Exception:  # noqa: BLE001
            same_now = False
        if not same_now:
            ctx.violation("cache/immediate-reparse-unequal",
                          "parse(%r) twice in a row: results differ or hash differently" % s,
                          {"string": s})
            return
        targets.append((s, expr, hash(expr), graphs, [hash(g) for g in graphs], paths))
    # >= 300 distinct other accepted strings in between; a third of them are
    # near-misses of the targets (same prefix, one more element)
    fillers = 0
    guard = 0
    while fillers < 300 and guard < 3000:
        guard += 1
        if guard % 3 == 0:
            base = rng.choice(targets)[0]
            s = base + rng.choice([".z%d", ":z%d", ",z%d", " , +z%d", ".[q,z%d]"]) % guard
        else:
            ast = random_derivation(rng, 2, rng.choice([2, 3, 5]))
            s = render(ast) + rng.choice([",", ",", " ,\t"]) + "u%d" % guard
        if s in seen:
            continue
        seen.add(s)
        r = ck.check(s, "cache-fill", also_parse=False)
        if r is not None and len(r) > 1:
            fillers += 1
    for s, expr, hexpr, graphs, hgraphs, paths in targets:
        ck.n["cache_rechecks"] += 1
        r = ck.check(s, "cache-re")
        if r is None:
            return
        if len(r) == 1:
            ctx.violation("cache/accepted-then-rejected",
                          "%r accepted first, rejected after >=300 other strings" % s, {"string": s})
            return
        e2, g2 = r[1], r[2]
        if e2 is not expr:
            ck.n["cache_evicted_reparse"] += 1
        what = None
        if not (e2 == expr) or (e2 != expr):
            what = "parse-unequal-after-eviction"
        elif hash(e2) != hexpr or hash(expr) != hexpr:
            what = "expression-hash-differs"
        elif not (list(g2) == list(graphs)):
            what = "compiled-unequal-after-eviction"
        elif [hash(g) for g in g2] != hgraphs or [hash(g) for g in graphs] != hgraphs:
            what = "graph-hash-differs"
        elif impl_paths(graphs) != paths:
            what = "cached-graph-mutated"
        else:
            try:
                if list(oapi.compile_expr(expr)) != list(graphs):
                    what = "compile_expr-differs-from-compile_str"
            except Exception as e:  # noqa: BLE001
                what = "compile_expr-raises-" + type(e).__name__
        if what:
            ctx.violation("cache/" + what,
                          "%r parsed/compiled before and after >=300 other accepted strings: %s"
                          % (s, what), {"string": s, "what": what})
            return
        ck.sig("cache", e2 is expr, g2 is graphs, min(len(graphs), 3))


def part_cache(ctx, ck):
    ncases = ctx.scale(160, 3200)
    for c in range(ncases):
        if not ctx.mine(c):
            continue
        if not ctx.begin("cache:%d" % c):
            continue
        try:
            cache_case(ctx, ck, ctx.rng("cache", c))
        finally:
            ck.flush()
            ctx.end()


# ===========================================================================
# Workload (e): observe / remove by different spellings on a live object
# ===========================================================================
class K(HasTraits):
    a = Instance(HasTraits)                 # a K
    b = Instance(HasTraits)                 # a K2
    items = List(Instance(HasTraits))       # of K
    xs = List(Instance(HasTraits))          # of K2
    d = Dict(Str, Instance(HasTraits))      # of K
    st = Set(Instance(HasTraits))           # of K
    v = Int(m=True)
    w = Str(m="yes", a=1)


class K2(HasTraits):
    """No trait called 'items': the keyword then only means container items."""
    a = Instance(HasTraits)                 # a K
    b = List(Instance(HasTraits))           # of K
    xs = Dict(Str, Instance(HasTraits))     # of K
    v = Int(m=True)


# static layout used by the type-directed generator: type -> name -> type
# N = K instance, M = K2 instance, CN / CM = container of K / K2, V = plain value,
# Z = nothing reaches here (every observer downstream is vacuous)
LAYOUT = {
    "N": {"a": "N", "b": "M", "items": "CN", "xs": "CM", "d": "CN", "st": "CN", "v": "V", "w": "V"},
    "M": {"a": "N", "b": "CN", "xs": "CN", "v": "V"},
}
_CLS = {"N": K, "M": K2}
_NAMES = {}


def build_live(typ, depth, registry, root_cls=None):
    cls = root_cls or _CLS[typ]
    o = cls()
    registry.append(o)
    for name, t in LAYOUT[typ].items():
        if t == "V":
            continue
        if t in ("N", "M"):
            if depth > 0:
                setattr(o, name, build_live(t, depth - 1, registry))
            continue
        kids = [build_live(t[1], depth - 1, registry) for _ in range(2 if name == "xs" else 1)] \
            if depth > 0 else []
        ttype = type(cls.class_traits()[name].trait_type).__name__
        if ttype == "Dict":
            setattr(o, name, {"k%d" % i: k for i, k in enumerate(kids)})
        elif ttype == "Set":
            setattr(o, name, set(kids))
        else:
            setattr(o, name, kids)
        registry.append(getattr(o, name))
    return o


def census(registry):
    """Non-zero notifier populations, keyed by creation serial (read-only)."""
    out = []
    for serial, o in enumerate(registry):
        if isinstance(o, HasTraits):
            names = _NAMES.get(type(o))
            if names is None:
                names = _NAMES[type(o)] = sorted(type(o).class_trait_names())
            k = len(o._notifiers(False) or ())
            if k:
                out.append((serial, None, k))
            for name in names:
                t = o._trait(name, 0)
                if t is not None:
                    k = len(t._notifiers(False) or ())
                    if k:
                        out.append((serial, name, k))
        else:
            k = len(o.notifiers)
            if k:
                out.append((serial, "<container>", k))
    return out


def live_series(rng, typ, d, budget, top):
    """Type-directed random series starting at an object of static type `typ`.
    Returns (series, out_type)."""
    out = []
    while True:
        budget[0] -= 1
        more = budget[0] > 0 and rng.random() < 0.6
        if typ in ("CN", "CM"):
            e, nt = ("i",), typ[1]
        elif typ == "Z":
            e, nt = pick_atom(rng, top and not more), "Z"
        elif d < 2 and budget[0] > 1 and rng.random() < 0.2:
            e, nt = live_group(rng, typ, d + 1, budget)
        elif top and not more and rng.random() < 0.25:
            e, nt = ("*",), "V"
        elif not more and rng.random() < 0.2:
            e, nt = ("m", rng.choice(["m", "a", "nope"])), "V"
        elif rng.random() < 0.12:
            # the keyword on a HasTraits object: the trait called items, if any
            e, nt = ("i",), LAYOUT[typ].get("items", "Z")
        else:
            lay = LAYOUT[typ]
            names = [n for n in lay if n != "items" and (not more or lay[n] != "V")]
            nm = rng.choice(names)
            e, nt = ("n", nm), lay[nm]
        if more and nt != "V":
            out.append((e, rng.choice(".:")))
            typ = nt
        else:
            out.append((e, None))
            return tuple(out), nt


def live_group(rng, typ, d, budget):
    first, t = live_series(rng, typ, d, budget, False)
    alts = [first]
    tries = 0
    while rng.random() < 0.6 and tries < 6:
        tries += 1
        s, t2 = live_series(rng, typ, d, [rng.choice([1, 2, 3])], False)
        if t2 == t and s not in alts:
            alts.append(s)
            budget[0] -= 1
    return ("g", tuple(alts)), t


def live_expression(rng):
    budget = [rng.choice([2, 3, 4, 6])]
    alts = []
    while True:
        s, _ = live_series(rng, "N", 0, budget, True)
        alts.append(s)
        if rng.random() > 0.3:
            return tuple(alts)
        budget = [rng.choice([1, 2, 3])]


def live_case(ctx, ck, rng, c):
    ast = live_expression(rng)
    if has_dup_siblings(ast):
        ck.n["live_skipped_duplicate_branches"] += 1
        return
    s1 = render(ast) if rng.random() < 0.5 else render_ws(ast_tokens(ast), rng, "ws-space")
    base = ck.check(s1, "live")
    if base is None:
        return
    # a different spelling of the same pattern
    vkind = rng.choice(WS_KIND_NAMES + ["ws-edges"] + BR_KINDS * 2)
    s2 = None
    if vkind.startswith("br-"):
        v = bracket_variant(ast, rng, vkind)
        if v is not None:
            s2 = render(v)
        else:
            vkind = "ws-mixed"
    if s2 is None:
        s2 = render_ws(ast_tokens(ast), rng, vkind)
    if s2 == s1:
        s2, vkind = " " + s1, "ws-edges"
    if not ck.check_variant(base, vkind, s2, "live-var"):
        return
    if rng.random() < 0.5:
        s1, s2 = s2, s1
    registry = []
    root = build_live("N", 2, registry)
    calls = []

    def handler(event):
        calls.append(event)
    c0 = census(registry)
    try:
        root.observe(handler, s1)
    except Exception as e:  # noqa: BLE001 - pattern does not fit the tree: not judged here
        ck.n["live_observe_failed"] += 1
        ck.sig("live", "observe-failed", type(e).__name__)
        return
    c1 = census(registry)
    ck.n["evaluations"] += 1
    ck.n["live_roundtrips"] += 1
    if c1 != c0:
        ck.n["live_attached"] += 1
    try:
        root.observe(handler, s2, remove=True)
    except Exception as e:  # noqa: BLE001
        ctx.violation("spelling/live-remove-failed/%s/%s" % (vkind, type(e).__name__),
                      "observe(h, %r) then observe(h, %r, remove=True) raised %r" % (s1, s2, e),
                      {"registered": s1, "removed": s2, "variant": vkind})
        return
    c2 = census(registry)
    if c2 != c0:
        left = [x for x in c2 if x not in c0]
        ctx.violation("spelling/live-census-not-restored/%s" % vkind,
                      "observe(h, %r) then observe(h, %r, remove=True): notifiers left %r"
                      % (s1, s2, left[:6]),
                      {"registered": s1, "removed": s2, "variant": vkind, "left": left[:10]})
        return
    # the removed handler must be silent now
    del calls[:]
    root.v += 1
    root.xs.append(K2())
    root.a = K()
    if calls:
        ctx.violation("spelling/live-handler-still-called/%s" % vkind,
                      "handler fired after removal by respelling %r of %r" % (s2, s1),
                      {"registered": s1, "removed": s2})
        return
    # the lru-cached graphs that observe() used must still mean the same
    if impl_paths(base[2]) != base[3]:
        ctx.violation("cache/graph-mutated-by-observe",
                      "the graphs compiled from %r changed while being used by observe()" % (s1,),
                      {"registered": s1, "removed": s2})
        return
    ck.sig("live", vkind, shape_class(ast), c1 != c0)
    if c1 != c0 and len(s1) > 8:
        ck.sample("live", {"part": "live", "registered": s1, "removed_by": s2,
                           "notifier_slots_attached": len(c1) - len(c0)})


def part_live(ctx, ck):
    ncases = ctx.scale(1600, 32000)
    for c in range(ncases):
        if not ctx.mine(c):
            continue
        if not ctx.begin("live:%d" % c):
            continue
        try:
            live_case(ctx, ck, ctx.rng("live", c), c)
        finally:
            ck.flush()
            ctx.end()


# ===========================================================================
# Workload (f): what the filter elements (+metadata, *) select on live classes
# ===========================================================================
# The manual: "+metadata_name  Matches any trait on the object that has metadata
# metadata_name"; metadata(): "traits where the given metadata is not None".  The
# reference meaning is computed from the declaration table kept here (a metadata
# value was given and is not None) - never by asking traits.
class _Falsy:
    def __bool__(self):
        return False

    def __repr__(self):
        return "<falsy object>"


class _Truthy:
    def __repr__(self):
        return "<truthy object>"


class _BoolRaises:
    def __bool__(self):
        raise RuntimeError("this metadata value has no truth value")

    def __repr__(self):
        return "<object whose bool() raises>"


UNDEF = ("<undefined>",)
META_VALUES = {
    "undefined": [UNDEF],
    "none": [None],
    "truthy": [True, 1, "yes", (0,), 2.5, _Truthy(), [0], -1],
    "falsy": [False, 0, "", 0.0, (), [], {}, b"", 0j, _Falsy(), frozenset()],
    "bool-raises": [_BoolRaises()],
}
_META_CLASSES = ["undefined", "none", "truthy", "falsy", "falsy", "falsy", "bool-raises", "truthy"]


def _pick_meta(rng, hostile):
    cls = rng.choice(_META_CLASSES)
    if cls == "bool-raises" and not hostile:
        cls = "falsy"
    return cls, rng.choice(META_VALUES[cls])


def _mk_trait(kind, md):
    from traits.api import Float, Bool, Any
    if kind == "Int":
        return Int(**md)
    if kind == "Str":
        return Str(**md)
    if kind == "Float":
        return Float(**md)
    if kind == "Bool":
        return Bool(**md)
    if kind == "Any":
        return Any(**md)
    return List(Int, **md)


_META_KINDS = ["Int", "Str", "Float", "Bool", "Any", "ListInt", "Int", "Int"]


def _bump(kind, old, tick):
    if kind == "Int":
        return old + 1
    if kind == "Str":
        return old + "x"
    if kind == "Float":
        return old + 1.5
    if kind == "Bool":
        return not old
    if kind == "Any":
        return ("any", tick)
    return list(old) + [tick]


class MetaWorld:
    """Two generated classes (a root with links, a leaf), their declaration
    tables and the live objects."""

    def __init__(self, rng, mnames, hostile):
        self.rng = rng
        self.mnames = mnames
        self.hostile = hostile   # metadata values whose bool() raises occur only in these worlds
        self.tick = 0
        self.table = {}          # serial -> {trait name: (kind, {mname: (class, value)}, flavour)}
        self.objects = []        # serial -> object
        self.serial = {}
        self.leaf_decl = self._decl(rng.randint(4, 8))
        self.root_decl = self._decl(rng.randint(3, 6))
        leaf_ns = {n: _mk_trait(k, self._md(m)) for n, (k, m) in self.leaf_decl.items()}
        self.Leaf = type("Leaf", (HasTraits,), leaf_ns)
        root_ns = {n: _mk_trait(k, self._md(m)) for n, (k, m) in self.root_decl.items()}
        root_ns["child"] = Instance(HasTraits)
        root_ns["other"] = Instance(HasTraits)
        root_ns["kids"] = List(Instance(HasTraits))
        self.Root = type("Root", (HasTraits,), root_ns)
        self.root = self._new(self.Root, self.root_decl, "declared")
        self.root.child = self.child = self.new_leaf("declared")
        self.root.other = self.other = self.new_leaf("declared")
        self.kids = [self.new_leaf("declared") for _ in range(rng.randint(1, 2))]
        self.root.kids = list(self.kids)
        self.containers = [self.root.kids]

    def _decl(self, n):
        out = {}
        for i in range(n):
            out["t%d" % i] = (self.rng.choice(_META_KINDS), {m: _pick_meta(self.rng, self.hostile) for m in self.mnames})
        return out

    @staticmethod
    def _md(meta):
        return {m: v for m, (c, v) in meta.items() if v is not UNDEF}

    def _new(self, cls, decl, flavour):
        o = cls()
        s = len(self.objects)
        self.objects.append(o)
        self.serial[id(o)] = s
        self.table[s] = {n: (k, m, flavour) for n, (k, m) in decl.items()}
        for n in decl:
            getattr(o, n)                      # materialise defaults before observing
        return o

    def new_leaf(self, flavour):
        return self._new(self.Leaf, self.leaf_decl, flavour)

    def add_trait(self, o, flavour):
        s = self.serial[id(o)]
        name = "dyn%d" % len(self.table[s])
        meta = {m: _pick_meta(self.rng, self.hostile) for m in self.mnames}
        kind = self.rng.choice(["Int", "Str", "Int"])
        o.add_trait(name, _mk_trait(kind, self._md(meta)))
        getattr(o, name)
        self.table[s][name] = (kind, meta, flavour)

    def mutate_all(self):
        """Assign a new value to every tabled trait of every object."""
        for s, o in enumerate(self.objects):
            for n, (kind, meta, flavour) in self.table[s].items():
                self.tick += 1
                setattr(o, n, _bump(kind, getattr(o, n), self.tick))

    def census(self, only=None):
        """{(serial, trait name | None): notifier count > 0}, read-only."""
        out = {}
        for s, o in enumerate(self.objects):
            if only is not None and o is not only:
                continue
            k = len(o._notifiers(False) or ())
            if k:
                out[(s, None)] = k
            for name in o.trait_names():
                t = o._trait(name, 0)
                if t is not None:
                    k = len(t._notifiers(False) or ())
                    if k:
                        out[(s, name)] = k
        if only is None:
            for i, c in enumerate(self.containers):
                out[("container", i)] = len(c.notifiers)
        return out


# prefixes: (series items before the filter element, function world -> target objects)
def _meta_prefixes(rng):
    c1, c2, c3 = rng.choice(".:"), rng.choice(".:"), rng.choice(".:")
    return [
        ("root", (), lambda w: [w.root]),
        ("link", ((("n", "child"), c1),), lambda w: [w.child]),
        ("list-items", ((("n", "kids"), c1), (("i",), c2)), lambda w: list(w.root.kids)),
        ("bracket-links", ((("g", (((("n", "child"), None),), ((("n", "other"), None),))), c1),),
         lambda w: [w.child, w.other]),
        ("bracket-mixed", ((("g", (((("n", "child"), None),),
                                   ((("n", "kids"), c2), (("i",), None)))), c3),),
         lambda w: [w.child] + list(w.root.kids)),
    ]


def _meta_filter(rng, mnames, allow_star):
    """(element, set of metadata names it selects on | None for '*')"""
    r = rng.random()
    if allow_star and r < 0.15:
        return ("*",), None
    if r < 0.55 or len(set(mnames)) < 2:
        m = rng.choice(mnames)
        e = ("m", m)
        if rng.random() < 0.25:
            e = ("g", (((e, None),),))
        return e, {m}
    ms = rng.sample(sorted(set(mnames)), 2)
    return ("g", tuple((((("m", m), None),)) for m in ms)), set(ms)


def _selected(meta, names):
    """The documented meaning: some named metadata was given and is not None."""
    if names is None:
        return True, "any"
    hit = [meta[m][0] for m in sorted(names) if m in meta and meta[m][1] is not UNDEF and meta[m][1] is not None]
    if hit:
        order = ["falsy", "bool-raises", "truthy"]
        return True, sorted(hit, key=order.index)[0]
    miss = [meta[m][0] if m in meta else "undefined" for m in sorted(names)]
    return False, "none" if "none" in miss else "undefined"


def meta_case(ctx, ck, rng, stratum):
    n = ck.n
    if stratum == "dunder":
        mnames = [rng.choice(["__ext__", "__x__", "__flag__"])]
        pool = mnames
    else:
        mnames = ["flag", "tag"]
        pool = ["flag", "tag", "flag", "tag", "nope"]
    w = MetaWorld(rng, mnames, rng.random() < 0.2)
    prefixes = _meta_prefixes(rng)
    alts = []        # (series, targets fn, names, prefix label)
    for _ in range(rng.choice([1, 1, 2])):
        label, items, targets = rng.choice(prefixes)
        e, names = _meta_filter(rng, pool, stratum != "dunder")
        alts.append((tuple(items) + ((e, None),), targets, names, label))
    ast = tuple(a[0] for a in alts)
    if has_dup_siblings(ast):
        return
    s1 = render(ast) if rng.random() < 0.5 else render_ws(ast_tokens(ast), rng, "ws-mixed")
    base = ck.check(s1, "meta")
    if base is None:
        return
    vkind = rng.choice(WS_KIND_NAMES + ["ws-edges"] + BR_KINDS)
    s2 = None
    if vkind.startswith("br-"):
        v = bracket_variant(ast, rng, vkind)
        if v is not None:
            s2 = render(v)
        else:
            vkind = "ws-mixed"
    if s2 is None:
        s2 = render_ws(ast_tokens(ast), rng, vkind)
    if not ck.check_variant(base, vkind, s2, "meta-var"):
        return
    # instance traits that exist before the handler is registered
    for o in rng.sample(w.objects, 2):
        w.add_trait(o, "added-before")
    events = []

    def handler(event):
        if type(event).__name__ == "TraitChangeEvent":
            events.append((w.serial.get(id(event.object)), event.name))
    c0 = w.census()
    n["evaluations"] += 1
    n["meta_cases" if stratum == "plain" else "meta_dunder_cases"] += 1
    try:
        w.root.observe(handler, s1)
    except Exception as e:  # noqa: BLE001
        ctx.violation("metadata-meaning/%sobserve-raises/%s" % ("dunder-name/" if stratum == "dunder" else "",
                                                               type(e).__name__),
                      "observe(root, %r) raised %r on objects that fit the pattern" % (s1, e),
                      {"pattern": s1, "metadata_names": mnames,
                       "leaf": {k: (v[0], {m: repr(x[1]) for m, x in v[1].items()})
                                for k, v in w.leaf_decl.items()}})
        return

    def guarded(op, fn, *args):
        """operations on observed objects must not raise because of the filter"""
        try:
            fn(*args)
            return True
        except Exception as e:  # noqa: BLE001
            ctx.violation("metadata-meaning/%s-raises/%s" % (op, type(e).__name__),
                          "with observe(root, %r) registered, %s raised %r" % (s1, op, e),
                          {"pattern": s1, "operation": op})
            return False

    def judge(phase):
        """mutate everything; compare the traits that fired with the documented selection"""
        del events[:]
        if not guarded("assignment", w.mutate_all):
            return False
        fired = set(events)
        expected = {}
        for series, targets, names, label in alts:
            for o in targets(w):
                s = w.serial[id(o)]
                for tname, (kind, meta, flavour) in w.table[s].items():
                    ok, cls = _selected(meta, names)
                    if ok:
                        expected[(s, tname)] = (cls, flavour, label, names is None)
        problems = []
        for key in sorted(set(expected) - fired):
            cls, flavour, label, star = expected[key]
            problems.append(("%s/missing/%s/%s" % ("anytrait-meaning" if star else "metadata-meaning",
                                                   cls, flavour), key, label))
        for key in sorted(k for k in fired - set(expected) if k[0] is not None and k[1] in w.table[k[0]]):
            kind, meta, flavour = w.table[key[0]][key[1]]
            names = set().union(*[a[2] or set() for a in alts])
            cls = _selected(meta, names)[1]
            problems.append(("metadata-meaning/extra/%s/%s" % (cls, flavour), key, "-"))
        for key, (cls, flavour, label, star) in expected.items():
            if key in fired:
                n["meta_selected_fired"] += 1
                if cls == "falsy":
                    n["meta_falsy_fired"] += 1
                elif cls == "bool-raises":
                    n["meta_boolraises_fired"] += 1
                if flavour == "added-later":
                    n["meta_added_later_fired"] += 1
                    if cls in ("falsy", "bool-raises"):
                        n["meta_added_later_falsy_fired"] += 1
                elif flavour == "item-added-later":
                    n["meta_new_item_fired"] += 1
                elif flavour == "added-before":
                    n["meta_added_before_fired"] += 1
                ck.sig("meta", phase, cls, flavour, label, star)
        for s, tab in w.table.items():
            for tname in tab:
                if (s, tname) not in expected and (s, tname) not in fired:
                    n["meta_unselected_silent"] += 1
        if problems:
            key, where, label = sorted(problems)[0]
            s, tname = where
            kind, meta, flavour = w.table[s][tname]
            ctx.violation(key, "observe(root, %r): trait %r (%s, metadata %s) of object #%d (%s) %s, "
                          "documented meaning of the filter says otherwise [%s]"
                          % (s1, tname, kind, {m: repr(x[1]) for m, x in meta.items()}, s, label,
                             "did not fire" if "/missing/" in key else "fired", phase),
                          {"pattern": s1, "trait": tname, "kind": kind, "flavour": flavour,
                           "metadata": {m: repr(x[1]) for m, x in meta.items()}, "phase": phase,
                           "all_problems": [p[0] for p in sorted(problems)][:12]})
            return False
        return True

    if not judge("declared"):
        return
    # traits added after registration, on targets and non-targets alike
    for o in rng.sample(w.objects, min(3, len(w.objects))):
        for _ in range(rng.choice([1, 2])):
            if not guarded("add_trait", w.add_trait, o, "added-later"):
                return
    if any(label in ("list-items", "bracket-mixed") for _, _, _, label in alts) or rng.random() < 0.3:
        leaf = w.new_leaf("item-added-later")
        c0.update(w.census(only=leaf))        # its population before it joins the pattern
        if not guarded("list-append", w.root.kids.append, leaf):
            return
    if not judge("after-additions"):
        return
    try:
        w.root.observe(handler, s2, remove=True)
    except Exception as e:  # noqa: BLE001
        ctx.violation("metadata-meaning/remove-failed/%s" % type(e).__name__,
                      "observe(root, %r) then observe(root, %r, remove=True) raised %r" % (s1, s2, e),
                      {"registered": s1, "removed": s2})
        return
    c2 = w.census()
    if c2 != c0:
        left = sorted((repr(k), v) for k, v in c2.items() if c0.get(k) != v)
        ctx.violation("metadata-meaning/census-not-restored",
                      "observe(root, %r), add traits/items, remove by %r: notifiers left %r"
                      % (s1, s2, left[:6]), {"registered": s1, "removed": s2, "left": left[:10]})
        return
    del events[:]
    if not guarded("assignment-after-removal", w.mutate_all):
        return
    if events:
        ctx.violation("metadata-meaning/handler-still-called",
                      "handler fired after removal by %r of %r" % (s2, s1),
                      {"registered": s1, "removed": s2, "events": events[:6]})
        return
    n["meta_removed_silent"] += 1
    ck.sample("meta", {"part": "filter-meaning", "pattern": s1, "removed_by": s2,
                       "leaf_metadata": {k: {m: repr(x[1]) for m, x in v[1].items()}
                                         for k, v in list(w.leaf_decl.items())[:4]}})


def part_meta(ctx, ck):
    ncases = ctx.scale(1920, 32000)
    for c in range(ncases):
        if not ctx.mine(c):
            continue
        if not ctx.begin("meta:%d" % c):
            continue
        try:
            meta_case(ctx, ck, ctx.rng("meta", c), "plain")
        finally:
            ck.flush()
            ctx.end()
    # metadata names spelt __like_this__: their own stratum (own key)
    ncases = ctx.scale(96, 960)
    for c in range(ncases):
        if not ctx.mine(c):
            continue
        if not ctx.begin("metadunder:%d" % c):
            continue
        try:
            meta_case(ctx, ck, ctx.rng("metadunder", c), "dunder")
        finally:
            ck.flush()
            ctx.end()


# ===========================================================================
# Workload (g): the list forms accepted by observe / @observe / Property(observe=)
# ===========================================================================
# A text keeps its meaning however it has been used: between two evaluations of
# the denotation of every text involved (and of its respellings) the list forms
# are exercised on live classes - mixed lists of texts and expression objects in
# every order, repeated, registered / removed as a list or piece by piece.  What
# the handlers receive is compared with a small interpretation of the *reference*
# paths on the harness' own object tree (plain trait assignments only).
class Unfit(Exception):
    """the pattern does not fit the harness tree: behaviour not judged"""


_LF_META = {"N": {"m": ("v", "w"), "a": ("w",)}, "M": {"m": ("v",)}}
_LF_CONT = {"list_items": list, "dict_items": dict, "set_items": set}


def _lf_typ(o):
    return "N" if isinstance(o, K) else "M" if isinstance(o, K2) else None


def model_fires(paths, root, serial):
    """{(serial of object, trait name)}: the plain assignments that the reference
    paths say must reach the handler, on the tree hanging off `root`."""
    out = set()
    for p in paths:
        cur = [root]
        for kind, arg, notify, opt in p:
            nxt = []
            for o in cur:
                typ = _lf_typ(o)
                want = _LF_CONT.get(kind)
                if want is not None:
                    if typ is not None or not isinstance(o, want):
                        if not opt:
                            raise Unfit()
                        continue
                    nxt.extend(o.values() if want is dict else o)
                    continue
                if typ is None:
                    if kind == "trait" and opt:
                        continue
                    raise Unfit()
                lay = LAYOUT[typ]
                if kind == "trait":
                    if arg not in lay:
                        if not opt:
                            raise Unfit()
                        continue
                    names = (arg,)
                elif kind == "metadata":
                    names = _LF_META[typ].get(arg, ())
                elif kind == "anytrait":
                    names = tuple(lay)
                else:
                    raise Unfit()
                for nm in names:
                    if notify:
                        out.add((serial[id(o)], nm))
                    v = getattr(o, nm)
                    if isinstance(v, (HasTraits, list, dict, set)):
                        nxt.append(v)
            cur = nxt
    return out


def _lf_fresh(typ, name):
    t = LAYOUT[typ][name]
    if t == "N":
        return K()
    if t == "M":
        return K2()
    kid = _CLS[t[1]]()
    tt = type(_CLS[typ].class_traits()[name].trait_type).__name__
    return {"z": kid} if tt == "Dict" else {kid} if tt == "Set" else [kid]


def lf_mutations(registry, links):
    """Assign a new value to every value trait of every object (registry order);
    with `links`, then replace every link / container trait, children before
    parents (destroys the tree).  Yields (serial, trait name) after each."""
    objs = [(i, o) for i, o in enumerate(registry) if isinstance(o, HasTraits)]
    for i, o in objs:
        o.v += 1
        yield (i, "v")
        if isinstance(o, K):
            o.w += "x"
            yield (i, "w")
    if links:
        for i, o in reversed(objs):
            typ = _lf_typ(o)
            for name, t in LAYOUT[typ].items():
                if t != "V":
                    setattr(o, name, _lf_fresh(typ, name))
                    yield (i, name)


def build_expr(ast):
    """The pattern spelt with the expression functions instead of a text."""
    def elem(e, nf):
        t = e[0]
        if t == "n":
            return oapi.trait(e[1], notify=nf)
        if t == "i":
            return (oapi.trait("items", notify=nf, optional=True)
                    | oapi.dict_items(notify=nf, optional=True)
                    | oapi.list_items(notify=nf, optional=True)
                    | oapi.set_items(notify=nf, optional=True))
        if t == "m":
            return oapi.metadata(e[1], notify=nf)
        if t == "*":
            return oapi.anytrait(notify=nf)
        return par(e[1], nf)

    def ser(series, notify):
        out = None
        for e, c in series:
            x = elem(e, notify if c is None else c == ".")
            out = x if out is None else out.then(x)
        return out

    def par(p, notify):
        out = None
        for s in p:
            x = ser(s, notify)
            out = x if out is None else out | x
        return out
    return par(ast, True)


def _lf_spelling(ast, rng):
    r = rng.random()
    if r < 0.4:
        return render(ast)
    if r < 0.75:
        return render_ws(ast_tokens(ast), rng, rng.choice(WS_KIND_NAMES + ["ws-edges"]))
    v = bracket_variant(ast, rng, rng.choice(BR_KINDS))
    return render(v if v is not None else ast)


class _Elem:
    """One element of a list argument: a text or an expression object."""
    __slots__ = ("ast", "kind", "arg", "text", "paths", "alt")


def _lf_elements(ck, rng):
    cls = rng.choice(["all-str", "all-expr", "mixed", "mixed", "mixed", "mixed"])
    k = rng.choice([1, 2, 2, 3, 3, 4]) if cls != "mixed" else rng.choice([2, 2, 3, 3, 4])
    kinds = []
    for i in range(k):
        if cls == "all-str" or (cls == "mixed" and i == 0):
            kinds.append("str")
        elif cls == "all-expr" or (cls == "mixed" and i == 1):
            kinds.append(rng.choice(["expr-built", "expr-built", "expr-parsed"]))
        else:
            kinds.append(rng.choice(["str", "expr-built", "expr-parsed"]))
    elems = []
    for kind in kinds:
        for _ in range(30):
            if rng.random() < 0.35:
                nm = rng.choice(["v", "w", "a", "b", "xs", "d", "st"])
                ast = (((("n", nm), None),),)
            else:
                ast = live_expression(rng)
            if not has_dup_siblings(ast):
                break
        else:
            return None
        e = _Elem()
        e.ast = ast
        e.kind = kind
        e.text = _lf_spelling(ast, rng)
        e.paths = ref_paths(ast)
        if kind == "str":
            e.arg = e.text
            e.alt = rng.choice([_lf_spelling(ast, rng), "expr"])
        else:
            e.alt = _lf_spelling(ast, rng)
        elems.append(e)
    return elems


def _lf_class(lst_elems):
    ks = [e.kind == "str" for e in lst_elems]
    if all(ks):
        return "all-str"
    if not any(ks):
        return "all-expr"
    return "mixed-str-first" if ks[0] else "mixed-expr-first"


_LF_MODES = ["list/list", "list/piecewise", "piecewise/list"]
_LF_STATE = {"corrupted": False}


def listform_case(ctx, ck, rng, c):
    n = ck.n
    elems = _lf_elements(ck, rng)
    if elems is None:
        return
    # -- the texts involved, their respellings; denotations before ------------
    texts = []
    for e in elems:
        for s in (e.text, render(e.ast), e.alt if e.alt != "expr" else None,
                  render_ws(ast_tokens(e.ast), rng, "ws-mixed")):
            if s is not None and s not in texts:
                texts.append(s)
        bv = bracket_variant(e.ast, rng, rng.choice(BR_KINDS))
        if bv is not None and render(bv) not in texts:
            texts.append(render(bv))
    if _LF_STATE["corrupted"]:
        # an earlier case of this process reported that the list forms corrupt the
        # process-wide compilation caches: texts already corrupted are not reported
        # again under derived keys
        for s in texts:
            try:
                clean = impl_paths(oapi.compile_str(s)) == ref_paths(ref_parse(s))
            except Exception:  # noqa: BLE001
                clean = False
            if not clean:
                n["listform_skipped_after_corruption"] += 1
                return
    before = []
    for s in texts:
        r = ck.check(s, "listform")
        if r is None:
            return
        if len(r) == 1:
            raise AssertionError("oracle bug: derivation %r rejected by reference" % s)
        before.append((s, r, list(r[2]), [hash(g) for g in r[2]], hash(r[1])))
    # expression objects are made only now, from texts / functions already checked
    try:
        for e in elems:
            if e.kind == "expr-built":
                e.arg = build_expr(e.ast)
            elif e.kind == "expr-parsed":
                e.arg = oapi.parse(e.text)
            if e.alt == "expr":
                e.alt = build_expr(e.ast)
        exprs = [(e, impl_paths(oapi.compile_expr(e.arg))) for e in elems if e.kind != "str"]
    except Exception as ex:  # noqa: BLE001 - the expression functions are not this property's subject
        n["listform_expression_unbuildable"] += 1
        ck.sig("listform", "unbuildable", type(ex).__name__)
        return
    n["listform_cases"] += 1
    n["evaluations"] += 1

    def recheck(via):
        for s, r, snap, hsnap, hexpr in before:
            n["listform_rechecks"] += 1
            what = None
            try:
                g2 = oapi.compile_str(s)
                e2 = oapi.parse(s)
                if impl_paths(g2) != r[3]:
                    what = "compile_str-paths"
                elif list(g2) != snap or [hash(g) for g in g2] != hsnap:
                    what = "compile_str-graphs-unequal"
                elif impl_paths(r[2]) != r[3] or list(r[2]) != snap:
                    what = "held-graphs-mutated"
                elif not (e2 == r[1]) or hash(e2) != hexpr:
                    what = "parse-unequal"
                elif impl_paths(oapi.compile_expr(e2)) != r[3]:
                    what = "compile_expr-of-parse-paths"
            except Exception as ex:  # noqa: BLE001
                what = "raises-" + type(ex).__name__
            if what:
                got = None
                try:
                    got = fmt_paths(impl_paths(oapi.compile_str(s)))
                except Exception:  # noqa: BLE001
                    pass
                ctx.violation("listform/text-denotation-changed/%s/%s" % (via, what),
                              "after the list %s was used through %s, the text %r no longer denotes "
                              "what it denoted before (%s): reference paths %s, now %s"
                              % (describe(elems), via, s, what, fmt_paths(r[3]), got),
                              {"text": s, "list": describe(elems), "via": via, "what": what,
                               "reference_paths": fmt_paths(r[3]), "now": got})
                return False
        for e, paths in exprs:
            n["listform_rechecks"] += 1
            try:
                same = impl_paths(oapi.compile_expr(e.arg)) == paths
            except Exception:  # noqa: BLE001
                same = False
            if not same:
                ctx.violation("listform/expression-denotation-changed/%s" % via,
                              "after the list %s was used through %s, the expression object spelt %r "
                              "compiles to other paths than before" % (describe(elems), via, render(e.ast)),
                              {"list": describe(elems), "via": via, "expression": render(e.ast)})
                return False
        return True

    def describe(es):
        return [("%r" % e.text) if e.kind == "str" else "<%s %s>" % (e.kind, render(e.ast)) for e in es]

    # -- behaviour of the plain texts on an object of their own ----------------
    probe_texts = [e.text for e in elems][:2]
    if len(elems) > 1 and elems[-1].text not in probe_texts:
        probe_texts.append(elems[-1].text)

    def second_object(s, paths, alt):
        """observe(h, s) on a fresh tree; outcome class + what fired"""
        registry = []
        root = build_live("N", 2, registry)
        serial = {id(o): i for i, o in enumerate(registry)}
        fired = set()

        def h(event):
            if type(event).__name__ == "TraitChangeEvent":
                fired.add((serial.get(id(event.object)), event.name))
        c0 = census(registry)
        try:
            root.observe(h, s)
        except Exception as ex:  # noqa: BLE001
            return ("raises", type(ex).__name__)
        try:
            want = _lf_values_only(model_fires(paths, root, serial))
        except Unfit:
            want = None
        for _ in lf_mutations(registry, False):
            pass
        got = set(fired)
        try:
            root.observe(h, alt, remove=True)
        except Exception as ex:  # noqa: BLE001
            return ("remove-raises", type(ex).__name__)
        left = census(registry) != c0
        fired.clear()
        for _ in lf_mutations(registry, True):
            pass
        return ("ok", got, want, left, bool(fired))

    def judge_second(s, out, when):
        """absolute part: the text behaves as its denotation says"""
        if out[0] != "ok":
            return True
        _, got, want, left, noisy = out
        if want is not None and got != want:
            kind = "fires-more" if got - want and not want - got else \
                "fires-less" if want - got and not got - want else "fires-otherwise"
            ctx.violation("listform/text-behaviour/%s/%s" % (when, kind),
                          "observe(h, %r) on a fresh object tree (%s the list workloads): handler reached "
                          "by %s, the denotation says %s" % (s, when, sorted(got - want)[:5] or "-",
                                                             sorted(want - got)[:5] or "-"),
                          {"text": s, "when": when, "extra": sorted(got - want)[:10],
                           "missing": sorted(want - got)[:10], "list": describe(elems)})
            return False
        if left or noisy:
            ctx.violation("listform/text-behaviour/%s/%s" % (when, "notifiers-left" if left else "fires-after-removal"),
                          "observe(h, %r) then removal by a respelling on a fresh object tree (%s the list "
                          "workloads) leaves the handler connected" % (s, when),
                          {"text": s, "when": when, "list": describe(elems)})
            return False
        if want:
            n["listform_second_object_fired"] += 1
        return True

    second = []
    for s in probe_texts:
        e = [x for x in elems if x.text == s][0]
        alt = e.alt if isinstance(e.alt, str) else render(e.ast)
        out = second_object(s, e.paths, alt)
        n["listform_second_object_probes"] += 1
        if not judge_second(s, out, "before"):
            return
        second.append((s, e, alt, out))

    # -- the list forms ---------------------------------------------------------
    k = len(elems)
    perms = list(itertools.permutations(range(k)))
    if len(perms) > ctx.scale(6, 24):
        perms = rng.sample(perms, 6)
    star_at_root = any(p[0][0] == "anytrait" for e in elems for p in e.paths)
    vias = ["observe-call", "observe-decorator", "property-observe"]
    vias = vias[c % 3:] + vias[:c % 3]
    run_no = 0
    for via in vias:
        for perm in perms:
            es = [elems[i] for i in perm]
            if rng.random() < 0.25:
                es = es + [rng.choice(es)]          # an element given twice
                n["listform_repeated_element"] += 1
            lst = [e.arg for e in es]
            lclass = _lf_class(es)
            run_no += 1
            if via == "observe-call":
                mode = _LF_MODES[(c + run_no) % 3]
                ok = _lf_call(ctx, ck, rng, es, lst, lclass, mode, describe)
            elif via == "observe-decorator":
                ok = _lf_decorated(ctx, ck, rng, es, lst, lclass, describe)
            else:
                if star_at_root:
                    n["listform_property_skipped_star_at_root"] += 1
                    continue
                ok = _lf_property(ctx, ck, rng, es, lst, lclass, describe)
            if ok is False:
                return
            if ok:
                n["listform_" + lclass.replace("-", "_")] += 1
                n["listform_uses"] += 1
                ck.sig("listform", via, lclass, min(len(es), 4), ok)
        if not recheck(via):
            return
    # -- the same texts on another fresh object, afterwards --------------------
    for s, e, alt, out0 in second:
        out = second_object(s, e.paths, alt)
        if out[:1] != out0[:1] or (out[0] != "ok" and out != out0):
            ctx.violation("listform/text-behaviour-changed/%s-then-%s" % (out0[0], out[0]),
                          "observe(h, %r) on a fresh object tree: %s before the list workloads, %s after"
                          % (s, out0[:2] if out0[0] != "ok" else "ok", out[:2] if out[0] != "ok" else "ok"),
                          {"text": s, "list": describe(elems)})
            return
        if out[0] == "ok" and out[1] != out0[1]:
            kind = "fires-more" if out[1] - out0[1] else "fires-less"
            ctx.violation("listform/text-behaviour-changed/" + kind,
                          "observe(h, %r) on a fresh object tree reaches the handler from other traits "
                          "after the list workloads than before: extra %s, missing %s"
                          % (s, sorted(out[1] - out0[1])[:5], sorted(out0[1] - out[1])[:5]),
                          {"text": s, "list": describe(elems)})
            return
        if not judge_second(s, out, "after"):
            return
    ck.sample("listform", {"part": "list-forms", "list": describe(elems), "texts_rechecked": texts[:6]})


def _lf_values_only(want):
    """the part of an expectation that lf_mutations(.., links=False) exercises"""
    return {x for x in want if x[1] in ("v", "w")}


def _lf_union(es, root, serial):
    want = set()
    for e in es:
        want |= model_fires(e.paths, root, serial)
    return want


def _lf_mismatch(ctx, via, mode, describe, es, got, want, step):
    kind = "fires-more" if got - want and not want - got else \
        "fires-less" if want - got and not got - want else "fires-otherwise"
    ctx.violation("listform/%s/%s/%s" % (via, step, kind),
                  "list %s through %s (%s), %s: handler reached by %s beyond, and not by %s of, what the "
                  "elements denote" % (describe(es), via, mode, step, sorted(got - want)[:5] or "-",
                                       sorted(want - got)[:5] or "-"),
                  {"list": describe(es), "via": via, "mode": mode, "step": step,
                   "extra": sorted(got - want)[:10], "missing": sorted(want - got)[:10]})
    return False


def _lf_call(ctx, ck, rng, es, lst, lclass, mode, describe):
    """HasTraits.observe with a list.  Returns False after a violation, None when
    not judged, else the mode."""
    n = ck.n
    registry = []
    root = build_live("N", 2, registry)
    serial = {id(o): i for i, o in enumerate(registry)}
    fired = set()

    def h(event):
        if type(event).__name__ == "TraitChangeEvent":
            fired.add((serial.get(id(event.object)), event.name))

    def probe(links=False):
        fired.clear()
        for _ in lf_mutations(registry, links):
            pass
        return set(fired)
    try:
        wants = [model_fires(e.paths, root, serial) for e in es]
    except Unfit:
        wants = None
    c0 = census(registry)
    reps = rng.choice([1, 1, 2, 3]) if mode == "list/list" else 1

    try:
        if mode == "piecewise/list":
            for e in es:
                root.observe(h, e.arg if rng.random() < 0.5 else e.alt)
        else:
            for _ in range(reps):
                root.observe(h, lst)
    except Exception as ex:  # noqa: BLE001 - does not fit the tree: not judged here
        n["listform_observe_failed"] += 1
        ck.sig("listform", "observe-failed", type(ex).__name__)
        return None
    n["listform_observe_calls"] += 1
    if census(registry) != c0:
        n["listform_attached"] += 1
    if wants is not None:
        got = probe()
        want = _lf_values_only(set().union(*wants))
        if got != want:
            return _lf_mismatch(ctx, "observe-call", mode, describe, es, got, want, "registered")
        if want:
            n["listform_fired_matched"] += 1
    try:
        if mode == "list/piecewise":
            order = list(range(len(es)))
            rng.shuffle(order)
            for j, i in enumerate(order):
                root.observe(h, es[i].alt, remove=True)
                n["listform_piecewise_removed"] += 1
                if wants is not None and j < len(order) - 1:
                    got = probe()
                    want = _lf_values_only(set().union(*[wants[q] for q in order[j + 1:]]))
                    if got != want:
                        return _lf_mismatch(ctx, "observe-call", mode, describe, es, got, want,
                                            "partly-removed")
                    if want:
                        n["listform_fired_matched"] += 1
        else:
            if mode == "list/list" and wants is not None:
                got = probe(True)           # link traits too; the tree is used up
                want = set().union(*wants)
                if got != want:
                    return _lf_mismatch(ctx, "observe-call", mode, describe, es, got, want,
                                        "registered-links")
            for _ in range(reps):
                root.observe(h, lst, remove=True)
    except Exception as ex:  # noqa: BLE001
        ctx.violation("listform/observe-call/remove-failed/%s/%s" % (mode, type(ex).__name__),
                      "list %s registered and removed %s: removal raised %r" % (describe(es), mode, ex),
                      {"list": describe(es), "mode": mode})
        return False
    c2 = census(registry)
    if c2 != c0:
        left = [x for x in c2 if x not in c0]
        ctx.violation("listform/observe-call/census-not-restored/" + mode,
                      "list %s registered and removed %s: notifiers left %r" % (describe(es), mode, left[:6]),
                      {"list": describe(es), "mode": mode, "left": left[:10]})
        return False
    if probe(mode != "list/list"):
        ctx.violation("listform/observe-call/handler-still-called/" + mode,
                      "list %s registered and removed %s: the handler still fires" % (describe(es), mode),
                      {"list": describe(es), "mode": mode})
        return False
    n["listform_removed_silent"] += 1
    return mode


def _lf_decorated(ctx, ck, rng, es, lst, lclass, describe):
    """@observe(list) on a method of a new class."""
    from traits.api import observe as observe_decorator
    n = ck.n
    fired = set()
    serial = {}

    def hook(self, event):
        if type(event).__name__ == "TraitChangeEvent":
            fired.add((serial.get(id(event.object)), event.name))
    try:
        cls = type("Decorated", (K,), {"_hook": observe_decorator(lst, post_init=rng.random() < 0.3)(hook)})
        registry = []
        root = build_live("N", 2, registry, cls)
    except Exception as ex:  # noqa: BLE001
        n["listform_observe_failed"] += 1
        ck.sig("listform", "decorated-failed", type(ex).__name__)
        return None
    serial.update((id(o), i) for i, o in enumerate(registry))
    n["listform_decorated_classes"] += 1
    try:
        want = _lf_union(es, root, serial)
    except Unfit:
        return "decorated-unjudged"
    fired.clear()
    for _ in lf_mutations(registry, True):
        pass
    got = set(fired)
    if got != want:
        return _lf_mismatch(ctx, "observe-decorator", "class", describe, es, got, want, "registered")
    if want:
        n["listform_fired_matched"] += 1
    return "decorated"


def _lf_property(ctx, ck, rng, es, lst, lclass, describe):
    """Property(observe=list) on a new class: the property changes iff an observed trait does."""
    from traits.api import Property
    n = ck.n
    try:
        cls = type("WithProperty", (K,), {"p": Property(Int, observe=lst), "_get_p": lambda self: 0})
        registry = []
        root = build_live("N", 2, registry, cls)
    except Exception as ex:  # noqa: BLE001
        n["listform_observe_failed"] += 1
        ck.sig("listform", "property-failed", type(ex).__name__)
        return None
    serial = {id(o): i for i, o in enumerate(registry)}
    n["listform_property_classes"] += 1
    try:
        want = _lf_union(es, root, serial)
    except Unfit:
        return "property-unjudged"
    hits = []
    root.on_trait_change(lambda: hits.append(1), "p")
    got = set()
    for key in lf_mutations(registry, True):
        if hits:
            got.add(key)
            del hits[:]
    if got != want:
        return _lf_mismatch(ctx, "property-observe", "class", describe, es, got, want, "registered")
    if want:
        n["listform_fired_matched"] += 1
    return "property"


def part_listforms(ctx, ck):
    ncases = ctx.scale(480, 12000)
    for c in range(ncases):
        if not ctx.mine(c):
            continue
        if not ctx.begin("listform:%d" % c):
            continue
        nv = ctx.nviol
        try:
            listform_case(ctx, ck, ctx.rng("listform", c), c)
            if ctx.nviol > nv:
                _LF_STATE["corrupted"] = True
        finally:
            ck.flush()
            ctx.end()


def run(ctx):
    ck = Checker(ctx)
    part_meta(ctx, ck)
    part_live(ctx, ck)
    part_cache(ctx, ck)
    part_shapes(ctx, ck)
    part_random(ctx, ck)
    part_tokens(ctx, ck)
    part_listforms(ctx, ck)
    ck.flush()
