"""C07 -- TraitSet refines set; events are faithful deltas; copies still validate.

Oracle: a plain `set` receiving the same operation on the validated items
(removal-type operations use the raw items; `^=` / symmetric_difference_update
remove the raw items that are present and validate only the others, as pinned by
the repository's own tests), the delta law on the (removed, added) arguments of
a raw notifier, strict silence when nothing changes, and the copy law (copy,
deepcopy, pickle protocols 0-5) at a random point of each history, after which
the history continues on the copy.  Exhaustive single operations on sets of
size 0..3 over an 8-item universe, then random 20-op histories.
See DESIGN.md section 4 / C07.
"""
import copy
import itertools
import operator
import pickle

from traits.api import HasTraits, Any, CInt, Set, TraitError, push_exception_handler
from traits.trait_set_object import TraitSet
from traits.observation import api as obs_api

META = {
    "level": "exploration",
    "rule": ("cases = (set flavour, start state, operation) with flavours: bare TraitSet without "
             "validator / with a rejecting / with a coercing (digit str -> int) and rejecting "
             "module-level validator whose set of banned items can change during a history, and "
             "the TraitSetObject of a Set(CInt) trait; operations add, discard, remove, pop, "
             "clear, update / difference_update / intersection_update with 0..2 iterables "
             "(list, set, generator, non-iterable), symmetric_difference_update, |=, &=, -=, ^= "
             "with set, frozenset, the set itself and non-set operands; arguments overlapping, "
             "disjoint, invalid, colliding after coercion, unhashable; 8-item universe; with and "
             "without an observe('<name>.items') handler, raw notifier before/after the other "
             "notifiers; and, for the bare flavours, sets nobody listens to (built without "
             "notifiers, or copies left without one), judged on contents, return value, "
             "exception class and failure atomicity only; after a copy both objects stay alive "
             "and either one is changed: the other must receive no notification and keep its "
             "contents (also for the plain set returned by s.copy()). Exhaustive over all start sets of size 0..3 x all single operations of "
             "that grid, plus random 20-op histories with a copy (copy.copy, copy.deepcopy, "
             "pickle protocol 0..5) taken at a random point, checked against the copy law and "
             "then driven by the rest of the history; and a re-entrancy stratum (exhaustive "
             "single operations x 8 fixed reactions, plus random 15-op histories): a mirror "
             "listener registered first rebuilds the contents from the notifications alone, a "
             "second listener (plain notifier / observe handler / on_trait_change or static "
             "<name>_items listener) answers chosen notifications with 1..3 further operations "
             "on the same set (depth <= 2, <= 3 reactions per top-level operation), every "
             "nested operation is judged like a top-level one against the same model, a third "
             "listener registered last must receive the same notifications in any order. "
             "distinct_nontrivial counts distinct "
             "(flavour, op, argument shape, overlap class, outcome class, event shape, copied) "
             "signatures of cases in which the set changed, an event was emitted or an exception "
             "was raised, and (flavour, copy mode, size class) signatures of copies."),
    "phases": [{"name": "main", "flavour": "P", "shards": 16}],
    "gates": {
        "quick": {"evaluations": 150000, "events_checked": 60000, "failures_checked": 28000,
                  "silent_noops_checked": 60000, "history_ops": 90000, "copies_checked": 4000,
                  "ops_on_copies": 20000, "exhaustive_cases": 45000,
                  "observer_events_checked": 24000, "copy_probes": 8500,
                  "isolation_checks": 29000, "isolation_checks_copy_mutated": 20000,
                  "isolation_checks_original_mutated": 8500,
                  # re-entrant listeners
                  "reentrant_ops": 30000, "reentrant_nested_ops": 45000,
                  "reentrant_nested_content_changes": 33000,
                  "reentrant_ops_with_2_or_more_nested": 12000, "reentrant_mirror_events": 50000,
                  "reentrant_quiescence_checks": 30000, "reentrant_exhaustive_cases": 15000,
                  "reentrant_histories": 1000,
                  # sets nobody listens to (never had a notifier, or a fresh copy)
                  "unwatched_evaluations": 100000, "unwatched_failures_checked": 15000,
                  "unwatched_bulk_rejections_checked": 4000, "copies_continued_unwatched": 1500,
                  "exhaustive_unwatched_cases": 75000},
        "thorough": {"evaluations": 2500000, "events_checked": 900000, "failures_checked": 550000,
                     "silent_noops_checked": 1100000, "history_ops": 2200000,
                     "copies_checked": 90000, "ops_on_copies": 500000,
                     "exhaustive_cases": 45000, "observer_events_checked": 250000,
                     "copy_probes": 190000,
                     "unwatched_evaluations": 750000, "unwatched_failures_checked": 190000,
                     "unwatched_bulk_rejections_checked": 45000,
                     "copies_continued_unwatched": 37000, "exhaustive_unwatched_cases": 75000,
                     "isolation_checks": 700000, "isolation_checks_copy_mutated": 500000,
                     "isolation_checks_original_mutated": 210000,
                     "reentrant_ops": 400000, "reentrant_nested_ops": 300000,
                     "reentrant_nested_content_changes": 160000,
                     "reentrant_ops_with_2_or_more_nested": 90000,
                     "reentrant_mirror_events": 340000, "reentrant_quiescence_checks": 400000,
                     "reentrant_exhaustive_cases": 15000, "reentrant_histories": 26000},
    },
    "exhaustive_parts": "all single operations of the grid in `rule` on every start set of size "
                        "0..3 over the validated item universe of each flavour",
    "assumptions": ["built-in set is the sequential specification",
                    "items are compared by equality; validators are pure functions of the item "
                    "and of the current set of banned items",
                    "pop may return any element",
                    "notifications are delivered synchronously and depth-first: only the listener "
                    "registered before a re-entrant one is required to receive them in operation "
                    "order, each applicable to the contents at that time",
                    "a pickled or shallow-copied TraitSetObject is documented as detached from "
                    "its trait, so only equality and independence are demanded of it"],
}

BAD = "BAD"
DUMMY = ("<dummy>",)
UNHASH = ["unhashable"]
BANNED = set()          # items the validators currently reject (reset per history)

ITEMS = {
    "none": [1, 2, 3, 1.0, 'a', (1, 2), 4, 'b'],
    "reject": [1, 2, 3, 1.0, 'a', (1, 2), 4, BAD],
    "coerce": [1, 2, 3, '1', '2', '4', 5, BAD],
    "tso": [1, '1', 2, '2', 3, 1.0, 4, 'x'],
}


def _banned(x):
    try:
        return x in BANNED
    except TypeError:
        return False


# module-level so that pickled copies can find them again
def iv_none(x):
    return x


def iv_reject(x):
    if (type(x) is str and x == BAD) or _banned(x):
        raise TraitError("bad item")
    return x


def iv_coerce(x):
    if type(x) is str:
        if not x.isdigit():
            raise TraitError("bad item")
        x = int(x)
    if _banned(x):
        raise TraitError("bad item")
    return x


def iv_tso(x):
    try:
        return int(x)
    except (TypeError, ValueError):
        raise TraitError("bad item")


IV = {"none": iv_none, "reject": iv_reject, "coerce": iv_coerce, "tso": iv_tso}


class Holder(HasTraits):
    s = Set(CInt)


class Box(HasTraits):
    x = Any()


class StaticHolder(HasTraits):
    """A Set trait whose items event has a static listener."""
    s = Set(CInt)
    hook = Any()

    def _s_items_changed(self, event):
        if self.hook is not None:
            self.hook(event)


class Env:
    """One set under test with its recorders."""

    def __init__(self, flavour, items, n_obs=0, raw_first=True, ctor_notifier=False, ts=None,
                 silent=False):
        """silent: no notifier of any kind is ever attached by the harness (a bare
        TraitSet's `notifiers` stays empty); ts: wrap an existing set (a copy)."""
        self.flavour = flavour
        self.silent = silent
        if silent:
            assert not n_obs and not ctor_notifier and (ts is not None or flavour != "tso")
        self.raw = []
        self.obs_log = []
        self.n_obs = n_obs
        self.root = None

        def rec(s, removed, added):
            self.raw.append((s is self.ts, set(removed), set(added)))
        self.rec = rec

        def handler(event):
            self.obs_log.append((event.object is self.ts, set(event.removed), set(event.added)))
        self.handler = handler

        pre = False
        if ts is not None:                       # wrap an existing set (a copy)
            self.ts = ts
        elif flavour == "tso":
            self.root = Holder(s=set(items))
            self.ts = self.root.s
        else:
            kw = {}
            if flavour != "none":
                kw["item_validator"] = IV[flavour]
            if ctor_notifier:
                kw["notifiers"] = [rec]
                pre = True
            self.ts = TraitSet(list(items), **kw)
        if n_obs and ts is None:
            if self.root is None:
                self.root = Box(x=self.ts)
                self.root.observe(handler, "x.items")
            else:
                self.root.observe(handler, "s.items")
        if not pre and not silent:
            ns = self.ts.notifiers
            ns.insert(0 if raw_first else len(ns), rec)

    def clear_logs(self):
        del self.raw[:]
        del self.obs_log[:]


# -- operations -----------------------------------------------------------------
MULTI = ("update", "difference_update", "intersection_update")
INPLACE = {"ior": operator.ior, "iand": operator.iand, "isub": operator.isub,
           "ixor": operator.ixor}


def build_arg(arg, target):
    shape, payload = arg
    if shape == "list":
        return list(payload)
    if shape == "set":
        return set(payload)
    if shape == "frozenset":
        return frozenset(payload)
    if shape == "gen":
        return (x for x in list(payload))
    if shape == "self":
        return target
    return payload                       # "raw": non-iterable / literal


def apply_real(ts, op):
    name = op[0]
    if name in ("add", "discard", "remove"):
        return getattr(ts, name)(op[1])
    if name in ("pop", "clear"):
        return getattr(ts, name)()
    if name in MULTI:
        return getattr(ts, name)(*[build_arg(a, ts) for a in op[1]])
    if name == "symmetric_difference_update":
        return ts.symmetric_difference_update(build_arg(op[1], ts))
    if name in INPLACE:
        r = INPLACE[name](ts, build_arg(op[1], ts))
        return "SELF" if r is ts else r
    raise AssertionError(op)


def _sym(m, vals, siv):
    rem = m & vals
    add = {siv(x) for x in vals - rem} - m
    m -= rem
    m |= add


def apply_model(m, op, siv):
    """The built-in set on validated items.  pop is judged separately."""
    name = op[0]
    if name == "add":
        return m.add(siv(op[1]))
    if name in ("discard", "remove"):
        return getattr(m, name)(op[1])
    if name == "clear":
        return m.clear()
    if name == "update":
        args = []
        for a in op[1]:
            b = build_arg(a, m)
            try:
                it = iter(b)
            except TypeError:
                args.append(b)           # non-iterable: let the built-in complain
                continue
            args.append([siv(x) for x in it])
        return m.update(*args)
    if name in ("difference_update", "intersection_update"):
        return getattr(m, name)(*[build_arg(a, m) for a in op[1]])
    if name == "symmetric_difference_update":
        vals = set(build_arg(op[1], m))
        return _sym(m, vals, siv)
    if name in INPLACE:
        b = build_arg(op[1], m)
        if isinstance(b, (set, frozenset)):
            if name == "ior":
                m |= {siv(x) for x in b}
            elif name == "ixor":
                _sym(m, set(b), siv)
            else:
                INPLACE[name](m, b)
            return "SELF"
        r = INPLACE[name](m, b)
        return "SELF" if r is m else r
    raise AssertionError(op)


def validated_items(op, m):
    """The raw items the operation has to validate (best effort; hashable or not)."""
    name = op[0]
    if name == "add":
        return [op[1]]
    out = []
    if name == "update":
        for a in op[1]:
            try:
                out.extend(list(build_arg(a, m)))
            except TypeError:
                pass
        return out
    if name == "ior":
        b = build_arg(op[1], m)
        return list(b) if isinstance(b, (set, frozenset)) else []
    if name in ("ixor", "symmetric_difference_update"):
        b = build_arg(op[1], m)
        if name == "ixor" and not isinstance(b, (set, frozenset)):
            return []
        try:
            vals = set(b)
        except TypeError:
            return []
        return list(vals - m)
    return []


def _invalid(fn, x):
    try:
        fn(x)
        return False
    except TraitError:
        return True


def op_args(op):
    if op[0] in MULTI:
        return list(op[1])
    if op[0] in INPLACE or op[0] == "symmetric_difference_update":
        return [op[1]]
    return []


def arg_shape(op):
    name = op[0]
    if name in ("add", "discard", "remove"):
        return "unhash" if op[1] is UNHASH else type(op[1]).__name__
    args = op_args(op)
    return (min(len(args), 3),) + tuple(sorted({a[0] for a in args}))


def overlap_class(op, before):
    """How the argument items relate to the current contents."""
    name = op[0]
    items = []
    if name in ("add", "discard", "remove"):
        items = [op[1]]
    else:
        for a in op_args(op):
            if isinstance(a[1], (list, tuple)):
                items.extend(a[1])
    inn = out = 0
    for x in items:
        try:
            if x in before:
                inn += 1
            else:
                out += 1
        except TypeError:
            out += 1
    return (min(inn, 2), min(out, 2))


def hostile_difference(op):
    """difference_update whose arguments make the built-in fail half-way."""
    if op[0] != "difference_update":
        return False
    for shape, payload in op[1]:
        if shape == "raw":
            return True
        if isinstance(payload, (list, tuple)) and any(x is UNHASH for x in payload):
            return True
    return False


NOTSET = object()


class Judged:
    """What judge_op saw."""
    __slots__ = ("before", "after", "rm", "rr", "bad", "is_pop", "own_changed")


def judge_op(ctx, flavour, ts, model, op, commit_first=False, pop_box=None):
    """Run op on ts and on the model; judge contents, return value, exception class
    and failure atomicity.  Returns (complaint or None, Judged).  `model` (a set) is
    updated in place when the operation is judged correct.  With commit_first the
    model receives the operation before the real set does, so that operations made
    by a re-entrant notifier during the call are applied to the model at the same
    point of the history as to the set (for pop, whose victim only the set knows, the
    first listener removes the reported item from the model: pop_box, a stack)."""
    iv = IV[flavour]
    before = set(ts)
    siv = (lambda x: DUMMY if _invalid(iv, x) else iv(x))

    bad = any(_invalid(iv, x) for x in validated_items(op, model))
    m2 = set(model)
    is_pop = op[0] == "pop"
    if is_pop:
        rm = ("ok", None) if m2 else ("exc", KeyError)
    else:
        try:
            rm = ("ok", apply_model(m2, op, siv))
        except Exception as e:
            rm = ("exc", type(e))
    allowed = set()
    if bad:
        allowed.add(TraitError)
        if rm[0] == "exc":
            allowed.add(rm[1])
        try:
            apply_model(set(model), op, iv_none)
        except Exception as e:
            allowed.add(type(e))
    own_changed = rm[0] == "ok" and not bad and (bool(m2) if is_pop else m2 != model)
    saved, normal_ok = None, False
    if commit_first and rm[0] == "ok" and not bad:
        saved = set(model)
        model.clear()
        model.update(m2)
        m2 = model
        if is_pop:
            box = {"pending": model, "popped": NOTSET}
            pop_box.append(box)           # a stack: pops can nest
    try:
        rr = ("ok", apply_real(ts, op))
    except Exception as e:
        rr = ("exc", type(e))
    after = set(ts)
    if is_pop and saved is not None:
        pop_box.remove(box)
        if rr[0] == "ok" and box["popped"] is not NOTSET and box["popped"] == rr[1]:
            rm = ("ok", rr[1])
    elif is_pop and rm[0] == "ok" and rr[0] == "ok":
        try:
            if rr[1] in m2:
                m2.discard(rr[1])
                rm = ("ok", rr[1])
        except TypeError:
            pass

    complaint = None
    if bad:
        if rr[0] != "exc":
            complaint = "invalid-item-accepted"
        elif rr[1] not in allowed:
            complaint = "wrong-exception-class"
        elif after != before:
            complaint = "changed-on-failure"
    elif rm[0] == "exc":
        if rr[0] != "exc":
            complaint = "set-raises-traitset-does-not"
        elif rr[1] is not rm[1]:
            complaint = "wrong-exception-class"
        elif after != before:
            complaint = "changed-on-failure"
    else:
        if rr[0] != "ok":
            complaint = "traitset-raises-set-does-not"
        elif is_pop and rm[1] is None:
            complaint = "pop-returned-a-non-member"
        elif after != m2:
            complaint = "contents-differ"
        elif not (rr[1] is rm[1] or rr[1] == rm[1]):
            complaint = "return-value-differs"
        else:
            normal_ok = True
            if saved is None:
                model.clear()
                model.update(m2)
    if saved is not None and not normal_ok:
        model.clear()
        model.update(saved)
    ctx.ev()
    if rr[0] == "exc":
        ctx.count("failures_checked")
    j = Judged()
    j.before, j.after, j.rm, j.rr, j.bad, j.is_pop = before, after, rm, rr, bad, is_pop
    j.own_changed = own_changed and normal_ok
    return complaint, j


def check_one(ctx, env, model, op, copied=False, key_prefix=""):
    """Run op on env.ts and on a copy of model, judge outcome and notifications.
    Returns complaint key or None.  `model` (a set) is updated in place when the
    operation is judged correct."""
    flavour = env.flavour
    env.clear_logs()
    complaint, j = judge_op(ctx, flavour, env.ts, model, op)
    before, after, rm, rr, bad, is_pop = j.before, j.after, j.rm, j.rr, j.bad, j.is_pop

    changed = after != before
    evs = [e[1:] for e in env.raw]
    prefix = None
    if env.silent:
        # nobody listens: contents, return value, exception class and failure
        # atomicity (all judged above) are all there is to observe
        ctx.count("unwatched_evaluations")
        if rr[0] == "exc":
            ctx.count("unwatched_failures_checked")
            if bad and len(validated_items(op, before)) > 1:
                ctx.count("unwatched_bulk_rejections_checked")
    if complaint is None and not env.silent:
        if any(not e[0] for e in env.raw):
            complaint = "notifier-got-another-set"
        elif changed and len(evs) != 1:
            complaint = "changed-with-%s-events" % ("no" if not evs else "several")
        elif not changed and evs:
            complaint = "event-without-change"
        else:
            if not changed:
                ctx.count("silent_noops_checked")
            for r, a in evs:
                ctx.count("events_checked")
                if not r <= before:
                    complaint = "removed-not-subset-of-previous"
                elif a & before:
                    complaint = "added-not-disjoint-from-previous"
                elif (before - r) | a != after:
                    complaint = "delta-does-not-give-new-contents"
                elif is_pop and r != {rr[1]}:
                    complaint = "removed-is-not-the-popped-item"
    if complaint is None and env.n_obs:
        if len(env.obs_log) != len(evs):
            prefix, complaint = "observer", "event-count-differs-from-notifications"
        else:
            for (is_ts, orem, oadd), (r, a) in zip(env.obs_log, evs):
                ctx.count("observer_events_checked")
                if not is_ts:
                    prefix, complaint = "observer", "event-object-is-not-the-set"
                elif orem != r or oadd != a:
                    prefix, complaint = "observer", "event-differs-from-notification"

    if changed or evs or rr[0] == "exc":
        evshape = tuple((min(len(r), 2), min(len(a), 2)) for r, a in evs[:2])
        ctx.sig(flavour, op[0], arg_shape(op), overlap_class(op, before), min(len(before), 3),
                rr[0] if rr[0] == "ok" else rr[1].__name__, evshape, bad, env.n_obs, copied,
                env.silent)
    if complaint:
        name = op[0] + ("-hostile" if hostile_difference(op) else "")
        key = "%s%s/%s" % (key_prefix, prefix or name, complaint)
        ctx.violation(
            key, "%s on %s set%s%s: op=%r model=%r real=%r events=%r observer=%r before=%r after=%r "
                 "banned=%r" % (complaint, flavour, " (a copy)" if copied else "",
                                " (no notifier attached)" if env.silent else "", op, rm, rr,
                                env.raw[:3], env.obs_log[:3], before, after, sorted(BANNED, key=repr)),
            {"flavour": flavour, "before": before, "op": op, "events": env.raw[:3],
             "after": after, "model_outcome": rm, "real_outcome": rr, "copied": copied,
             "silent": env.silent,
             "banned": sorted(BANNED, key=repr)})
    return complaint


# -- re-entrancy ------------------------------------------------------------------
REACTOR_KINDS = ("notifier", "observe", "items", "static")   # the last two: Set traits only
TRIGGERS = ("any", "added", "removed")


class ReEnv:
    """A set with a *mirror* registered first (it rebuilds the contents from the
    notifications alone), a *reactor* (plain notifier / observe handler /
    on_trait_change or static <name>_items listener) that answers chosen notifications
    with 1..3 further operations on the same set, and a plain recorder registered
    last.  Nested operations are judged like top-level ones, against the same model, at
    the point where they happen."""

    def __init__(self, ctx, flavour, state, kind, trigger, rng=None, scripts=None,
                 max_reactions=2, max_depth=2, hostile=False):
        self.ctx, self.flavour, self.kind, self.trigger = ctx, flavour, kind, trigger
        self.rng, self.scripts, self.hostile = rng, scripts, hostile
        self.max_reactions, self.max_depth = max_reactions, max_depth
        self.root = None
        if flavour == "tso":
            self.root = (StaticHolder if kind == "static" else Holder)(s=set(state))
            self.ts, name = self.root.s, "s"
        else:
            kw = {}
            if flavour != "none":
                kw["item_validator"] = IV[flavour]
            self.ts, name = TraitSet(list(state), **kw), "x"
            if kind == "observe":
                self.root = Box(x=self.ts)
        self.model = set(state)
        self.mirror = set(self.ts)
        self.mirror_log, self.late_log = [], []
        self.mirror_complaint = None
        self.nested_complaint = None
        self.nested_ops = []
        self.events = 0                  # notifications seen by the mirror
        self.frames = []                 # events that belong to operations in flight
        self.depth = 0
        self.reactions_left = 0
        self.script_no = 0
        self.pop_box = []                # pops in flight whose victim is not known yet
        self.ts.notifiers.insert(0, self._mirror)
        if kind == "notifier":
            self.ts.notifiers.append(self._react_raw)
        elif kind == "observe":
            self.root.observe(self._react_event, name + ".items")
        elif kind == "items":
            self.root.on_trait_change(self._react_event, name + "_items")
        else:
            self.root.hook = self._react_event
        self.ts.notifiers.append(self._late)

    # -- listeners
    def _mirror(self, s, removed, added):
        self.events += 1
        self.ctx.count("reentrant_mirror_events")
        if self.depth:
            self.ctx.count("reentrant_nested_events")
        removed, added = set(removed), set(added)
        self.mirror_log.append((removed, added))
        if self.pop_box and self.pop_box[-1]["pending"] is not None:
            box = self.pop_box[-1]       # the victim of the innermost pop() in flight
            pending, box["pending"] = box["pending"], None
            if len(removed) == 1 and not added:
                x = next(iter(removed))
                if x in pending:
                    pending.discard(x)
                    box["popped"] = x
        m, c = self.mirror, None
        if s is not self.ts:
            c = "notifier-got-another-set"
        elif not removed and not added:
            c = "event-without-change"
        elif not removed <= m:
            c = "removed-not-subset-of-contents-at-that-time"
        elif added & m:
            c = "added-not-disjoint-from-contents-at-that-time"
        m -= removed
        m |= added
        if not c and m != set(self.ts):
            # first in line: nothing ran since the operation, so the contents rebuilt
            # from the notification are the contents the set holds now
            c = "contents-rebuilt-from-event-are-not-the-current-contents"
        if c and self.mirror_complaint is None:
            self.mirror_complaint = c

    def _late(self, s, removed, added):
        self.late_log.append((set(removed), set(added)))

    def _react_raw(self, s, removed, added):
        self._react(bool(removed), bool(added))

    def _react_event(self, event):
        self._react(bool(event.removed), bool(event.added))

    def _react(self, has_removed, has_added):
        if self.depth >= self.max_depth or self.reactions_left <= 0:
            return
        t = self.trigger
        if not (t == "any" or (t == "added" and has_added) or (t == "removed" and has_removed)):
            return
        self.reactions_left -= 1
        self.depth += 1
        self.ctx.count("reentrant_reactions")
        try:
            if self.scripts is not None:
                ops = self.scripts[self.script_no % len(self.scripts)]
                self.script_no += 1
            else:
                ops = [random_op(self.rng, self.flavour, self.hostile)
                       for _ in range(self.rng.randint(1, 3))]
            for op in ops:
                if self.nested_complaint is None:
                    self._nested(op)
        finally:
            self.depth -= 1

    def run_op(self, op):
        """Judge one operation (top-level or nested); returns (complaint, Judged)."""
        start = self.events
        self.frames.append(0)
        complaint, j = judge_op(self.ctx, self.flavour, self.ts, self.model, op,
                                commit_first=True, pop_box=self.pop_box)
        inner = self.frames.pop()
        total = self.events - start
        if self.frames:
            self.frames[-1] += total
        own = total - inner
        if complaint is None:
            if j.own_changed and own != 1:
                complaint = "changed-with-%s-events" % ("no" if not own else "several")
            elif not j.own_changed and own:
                complaint = "event-without-change"
            elif not own:
                self.ctx.count("reentrant_silent_noops_checked")
        return complaint, j

    def _nested(self, op):
        self.ctx.count("reentrant_nested_ops")
        self.nested_ops.append((self.depth,) + tuple(op))
        complaint, j = self.run_op(op)
        if j.own_changed:
            self.ctx.count("reentrant_nested_content_changes")
        if complaint and self.nested_complaint is None:      # the innermost one came first
            self.nested_complaint = (op, complaint, j)


def check_reentrant(ctx, renv, op):
    """One top-level operation on a set with a re-entrant listener."""
    renv.reactions_left = renv.max_reactions
    del renv.mirror_log[:], renv.late_log[:], renv.nested_ops[:]
    renv.mirror_complaint = renv.nested_complaint = None
    ctx.count("reentrant_ops")
    complaint, j = renv.run_op(op)
    key = None
    if renv.nested_complaint:            # it happened first
        nop, complaint, nj = renv.nested_complaint
        key = "reentrant/nested-%s/%s" % (nop[0], complaint)
    elif complaint:
        key = "reentrant/outer-%s/%s" % (op[0], complaint)
    if key is None and renv.mirror_complaint:
        complaint = renv.mirror_complaint
        key = "reentrant/first-listener/" + complaint
    if key is None:
        ctx.count("reentrant_quiescence_checks")
        if renv.mirror != set(renv.ts):
            complaint = "contents-rebuilt-from-events-differ-at-quiescence"
            key = "reentrant/first-listener/" + complaint
    if key is None:
        # a listener registered after the re-entrant one hears of nested operations
        # before the outer one (delivery is depth-first): only the set of
        # notifications is demanded of it, not their order
        rest = list(renv.late_log)
        for ev in renv.mirror_log:
            if ev in rest:
                rest.remove(ev)
            else:
                complaint = "notification-missing"
                break
        if complaint is None and rest:
            complaint = "extra-notification"
        if complaint:
            key = "reentrant/last-listener/" + complaint
    if len(renv.nested_ops) >= 2:
        ctx.count("reentrant_ops_with_2_or_more_nested")
    if renv.nested_ops or renv.mirror_log or j.rr[0] == "exc":
        ctx.sig("reentrant", renv.flavour, renv.kind, renv.trigger, op[0],
                j.rr[0] if j.rr[0] == "ok" else j.rr[1].__name__,
                min(len(renv.nested_ops), 4), max([d for d, *_ in renv.nested_ops] or [0]),
                renv.nested_ops[0][1] if renv.nested_ops else None, min(len(renv.mirror_log), 4),
                (len(j.after) > len(j.before)) - (len(j.after) < len(j.before)))
    if key:
        ctx.violation(
            key, "%s on %s set with a re-entrant %s (reacts to %s): op=%r nested=%r model=%r "
                 "real=%r before=%r after=%r first-listener events=%r last-listener events=%r "
                 "contents rebuilt by first listener=%r"
            % (complaint, renv.flavour, renv.kind, renv.trigger, op, renv.nested_ops, j.rm, j.rr,
               j.before, j.after, renv.mirror_log[:6], renv.late_log[:6], renv.mirror),
            {"flavour": renv.flavour, "kind": renv.kind, "trigger": renv.trigger, "op": op,
             "nested": renv.nested_ops, "before": j.before, "after": j.after,
             "first_listener": renv.mirror_log[:6], "last_listener": renv.late_log[:6]})
    return key


def reaction_scripts(flavour):
    """Fixed reactions for the exhaustive part: 1..3 operations; some restore the
    size, some grow or shrink the set, some do nothing."""
    uni = UNIVERSE[flavour]
    a, b = uni[0], uni[-1]
    return [
        [("add", 9)],
        [("add", 9), ("discard", a)],
        [("discard", a), ("add", a)],
        [("add", b), ("add", 9), ("remove", 9)],
        [("clear",), ("add", a)],
        [("update", [("list", [a, 9])]), ("pop",)],
        [("ixor", ("set", [a, b]))],
        [("discard", b), ("add", 8), ("add", 9)],
    ]


# -- copy law ---------------------------------------------------------------------
def copy_modes():
    modes = [("copy", None), ("deepcopy", None)]
    modes += [("pickle", p) for p in range(pickle.HIGHEST_PROTOCOL + 1)]
    return modes


COPY_MODES = copy_modes()


def do_copy(ts, mode, proto):
    if mode == "copy":
        return copy.copy(ts)
    if mode == "deepcopy":
        return copy.deepcopy(ts)
    return pickle.loads(pickle.dumps(ts, proto))


def check_copy(ctx, env, model, mode, proto, watch=True):
    """Copy law.  Returns (complaint, Env of the copy or None).  The copy is
    expected to keep validating unless it is a detached TraitSetObject.  With
    watch=False no notifier is attached to a bare copy (copies drop the transient
    notifiers and keep the validator: a validating set nobody listens to)."""
    flavour, ts = env.flavour, env.ts
    env.clear_logs()
    ctx.ev()
    ctx.count("copies_checked")
    ctx.count("copies_" + mode)
    ctx.sig("copy", flavour, mode, proto, min(len(model), 3))
    complaint = None
    cenv = None
    try:
        c = do_copy(ts, mode, proto)
    except Exception as e:
        c = None
        complaint = "raises-" + type(e).__name__
        if mode == "deepcopy" and type(e) is TraitError and \
                any(_invalid(IV[flavour], x) for x in model):
            # the set holds items that were banned after they were stored; a
            # deep copy that validates them again is not covered by the statement
            ctx.count("deepcopy_of_stale_items_not_demanded")
            return None, None
    if complaint is None:
        if not isinstance(c, TraitSet) or type(c) is not type(ts):
            complaint = "wrong-type"
        elif c is ts:
            complaint = "same-object"
        elif set(c) != model or set(ts) != model:
            complaint = "not-equal"
        elif c.notifiers is ts.notifiers or any(n is env.rec for n in c.notifiers):
            complaint = "shares-notifiers"
        elif env.raw:
            complaint = "original-notified"
    if complaint is None:
        keeps_validating = flavour != "tso" or mode == "deepcopy"
        if keeps_validating:
            unwatched = not watch and flavour != "tso"
            cenv = Env(flavour, (), ts=c, raw_first=False, silent=unwatched)
            ctx.count("copies_continued_" + ("unwatched" if unwatched else "watched"))
            cmodel = set(model)
            probes = []
            if flavour != "none":
                probes.append(("add", ITEMS[flavour][-1]))          # the invalid item
                probes.append(("update", [("list", [ITEMS[flavour][-1]])]))
            if flavour == "coerce":
                probes.append(("add", "7"))
                probes.append(("ior", ("set", ["8"])))
            if flavour == "tso":
                probes.append(("add", "7"))
            probes.append(("add", 9))
            for p in probes:
                ctx.count("copy_probes")
                sub = check_one(ctx, cenv, cmodel, p, copied=True, key_prefix="copy/%s/" % mode)
                if sub:
                    return "reported", None        # already reported under copy-probe key
            cenv.model = cmodel
        else:
            ctx.count("detached_copies_validation_not_demanded")
            c.add(9)
            c.discard(next(iter(model), 9))
        if set(ts) != model:
            complaint = "original-changed-by-mutating-copy"
        elif env.raw and not env.silent:
            complaint = "original-notified-by-mutating-copy"
    if complaint:
        ctx.violation("copy/%s/%s" % (mode, complaint),
                      "copy law: %s for %s of a %s set %r (protocol %r)"
                      % (complaint, mode, flavour, set(model), proto),
                      {"flavour": flavour, "mode": mode, "protocol": proto,
                       "contents": set(model), "copy": repr(c)})
        return complaint, None
    return None, cenv


def untouched(env, model):
    """None when env's set was left alone since its logs were cleared: nothing was
    delivered to its recorder / observer and it still holds `model`."""
    if env.raw or env.obs_log:
        return "notified"
    if env.silent and env.flavour != "tso" and env.ts.notifiers:
        return "given-a-notifier"            # nobody listens: this is all one can see
    if set(env.ts) != model:
        return "changed"
    return None


def isolation_violation(ctx, mode, who, what, by, env, model, detail):
    ctx.violation("copy/%s/%s-%s-by-change-to-%s" % (mode, who, what, by),
                  "a change to the %s %s the %s (%s of a %s set): %r; recorder of the untouched "
                  "set got %r observer=%r, it holds %r, expected %r"
                  % (by, {"given-a-notifier": "put a notifier on"}.get(what, what), who, mode,
                     env.flavour, detail, env.raw[:3], env.obs_log[:3], set(env.ts), model),
                  {"flavour": env.flavour, "mode": mode, "detail": detail})


# -- generators -----------------------------------------------------------------
def validated_universe(flavour):
    out = []
    for x in ITEMS[flavour]:
        try:
            v = IV[flavour](x)
        except TraitError:
            continue
        if not any(v == o for o in out):
            out.append(v)
    return out


UNIVERSE = {f: validated_universe(f) for f in ITEMS}     # with nothing banned


def start_states(flavour, smax):
    uni = UNIVERSE[flavour]
    for n in range(0, smax + 1):
        for combo in itertools.combinations(uni, n):
            yield list(combo)


def single_ops(flavour):
    items = ITEMS[flavour]
    for x in items + [UNHASH]:
        yield ("add", x)
        yield ("discard", x)
        yield ("remove", x)
    yield ("pop",)
    yield ("clear",)
    payloads = [[]] + [[x] for x in items] + [[x, y] for x in items for y in items if x is not y]
    small = [[]] + [[x] for x in items]
    hostile = [("raw", 5), ("raw", None), ("list", [UNHASH]), ("list", [items[0], UNHASH])]
    for name in MULTI:
        yield (name, [])
        for p in payloads:
            yield (name, [("list", p)])
        for p in small:
            yield (name, [("set", p)])
            yield (name, [("gen", p)])
        for p, q in itertools.product(small, repeat=2):
            yield (name, [("list", p), ("list", q)])
        yield (name, [("self", None)])
        for hz in hostile:
            yield (name, [hz])
            yield (name, [("list", [items[0]]), hz])
            yield (name, [("list", [items[1]]), hz])
    for p in payloads:
        yield ("symmetric_difference_update", ("list", p))
    for hz in hostile + [("self", None), ("gen", [items[0], items[1]])]:
        yield ("symmetric_difference_update", hz)
    for name in INPLACE:
        for p in payloads:
            yield (name, ("set", p))
        for p in small:
            yield (name, ("frozenset", p))
        yield (name, ("self", None))
        for other in (("list", [items[0]]), ("list", []), ("raw", 5), ("raw", None),
                      ("gen", [items[0]])):
            yield (name, other)


def random_op(rng, flavour, allow_hostile_diff):
    items = ITEMS[flavour]

    def item():
        if rng.random() < 0.02:
            return UNHASH
        return rng.choice(items)

    def payload(nmax=3):
        return [rng.choice(items) for _ in range(rng.randint(0, nmax))]

    def iterable():
        r = rng.random()
        if r < 0.03:
            return ("raw", rng.choice([5, None]))
        if r < 0.06:
            return ("list", payload(2) + [UNHASH])
        if r < 0.09:
            return ("self", None)
        return (rng.choice(["list", "list", "set", "gen", "frozenset"]), payload())

    def operand():
        r = rng.random()
        if r < 0.08:
            return rng.choice([("list", payload()), ("raw", 5), ("raw", None), ("gen", payload())])
        if r < 0.12:
            return ("self", None)
        return (rng.choice(["set", "set", "frozenset"]), payload(4))

    c = rng.randrange(20)
    if c in (0, 1):
        return ("add", item())
    if c == 2:
        return ("discard", item())
    if c == 3:
        return ("remove", item())
    if c == 4:
        return ("pop",)
    if c == 5:
        return ("clear",) if rng.random() < 0.3 else ("pop",)
    if c in (6, 7, 8):
        return ("update", [iterable() for _ in range(rng.choice([0, 1, 1, 1, 2, 2, 3]))])
    if c in (9, 10):
        for _ in range(20):
            op = ("difference_update", [iterable() for _ in range(rng.choice([0, 1, 1, 2, 2]))])
            # stratification (DESIGN 2.2): arguments on which the built-in fails
            # half-way are drawn in the "hostile" stratum only
            if allow_hostile_diff or not hostile_difference(op):
                return op
        return ("difference_update", [])
    if c in (11, 12):
        return ("intersection_update", [iterable() for _ in range(rng.choice([0, 1, 1, 2, 2]))])
    if c in (13, 14):
        return ("symmetric_difference_update", iterable())
    return (["ior", "iand", "isub", "ixor", "ixor"][c - 15], operand())


def run(ctx):
    # an exception inside an observer notifier must surface as a failing operation
    obs_api.push_exception_handler(handler=lambda event: None, reraise_exceptions=True)
    # likewise for <name>_items listeners (the re-entrant ones catch what their own
    # operations raise; anything else must not be swallowed)
    push_exception_handler(handler=lambda *args: None, reraise_exceptions=True, main=True)
    smax = 3
    # ---- exhaustive single operations ---------------------------------------
    gi = 0
    for flavour in ("coerce", "tso", "reject", "none"):
        ops = list(single_ops(flavour))
        for si, state in enumerate(start_states(flavour, smax)):
            batch = []
            for op in ops:
                gi += 1
                if ctx.mine(gi // 64):
                    batch.append((gi, op))
            if not ctx.begin("ex:%s:%d" % (flavour, si),
                             {"flavour": flavour, "state": state, "ops": len(batch)}):
                continue
            try:
                BANNED.clear()
                for g, op in batch:
                    env = Env(flavour, state, n_obs=(g // 2) % 2, raw_first=bool((g // 4) % 2),
                              ctor_notifier=bool(g % 2))
                    model = set(state)
                    check_one(ctx, env, model, op)
                    ctx.count("exhaustive_cases")
                    if flavour != "tso":
                        # nobody listening: never had a notifier / a fresh copy
                        env = Env(flavour, state, silent=True)
                        check_one(ctx, env, set(state), op)
                        ctx.count("exhaustive_cases")
                        ctx.count("exhaustive_unwatched_cases")
                        mode, proto = COPY_MODES[g % len(COPY_MODES)]
                        if mode != "deepcopy" or g % 3 == 0:
                            env = Env(flavour, state, ctor_notifier=True)
                            try:
                                c = do_copy(env.ts, mode, proto)
                            except Exception:
                                c = None             # judged by the copy law below
                            if type(c) is TraitSet and set(c) == set(state) and not c.notifiers:
                                cenv = Env(flavour, (), ts=c, silent=True)
                                check_one(ctx, cenv, set(state), op, copied=True)
                                ctx.count("exhaustive_cases")
                                ctx.count("exhaustive_unwatched_cases")
                if batch:
                    ctx.sample({"flavour": flavour, "start": state, "op": batch[len(batch) // 2][1]})
            finally:
                ctx.end()
    # ---- exhaustive copies of small sets --------------------------------------
    for fi, flavour in enumerate(("coerce", "tso", "reject", "none")):
        if not ctx.mine(fi):
            continue
        if not ctx.begin("excopy:%s" % flavour, {"flavour": flavour}):
            continue
        try:
            BANNED.clear()
            for state in start_states(flavour, smax):
                for mode, proto in copy_modes():
                    env = Env(flavour, state)
                    check_copy(ctx, env, set(state), mode, proto)
        finally:
            ctx.end()
    # ---- re-entrant listeners: exhaustive single operations x fixed reactions ----
    gi = 0
    for flavour in ("coerce", "tso", "reject"):
        ops = list(single_ops(flavour))
        scripts = reaction_scripts(flavour)
        kinds = REACTOR_KINDS if flavour == "tso" else REACTOR_KINDS[:2]
        for si, state in enumerate(start_states(flavour, 2)):
            batch = []
            for op in ops:
                gi += 1
                if ctx.mine(gi // 64):
                    batch.append((gi, op))
            if not ctx.begin("rex:%s:%d" % (flavour, si),
                             {"flavour": flavour, "state": state, "ops": len(batch)}):
                continue
            try:
                BANNED.clear()
                for g, op in batch:
                    k = len(scripts)
                    renv = ReEnv(ctx, flavour, state, kinds[g % len(kinds)], "any",
                                 scripts=scripts[g % k:] + scripts[:g % k])
                    check_reentrant(ctx, renv, op)
                    ctx.count("reentrant_exhaustive_cases")
                if batch:
                    ctx.sample({"stratum": "reentrant", "flavour": flavour, "start": state,
                                "op": batch[len(batch) // 2][1]})
            finally:
                ctx.end()
    # ---- re-entrant listeners: random histories ----------------------------------
    nr = ctx.scale(3000, 80000)
    for h in range(nr):
        if not ctx.mine(h):
            continue
        if not ctx.begin("rehist:%d" % h):
            continue
        try:
            rng = ctx.rng("rehist", h)
            BANNED.clear()
            flavour = rng.choice(["reject", "coerce", "tso", "coerce", "tso", "none"])
            kind = rng.choice(REACTOR_KINDS if flavour == "tso" else REACTOR_KINDS[:2])
            uni = list(UNIVERSE[flavour])
            rng.shuffle(uni)
            state = uni[:rng.randint(0, 4)]
            renv = ReEnv(ctx, flavour, state, kind, rng.choice(TRIGGERS), rng=rng,
                         max_reactions=rng.choice([1, 2, 2, 3]), max_depth=rng.choice([1, 1, 2]))
            ctx.count("reentrant_histories")
            ops = []
            for step in range(15):
                op = random_op(rng, flavour, False)
                ops.append(op)
                if check_reentrant(ctx, renv, op):
                    break
            if h < 2 * ctx.nshards:
                ctx.sample({"stratum": "reentrant", "flavour": flavour, "reactor": kind,
                            "trigger": renv.trigger, "start": state, "history": ops[:5]})
        finally:
            ctx.end()
    # ---- random histories -----------------------------------------------------
    nh = ctx.scale(16000, 400000)
    modes = copy_modes()
    for h in range(nh):
        if not ctx.mine(h):
            continue
        if not ctx.begin("hist:%d" % h):
            continue
        try:
            rng = ctx.rng("hist", h)
            BANNED.clear()
            hostile = rng.random() < 0.08
            flavour = rng.choice(["reject", "coerce", "tso", "coerce", "tso", "none"])
            uni = list(UNIVERSE[flavour])
            rng.shuffle(uni)
            state = uni[:rng.randint(0, 4)]
            n_obs = rng.choice([0, 0, 1])
            raw_first, ctor_notifier = rng.random() < 0.5, rng.random() < 0.5
            # nobody-listening ingredients (bare flavours only: a TraitSetObject
            # always carries its own notifier)
            silent = flavour != "tso" and n_obs == 0 and rng.random() < 0.35
            watch_copy = rng.random() < 0.4
            if silent:
                env = Env(flavour, state, silent=True)
                ctx.count("histories_started_unwatched")
            else:
                env = Env(flavour, state, n_obs=n_obs, raw_first=raw_first,
                          ctor_notifier=ctor_notifier)
            model = set(state)
            r = rng.random()
            mode, proto = (None, None) if r < 0.2 else ("method", None) if r < 0.25 else \
                modes[0] if r < 0.4 else modes[1] if r < 0.55 else rng.choice(modes[2:])
            copy_at = rng.randint(0, 20)
            ops = []
            ctx.count("histories_hostile" if hostile else "histories_plain")
            twin = None                  # (Env, model) of the copy, kept next to the original
            for step in range(20):
                if mode == "method" and step == copy_at:
                    # s.copy() is a plain set: changing it must not reach the original
                    ops.append(("<copy>", mode, proto))
                    c = env.ts.copy()
                    env.clear_logs()
                    c.add(9)
                    c.discard(next(iter(model), 9))
                    c.clear()
                    ctx.ev()
                    ctx.count("isolation_checks")
                    ctx.count("isolation_checks_copy_mutated")
                    what = untouched(env, model)
                    if what:
                        isolation_violation(ctx, mode, "original", what, "copy", env, model, "add/discard/clear")
                        break
                elif mode and step == copy_at:
                    ops.append(("<copy>", mode, proto))
                    complaint, cenv = check_copy(ctx, env, model, mode, proto, watch=watch_copy)
                    if complaint:
                        break
                    if cenv is not None:
                        twin = (cenv, cenv.model)
                if flavour in ("reject", "coerce") and rng.random() < 0.08:
                    x = rng.choice(UNIVERSE[flavour])
                    if x in BANNED:
                        BANNED.discard(x)
                    else:
                        BANNED.add(x)
                    ops.append(("<toggle-ban>", x))
                    ctx.count("ban_toggles")
                op = random_op(rng, flavour, hostile)
                ctx.count("history_ops")
                if twin is None:
                    ops.append(op)
                    if check_one(ctx, env, model, op):
                        break
                    continue
                # both objects stay alive; most operations go to the copy, and the
                # one that is not operated on must neither change nor be notified
                on_copy = rng.random() < 0.7
                (tenv, tmodel), (oenv, omodel) = (twin, (env, model)) if on_copy \
                    else ((env, model), twin)
                ops.append(("copy" if on_copy else "original",) + op)
                oenv.clear_logs()
                if on_copy:
                    ctx.count("ops_on_copies")
                if check_one(ctx, tenv, tmodel, op, copied=on_copy):
                    break
                ctx.ev()
                ctx.count("isolation_checks")
                ctx.count("isolation_checks_%s_mutated" % ("copy" if on_copy else "original"))
                what = untouched(oenv, omodel)
                if what:
                    isolation_violation(ctx, mode, "original" if on_copy else "copy", what,
                                        "copy" if on_copy else "original", oenv, omodel, op)
                    break
            if h < 3 * ctx.nshards:
                ctx.sample({"flavour": flavour, "start": state, "observers": env.n_obs,
                            "copy": [mode, proto, copy_at], "history": ops[:7]})
        finally:
            ctx.end()
